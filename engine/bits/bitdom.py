"""E4 — bit-provenance abstract interpreter over straight-line MIR.

Every integer value is a vector of bit symbols (LSB first): 0, 1, ('in', name, i) — bit i of a named
input —, ('f', fname, name, i) — bit i of an opaque bijection fname applied to a whole input —, or
'T' (unknown). Struct values are dicts field -> vector. Transfer functions are exact for constant
shifts, masks, zero-extending / truncating casts and carry-free additions; anything else is 'T'.
Assert terminators are evaluated: an assertion whose condition is not a known constant is an
undischarged obligation (possible panic)."""

WIDTH = {"u8": 8, "u16": 16, "u32": 32, "u64": 64, "usize": 64, "i32": 32, "i64": 64, "isize": 64, "bool": 1}


def const_bits(v, w):
    return [(v >> i) & 1 for i in range(w)]


def is_const(bits):
    return all(b in (0, 1) for b in bits)


def to_int(bits):
    return sum((1 << i) for i, b in enumerate(bits) if b == 1)


def b_and(a, b):
    if a == 0 or b == 0:
        return 0
    if a == 1:
        return b
    if b == 1:
        return a
    return a if a == b else "T"


def b_or(a, b):
    if a == 1 or b == 1:
        return 1
    if a == 0:
        return b
    if b == 0:
        return a
    return a if a == b else "T"


class Undecided(Exception):
    pass


class Interp:
    def __init__(self, body, args, opaque_calls=None):
        """args: {local index: value}; value = bit vector or dict of fields"""
        self.body = body
        self.facts = body.facts
        self.env = dict(args)
        self.obligations = []  # (descr, discharged)
        self.opaque = opaque_calls or {}
        self.trace = []

    def width_of(self, tyid):
        s = self.facts.types[tyid]["s"]
        if s not in WIDTH:
            raise Undecided("unsupported type " + s)
        return WIDTH[s]

    def read_place(self, pl):
        v = self.env.get(pl["l"])
        if v is None:
            raise Undecided("read of unset local _%d" % pl["l"])
        for p in pl["p"]:
            if isinstance(p, dict) and "f" in p:
                if isinstance(v, dict):
                    v = v[p["n"]]
                elif isinstance(v, tuple):
                    v = v[p["f"]]
                else:
                    raise Undecided("field of scalar")
            else:
                raise Undecided("projection %r" % (p,))
        return v

    def operand(self, op):
        k = op.get("k")
        if k is not None:
            if "v" not in k:
                raise Undecided("unevaluated constant " + k["s"])
            return const_bits(k["v"], self.width_of(k["ty"]))
        pl = op.get("c") or op.get("m")
        return self.read_place(pl)

    def rvalue(self, rv, dest_ty):
        r = rv["r"]
        if r == "use":
            return self.operand(rv["o"])
        if r == "cast":
            v = self.operand(rv["o"])
            if rv["kind"] != "IntToInt":
                raise Undecided("cast " + rv["kind"])
            w = self.width_of(rv["ty"])
            return (v + [0] * w)[:w]
        if r == "bin":
            a, b = self.operand(rv["a"]), self.operand(rv["b"])
            op = rv["op"]
            if op in ("BitAnd", "BitOr"):
                fn = b_and if op == "BitAnd" else b_or
                return [fn(x, y) for x, y in zip(a, b)]
            if op in ("Shl", "Shr", "ShlUnchecked", "ShrUnchecked"):
                if not is_const(b):
                    raise Undecided("shift by a non-constant amount")
                k = to_int(b)
                w = len(a)
                if op.startswith("Shl"):
                    return ([0] * k + a)[:w]
                return (a[k:] + [0] * k)[:w] if k < w else [0] * w
            if op in ("Add", "AddWithOverflow", "AddUnchecked"):
                w = len(a)
                if is_const(a) and is_const(b):
                    s = to_int(a) + to_int(b)
                    val, ovf = const_bits(s & ((1 << w) - 1), w), [1 if s >> w else 0]
                elif all(x == 0 or y == 0 for x, y in zip(a, b)):
                    # carry free: at every position at most one operand can be non-zero
                    val, ovf = [y if x == 0 else x for x, y in zip(a, b)], [0]
                else:
                    val, ovf = ["T"] * w, ["T"]
                return (val, ovf) if op == "AddWithOverflow" else val
            if op in ("Lt", "Le", "Gt", "Ge", "Eq", "Ne"):
                if is_const(a) and is_const(b):
                    x, y = to_int(a), to_int(b)
                    return [int({"Lt": x < y, "Le": x <= y, "Gt": x > y, "Ge": x >= y, "Eq": x == y, "Ne": x != y}[op])]
                return ["T"]
            raise Undecided("binary op " + op)
        if r == "agg":
            if rv.get("kind") == "adt":
                return {n: self.operand(o) for n, o in zip(rv["field_names"], rv["fields"])}
            if rv.get("kind") == "tuple":
                return tuple(self.operand(o) for o in rv["fields"])
        raise Undecided("rvalue " + r)

    def run(self, max_steps=200):
        b = self.body
        bb = 0
        for _ in range(max_steps):
            blk = b.blocks[bb]
            for st in blk["st"]:
                if st["s"] != "assign":
                    continue
                pl = st["pl"]
                if pl["p"]:
                    raise Undecided("store to a projection")
                self.env[pl["l"]] = self.rvalue(st["rv"], pl["t"])
            t = blk["term"]
            k = t["t"]
            if k == "return":
                return self.env.get(0)
            if k == "goto":
                bb = t["to"]
            elif k == "assert":
                c = self.operand(t["cond"])
                ok = is_const(c) and (to_int(c) == 1) == t["expected"]
                self.obligations.append(("%s: assert %s" % (b.qual, t["msg"][:70]), ok, b.where(bb)))
                bb = t["to"]
            elif k == "call":
                f = t.get("f")
                name = f["name"] if f else None
                key = f["path"] if f else None
                if name in self.opaque:
                    args = [self.operand(a) for a in t["args"]]
                    self.env[t["dest"]["l"]] = self.opaque[name](args)
                    bb = t["to"]
                else:
                    raise Undecided("call " + str(key))
            else:
                raise Undecided("terminator " + k)
        raise Undecided("too many steps")


def sym_input(name, w):
    return [("in", name, i) for i in range(w)]
