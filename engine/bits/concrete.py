"""Concrete evaluation of small pure integer/struct MIR functions, for exhaustive input enumeration.

The bit-provenance interpreter (bitdom.py) decides the token arithmetic symbolically, but only for the operator shapes it
knows (`wrapping_add(..) & MASK`, shifts and ors of disjoint fields). A behaviour-preserving rewrite into another
arithmetic form — `(v + 1) % (MASK + 1)` on a wider type, an early panic guard instead of `checked_add` — leaves that
fragment. For functions whose interesting input is one 16-bit field the question can simply be settled by running the MIR
facts on every value: this module is that interpreter. Integers carry their width; `AddWithOverflow`-style checked operators
and `assert` terminators behave as in a debug build (a failed assertion or a call of a panic function is the outcome
`Panic`). Supported: constants, copies, field projections of structs / tuples, struct aggregates, integer casts, the binary
operators, switches, asserts, calls of local functions, and the std integer helpers the crate uses (`wrapping_add`,
`checked_add`, `saturating_add`, `min`, `max`, `From`/`Into` between integer types). Anything else raises Unsupported and
the caller keeps the verdict of its structural rule."""
import re


class Unsupported(Exception):
    pass


class Panic(Exception):
    pass


def _int_ty(s):
    """(bits, signed) of an integer type name, None otherwise"""
    m = re.fullmatch(r"([ui])(8|16|32|64|128|size)", s or "")
    if not m:
        return (1, False) if s == "bool" else None
    bits = 64 if m.group(2) == "size" else int(m.group(2))
    return bits, m.group(1) == "i"


def _wrap(v, bits, signed):
    v &= (1 << bits) - 1
    if signed and v >> (bits - 1):
        v -= 1 << bits
    return v


class Machine:
    def __init__(self, facts, max_steps=2000):
        self.facts = facts
        self.max_steps = max_steps

    # values: int (python int) | ('struct', [values]) | ('tuple', [values]) | ('opt', None | value)
    def run(self, body, args):
        env = {i + 1: a for i, a in enumerate(args)}
        bb = 0
        steps = 0
        while True:
            steps += 1
            if steps > self.max_steps:
                raise Unsupported("too many steps")
            blk = body.blocks[bb]
            for st in blk["st"]:
                if st["s"] == "assign":
                    self.store(body, env, st["pl"], self.rvalue(body, env, st["rv"], st["pl"]))
                elif st["s"] == "setdiscr":
                    raise Unsupported("set_discriminant")
            t = blk["term"]
            k = t["t"]
            if k == "return":
                return env.get(0)
            if k == "goto":
                bb = t["to"]
            elif k == "switch":
                v = self.operand(body, env, t["on"])
                if not isinstance(v, int):
                    raise Unsupported("switch on a non-integer")
                tgt = t["otherwise"]
                for val, x in t["targets"]:
                    if val == v:
                        tgt = x
                bb = tgt
            elif k == "assert":
                c = self.operand(body, env, t["cond"])
                if bool(c) != bool(t.get("expected", True)):
                    raise Panic(t.get("msg", "assert"))
                bb = t["to"]
            elif k == "drop":
                bb = t["to"]
            elif k == "call":
                r = self.call(body, env, bb, t)
                if t.get("to") is None:
                    raise Panic("diverging call")
                self.store(body, env, t["dest"], r)
                bb = t["to"]
            elif k == "unreachable":
                raise Unsupported("reached `unreachable`")
            else:
                raise Unsupported("terminator " + k)

    def load(self, body, env, pl):
        if pl["l"] not in env:
            raise Unsupported("read of unset local _%d" % pl["l"])
        v = env[pl["l"]]
        for p in pl["p"]:
            if p == "*":
                continue  # references to locals are modelled by value (pure functions only)
            if isinstance(p, dict) and "f" in p:
                if isinstance(v, tuple) and v[0] in ("struct", "tuple"):
                    v = v[1][p["f"]]
                elif isinstance(v, tuple) and v[0] == "opt" and v[1] is not None and p["f"] == 0:
                    v = v[1]
                else:
                    raise Unsupported("field of a scalar")
            elif isinstance(p, dict) and "d" in p:
                if not (isinstance(v, tuple) and v[0] == "opt"):
                    raise Unsupported("downcast")
            else:
                raise Unsupported("projection")
        return v

    def store(self, body, env, pl, val):
        if not pl["p"]:
            env[pl["l"]] = val
            return
        # assignment to a field of a local struct
        cur = env.get(pl["l"])
        path = [p for p in pl["p"] if p != "*"]
        if cur is None or len(path) != 1 or not (isinstance(path[0], dict) and "f" in path[0]) or not (isinstance(cur, tuple) and cur[0] in ("struct", "tuple")):
            raise Unsupported("store through a projection")
        items = list(cur[1])
        items[path[0]["f"]] = val
        env[pl["l"]] = (cur[0], items)

    def operand(self, body, env, op):
        k = op.get("k")
        if k is not None:
            v = k.get("v")
            if isinstance(v, bool):
                return int(v)
            if isinstance(v, int):
                return v
            if k.get("s") == "()":
                return ("tuple", [])
            return ("opaque",)  # string / byte-string constants (panic messages): carried, never computed with
        return self.load(body, env, op.get("c") or op.get("m"))

    def _width_of_operand(self, body, op):
        k = op.get("k")
        t = k.get("ty") if k is not None else (op.get("c") or op.get("m") or {}).get("t")
        it = _int_ty(self.facts.types[t]["s"]) if t is not None else None
        return it

    def rvalue(self, body, env, rv, dest):
        r = rv["r"]
        if r == "use":
            return self.operand(body, env, rv["o"])
        if r in ("ref", "rawptr"):
            return self.load(body, env, rv["pl"])
        if r == "cast":
            v = self.operand(body, env, rv["o"])
            it = _int_ty(self.facts.types[rv["ty"]]["s"])
            if not isinstance(v, int) or it is None:
                raise Unsupported("cast " + str(rv.get("kind")))
            return _wrap(v, *it)
        if r == "agg":
            vals = [self.operand(body, env, o) for o in rv["fields"]]
            if rv.get("kind") in ("tuple", "array"):
                return ("tuple", vals)
            if rv.get("kind") == "adt":
                if rv.get("adt") == "std::option::Option":
                    return ("opt", vals[0] if vals else None)
                return ("struct", vals)
            raise Unsupported("aggregate " + str(rv.get("kind")))
        if r == "discr":
            v = self.load(body, env, rv["pl"])
            if isinstance(v, tuple) and v[0] == "opt":
                return 0 if v[1] is None else 1
            raise Unsupported("discriminant")
        if r == "un":
            a = self.operand(body, env, rv["a"])
            it = self._width_of_operand(body, rv["a"])
            if rv.get("op") == "Not" and isinstance(a, int) and it:
                return (1 - a) if it[0] == 1 else _wrap(~a, *it)
            if rv.get("op") == "Neg" and isinstance(a, int) and it:
                return _wrap(-a, *it)
            raise Unsupported("unary")
        if r == "bin":
            a, b = self.operand(body, env, rv["a"]), self.operand(body, env, rv["b"])
            if not isinstance(a, int) or not isinstance(b, int):
                raise Unsupported("binary op on non-integers")
            op = rv["op"]
            it = self._width_of_operand(body, rv["a"]) or (64, False)
            cmp_ = {"Eq": a == b, "Ne": a != b, "Lt": a < b, "Le": a <= b, "Gt": a > b, "Ge": a >= b}
            if op in cmp_:
                return int(cmp_[op])
            checked = op.endswith("WithOverflow")
            base = op[: -len("WithOverflow")] if checked else op
            base = base[: -len("Unchecked")] if base.endswith("Unchecked") else base
            if base == "Add":
                full = a + b
            elif base == "Sub":
                full = a - b
            elif base == "Mul":
                full = a * b
            elif base in ("Div", "Rem"):
                if b == 0:
                    raise Panic("division by zero")
                q = abs(a) // abs(b) * (1 if (a >= 0) == (b >= 0) else -1)
                full = q if base == "Div" else a - q * b
            elif base == "BitAnd":
                full = a & b
            elif base == "BitOr":
                full = a | b
            elif base == "BitXor":
                full = a ^ b
            elif base == "Shl":
                if checked and b >= it[0]:
                    return ("tuple", [0, 1])
                full = a << (b % it[0])
            elif base == "Shr":
                if checked and b >= it[0]:
                    return ("tuple", [0, 1])
                full = a >> (b % it[0])
            else:
                raise Unsupported("binary op " + op)
            w = _wrap(full, *it)
            if checked:
                return ("tuple", [w, int(w != full)])
            return w
        raise Unsupported("rvalue " + r)

    def call(self, body, env, bb, t):
        f = t.get("f") or {}
        name = f.get("name")
        path = f.get("path") or ""
        full = f.get("full") or ""
        args = [self.operand(body, env, a) for a in t["args"]]
        cs = body.call_at(bb)
        cb = cs.callee_body() if cs is not None else None
        if cb is not None:
            return self.run(cb, args)
        if path.startswith(("core::fmt::", "std::fmt::")):
            return ("opaque",)  # formatting the message of a panic
        if "panic" in path or name in ("panic", "panic_fmt", "panic_display", "begin_panic", "unreachable_display", "expect_failed", "unwrap_failed"):
            raise Panic(path)
        dest_t = t["dest"].get("t")
        dit = _int_ty(self.facts.types[dest_t]["s"]) if dest_t is not None else None
        ait = self._width_of_operand(body, t["args"][0]) if t["args"] else None
        ints = all(isinstance(a, int) for a in args)
        if name in ("from", "into") and ints and len(args) == 1 and dit:
            return _wrap(args[0], *dit)
        if ints and ait and len(args) == 2:
            a, b = args
            if name == "wrapping_add":
                return _wrap(a + b, *ait)
            if name == "wrapping_sub":
                return _wrap(a - b, *ait)
            if name == "saturating_add":
                hi = (1 << (ait[0] - (1 if ait[1] else 0))) - 1
                return min(a + b, hi)
            if name == "saturating_sub":
                lo = -(1 << (ait[0] - 1)) if ait[1] else 0
                return max(a - b, lo)
            if name in ("checked_add", "checked_sub", "checked_mul"):
                full_ = a + b if name == "checked_add" else a - b if name == "checked_sub" else a * b
                return ("opt", full_ if _wrap(full_, *ait) == full_ else None)
            if name == "min":
                return min(a, b)
            if name == "max":
                return max(a, b)
            if name in ("eq", "ne"):
                return int((a == b) == (name == "eq"))
        if name in ("clone", "deref", "borrow") and len(args) == 1:
            return args[0]
        raise Unsupported("call of %s" % (full or path))
