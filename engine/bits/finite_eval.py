"""Exhaustive evaluation of a small pure MIR function over a finite input domain.

For functions whose whole input space is a handful of field-less enum values (PostAction | PostAction:
16 pairs) the property "f(a, b) = a if a == b else Reregister" is decided by evaluating the MIR facts
for every input — independent of how the function is spelled (comparison + if, match on the tuple,
lookup table, delegation to a sibling). The evaluator understands only what such functions use:
constants, copies, references to locals, tuples, field-less / single-payload enum aggregates,
discriminant reads, integer comparisons, switches, calls to local functions (evaluated recursively)
and `mem::replace`/`swap`-free straight code. Anything else raises Unsupported (the caller falls back
to its structural rule and, failing that, reports the function as undecided)."""


class Unsupported(Exception):
    pass


class Cell:
    __slots__ = ("v",)

    def __init__(self, v):
        self.v = v


class Eval:
    def __init__(self, facts, max_steps=4000, oracles=None):
        self.facts = facts
        self.oracles = oracles or {}  # callee name -> value returned (an external query answered by the enumeration)
        self.steps = 0
        self.max_steps = max_steps
        self.variant_names = {}

    # values: ('enum', adt, variant_idx, [payload values]) | ('int', n) | ('tuple', [values]) | ('ref', Cell) | ('unit',)
    def discr(self, v):
        if v[0] == "enum":
            adt = self.facts.adts.get(v[1])
            if adt is not None:
                d = adt["variants"][v[2]].get("discr")
                return v[2] if d is None else d
            return v[2]
        if v[0] == "int":
            return v[1]
        raise Unsupported("discriminant of " + v[0])

    def run(self, body, args):
        env = {i + 1: Cell(a) for i, a in enumerate(args)}
        bb = 0
        while True:
            self.steps += 1
            if self.steps > self.max_steps:
                raise Unsupported("too many steps")
            blk = body.blocks[bb]
            for st in blk["st"]:
                if st["s"] == "assign":
                    self.store(body, env, st["pl"], self.rvalue(body, env, st["rv"]))
                elif st["s"] == "setdiscr":
                    raise Unsupported("set_discriminant")
            t = blk["term"]
            k = t["t"]
            if k == "return":
                c = env.get(0)
                return c.v if c is not None else ("unit",)
            if k == "goto":
                bb = t["to"]
            elif k == "switch":
                v = self.operand(body, env, t["on"])
                if v[0] != "int":
                    raise Unsupported("switch on " + v[0])
                tgt = t["otherwise"]
                for val, x in t["targets"]:
                    if val == v[1]:
                        tgt = x
                bb = tgt
            elif k in ("drop", "assert"):
                bb = t["to"]
            elif k == "call":
                self.store(body, env, t["dest"], self.call(body, env, bb, t))
                if t.get("to") is None:
                    raise Unsupported("diverging call")
                bb = t["to"]
            elif k == "unreachable":
                raise Unsupported("reached `unreachable`")
            else:
                raise Unsupported("terminator " + k)

    def place(self, body, env, pl, create=False):
        c = env.get(pl["l"])
        if c is None:
            if not create:
                raise Unsupported("read of unset local _%d" % pl["l"])
            c = env[pl["l"]] = Cell(None)
        cur = c
        for p in pl["p"]:
            v = cur.v
            if p == "*":
                if v is None or v[0] != "ref":
                    raise Unsupported("deref of non-reference")
                cur = v[1]
            elif isinstance(p, dict) and "f" in p:
                if v is None or v[0] not in ("tuple", "enum"):
                    raise Unsupported("field of " + str(v and v[0]))
                items = v[1] if v[0] == "tuple" else v[3]
                if not isinstance(items[p["f"]], Cell):
                    items[p["f"]] = Cell(items[p["f"]])
                cur = items[p["f"]]
            elif isinstance(p, dict) and "d" in p:
                if v is None or v[0] != "enum" or v[2] != p["d"]:
                    raise Unsupported("downcast mismatch")
            else:
                raise Unsupported("projection")
        return cur

    def load(self, body, env, pl):
        v = self.place(body, env, pl).v
        if v is None:
            raise Unsupported("read of uninitialised place")
        if v[0] == "opaque":
            return v
        return self.freeze(v)

    def freeze(self, v):
        if v[0] == "tuple":
            return ("tuple", [self.freeze(x.v if isinstance(x, Cell) else x) for x in v[1]])
        if v[0] == "enum":
            return ("enum", v[1], v[2], [self.freeze(x.v if isinstance(x, Cell) else x) for x in v[3]])
        return v

    def store(self, body, env, pl, val):
        self.place(body, env, pl, create=True).v = val

    def operand(self, body, env, op):
        k = op.get("k")
        if k is not None:
            if isinstance(k.get("v"), bool):
                return ("int", int(k["v"]))
            if isinstance(k.get("v"), int):
                return ("int", k["v"])
            if k.get("s") == "()":
                return ("unit",)
            raise Unsupported("constant " + str(k.get("s")))
        pl = op.get("c") or op.get("m")
        return self.load(body, env, pl)

    def rvalue(self, body, env, rv):
        r = rv["r"]
        if r in ("use", "cast"):
            return self.operand(body, env, rv["o"])
        if r in ("ref", "rawptr"):
            return ("ref", self.place(body, env, rv["pl"], create=True))
        if r == "discr":
            return ("int", self.discr(self.load(body, env, rv["pl"])))
        if r == "agg":
            if rv.get("kind") == "tuple":
                return ("tuple", [self.operand(body, env, o) for o in rv["fields"]])
            if rv.get("kind") == "adt" and "variant_idx" in rv:
                self.variant_names[(rv["adt"], rv["variant_idx"])] = rv.get("variant")
                return ("enum", rv["adt"], rv["variant_idx"], [self.operand(body, env, o) for o in rv["fields"]])
            raise Unsupported("aggregate " + str(rv.get("kind")))
        if r == "bin":
            a, b = self.operand(body, env, rv["a"]), self.operand(body, env, rv["b"])
            if a[0] != "int" or b[0] != "int":
                raise Unsupported("binary op on " + a[0])
            op = rv["op"]
            table = {"Eq": a[1] == b[1], "Ne": a[1] != b[1], "Lt": a[1] < b[1], "Le": a[1] <= b[1], "Gt": a[1] > b[1], "Ge": a[1] >= b[1]}
            if op in table:
                return ("int", int(table[op]))
            if op in ("BitAnd", "BitOr", "BitXor"):
                return ("int", {"BitAnd": a[1] & b[1], "BitOr": a[1] | b[1], "BitXor": a[1] ^ b[1]}[op])
            raise Unsupported("binary op " + op)
        if r == "un":
            a = self.operand(body, env, rv["a"])
            if rv.get("op") == "Not" and a[0] == "int" and a[1] in (0, 1):
                return ("int", 1 - a[1])
            raise Unsupported("unary op")
        raise Unsupported("rvalue " + r)

    def call(self, body, env, bb, t):
        cs = body.call_at(bb)
        cb = cs.callee_body() if cs is not None else None
        args = [self.operand(body, env, a) for a in t["args"]]
        if cb is None:
            f = t.get("f") or {}
            if f.get("name") in self.oracles:
                return self.oracles[f.get("name")]
            if f.get("name") == "ne" and (f.get("trait") or "").endswith("PartialEq") and cs is not None and cs.self_ty is not None:
                # the provided method: !self.eq(other), with the type's own (derived) eq
                eqb = self.facts.body("<%s as PartialEq>::eq" % self.facts.short_ty(self.facts.peel_refs(cs.self_ty)))
                if eqb is not None:
                    r = self.run(eqb, args)
                    if r[0] == "int":
                        return ("int", 1 - r[1])
            if (f.get("path") or "").endswith("intrinsics::discriminant_value") and args and args[0][0] == "ref":
                return ("int", self.discr(self.freeze(args[0][1].v)))
            if f.get("path") == "std::mem::replace" and len(args) == 2 and args[0][0] == "ref":
                old = self.freeze(args[0][1].v)
                args[0][1].v = args[1]
                return old
            if f.get("name") in ("clone", "deref", "borrow", "as_ref") and args and args[0][0] == "ref" and f.get("name") == "clone":
                return self.freeze(args[0][1].v)
            raise Unsupported("call of " + str(f.get("path")))
        return self.run(cb, args)
