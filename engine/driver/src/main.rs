// E1 — fact extractor. A faithful serialiser of the type-checked program (MIR at opt level 0,
// resolved callees, ADT layouts, impls, evaluated constants) into one JSON file per crate.
// It contains no property logic. Injected with RUSTC_WORKSPACE_WRAPPER (argv[1] = real rustc).
//
// Environment:
//   VERIF_FACTS_OUT    path of the JSON file to write (required for a crate to be dumped)
//   VERIF_FACTS_CRATES comma separated crate names to dump (default: calloop)
//   VERIF_FACTS_NONCE  copied into the file so the runner can tell a fresh run from a stale file
#![feature(rustc_private)]
#![allow(unused_variables, unused_imports, dead_code)]

extern crate rustc_abi;
extern crate rustc_driver;
extern crate rustc_hir;
extern crate rustc_interface;
extern crate rustc_middle;
extern crate rustc_span;

use std::collections::HashMap;
use std::fmt::Write as _;

use rustc_driver::Compilation;
use rustc_hir::def::DefKind;
use rustc_hir::def_id::{DefId, LocalDefId, LOCAL_CRATE};
use rustc_middle::mir::{
    AggregateKind, BasicBlock, Body, BorrowKind, CastKind, Const, ConstValue, Local, Operand,
    Place, PlaceElem, ProjectionElem, Rvalue, StatementKind, TerminatorKind, UnwindAction,
    VarDebugInfoContents,
};
use rustc_middle::mir::PlaceTy;
use rustc_middle::ty::{self, GenericArgKind, Instance, Ty, TyCtxt, TypingEnv};
use rustc_span::Span;

// ------------------------------------------------------------------------------------------
// minimal JSON
// ------------------------------------------------------------------------------------------
#[derive(Clone)]
enum J {
    Null,
    Bool(bool),
    Int(i128),
    Str(String),
    Arr(Vec<J>),
    Obj(Vec<(&'static str, J)>),
}

fn s(x: impl Into<String>) -> J {
    J::Str(x.into())
}

fn esc(out: &mut String, v: &str) {
    out.push('"');
    for c in v.chars() {
        match c {
            '"' => out.push_str("\\\""),
            '\\' => out.push_str("\\\\"),
            '\n' => out.push_str("\\n"),
            '\r' => out.push_str("\\r"),
            '\t' => out.push_str("\\t"),
            c if (c as u32) < 0x20 => {
                let _ = write!(out, "\\u{:04x}", c as u32);
            }
            c => out.push(c),
        }
    }
    out.push('"');
}

impl J {
    fn write(&self, out: &mut String) {
        match self {
            J::Null => out.push_str("null"),
            J::Bool(b) => out.push_str(if *b { "true" } else { "false" }),
            J::Int(i) => {
                let _ = write!(out, "{}", i);
            }
            J::Str(v) => esc(out, v),
            J::Arr(a) => {
                out.push('[');
                for (i, x) in a.iter().enumerate() {
                    if i > 0 {
                        out.push(',');
                    }
                    x.write(out);
                }
                out.push(']');
            }
            J::Obj(o) => {
                out.push('{');
                for (i, (k, x)) in o.iter().enumerate() {
                    if i > 0 {
                        out.push(',');
                    }
                    esc(out, k);
                    out.push(':');
                    x.write(out);
                }
                out.push('}');
            }
        }
    }
}

// ------------------------------------------------------------------------------------------
// context: interned type table
// ------------------------------------------------------------------------------------------
struct Cx<'tcx> {
    tcx: TyCtxt<'tcx>,
    ty_ids: HashMap<Ty<'tcx>, usize>,
    ty_tab: Vec<J>,
}

impl<'tcx> Cx<'tcx> {
    fn key(&self, did: DefId) -> String {
        let tcx = self.tcx;
        format!(
            "{}{}",
            tcx.crate_name(did.krate),
            tcx.def_path(did).to_string_no_crate_verbose()
        )
    }

    fn path(&self, did: DefId) -> String {
        self.tcx.def_path_str(did)
    }

    fn ty(&mut self, t: Ty<'tcx>) -> J {
        J::Int(self.ty_id(t) as i128)
    }

    fn ty_id(&mut self, t: Ty<'tcx>) -> usize {
        if let Some(&i) = self.ty_ids.get(&t) {
            return i;
        }
        // reserve the slot first (recursive types go through ADT paths, not through the table,
        // but nested generic arguments do recurse)
        let idx = self.ty_tab.len();
        self.ty_ids.insert(t, idx);
        self.ty_tab.push(J::Null);
        let j = self.ty_desc(t);
        self.ty_tab[idx] = j;
        idx
    }

    fn ty_desc(&mut self, t: Ty<'tcx>) -> J {
        let tcx = self.tcx;
        let mut o: Vec<(&'static str, J)> = vec![("s", s(format!("{}", t)))];
        // flags over the whole type tree
        let mut has_param = false;
        let mut has_dyn = false;
        let mut has_closure = false;
        let mut adts: Vec<String> = vec![];
        let mut params: Vec<String> = vec![];
        for arg in t.walk() {
            if let GenericArgKind::Type(inner) = arg.kind() {
                match inner.kind() {
                    ty::Param(p) => {
                        has_param = true;
                        let n = p.name.to_string();
                        if !params.contains(&n) {
                            params.push(n);
                        }
                    }
                    ty::Dynamic(..) => has_dyn = true,
                    ty::Closure(..) | ty::Coroutine(..) | ty::CoroutineClosure(..) => {
                        has_closure = true
                    }
                    ty::Alias(..) => has_param = true,
                    ty::Adt(def, _) => {
                        let p = self.path(def.did());
                        if !adts.contains(&p) {
                            adts.push(p);
                        }
                    }
                    _ => {}
                }
            }
        }
        o.push(("has_param", J::Bool(has_param)));
        o.push(("has_dyn", J::Bool(has_dyn)));
        o.push(("has_closure", J::Bool(has_closure)));
        o.push(("adts", J::Arr(adts.into_iter().map(s).collect())));
        o.push(("params", J::Arr(params.into_iter().map(s).collect())));
        match *t.kind() {
            ty::Adt(def, args) => {
                o.push(("k", s("adt")));
                o.push(("path", s(self.path(def.did()))));
                o.push(("key", s(self.key(def.did()))));
                o.push(("local", J::Bool(def.did().is_local())));
                let targs: Vec<J> = args.types().map(|a| self.ty(a)).collect();
                o.push(("args", J::Arr(targs)));
            }
            ty::Param(p) => {
                o.push(("k", s("param")));
                o.push(("name", s(p.name.to_string())));
            }
            ty::Ref(_, inner, m) => {
                o.push(("k", s("ref")));
                o.push(("mut", J::Bool(m.is_mut())));
                o.push(("t", self.ty(inner)));
            }
            ty::RawPtr(inner, m) => {
                o.push(("k", s("ptr")));
                o.push(("mut", J::Bool(m.is_mut())));
                o.push(("t", self.ty(inner)));
            }
            ty::Dynamic(preds, ..) => {
                o.push(("k", s("dyn")));
                let mut traits = vec![];
                if let Some(p) = preds.principal_def_id() {
                    traits.push(s(self.path(p)));
                }
                o.push(("traits", J::Arr(traits)));
            }
            ty::Closure(did, _) => {
                o.push(("k", s("closure")));
                o.push(("def", s(self.key(did))));
            }
            ty::Coroutine(did, _) => {
                o.push(("k", s("coroutine")));
                o.push(("def", s(self.key(did))));
            }
            ty::CoroutineClosure(did, _) => {
                o.push(("k", s("coroutine_closure")));
                o.push(("def", s(self.key(did))));
            }
            ty::FnDef(did, args) => {
                o.push(("k", s("fndef")));
                o.push(("def", s(self.key(did))));
                o.push(("path", s(self.path(did))));
                let targs: Vec<J> = args.types().map(|a| self.ty(a)).collect();
                o.push(("args", J::Arr(targs)));
            }
            ty::FnPtr(..) => {
                o.push(("k", s("fnptr")));
            }
            ty::Tuple(elems) => {
                o.push(("k", s("tuple")));
                let e: Vec<J> = elems.iter().map(|a| self.ty(a)).collect();
                o.push(("elems", J::Arr(e)));
            }
            ty::Array(inner, _) => {
                o.push(("k", s("array")));
                o.push(("t", self.ty(inner)));
            }
            ty::Slice(inner) => {
                o.push(("k", s("slice")));
                o.push(("t", self.ty(inner)));
            }
            ty::Alias(..) => {
                o.push(("k", s("alias")));
            }
            ty::Bool | ty::Char | ty::Int(_) | ty::Uint(_) | ty::Float(_) | ty::Str | ty::Never => {
                o.push(("k", s("prim")));
            }
            _ => {
                o.push(("k", s("other")));
            }
        }
        J::Obj(o)
    }

    // -------------------------------------------------------------------------------------
    // spans
    // -------------------------------------------------------------------------------------
    fn span(&self, sp: Span) -> J {
        let sm = self.tcx.sess.source_map();
        let mut macros: Vec<J> = vec![];
        for e in sp.macro_backtrace() {
            if let rustc_span::hygiene::ExpnKind::Macro(_, name) = e.kind {
                macros.push(s(name.to_string()));
            } else {
                macros.push(s(format!("{:?}", e.kind)));
            }
        }
        let root = sp.source_callsite();
        let lo = sm.lookup_char_pos(root.lo());
        let hi = sm.lookup_char_pos(root.hi());
        let file = match &lo.file.name {
            rustc_span::FileName::Real(r) => match r.local_path() {
                Some(p) => p.display().to_string(),
                None => format!("{:?}", lo.file.name),
            },
            other => format!("{:?}", other),
        };
        J::Obj(vec![
            ("file", s(file)),
            ("line", J::Int(lo.line as i128)),
            ("col", J::Int(lo.col.0 as i128 + 1)),
            ("hi_line", J::Int(hi.line as i128)),
            ("macros", J::Arr(macros)),
        ])
    }

    fn span_short(&self, sp: Span) -> J {
        // [line, outermost macro name or null]
        let sm = self.tcx.sess.source_map();
        let mut outer: J = J::Null;
        for e in sp.macro_backtrace() {
            if let rustc_span::hygiene::ExpnKind::Macro(_, name) = e.kind {
                outer = s(name.to_string());
            } else {
                outer = s(format!("{:?}", e.kind));
            }
        }
        let root = sp.source_callsite();
        let lo = sm.lookup_char_pos(root.lo());
        J::Arr(vec![J::Int(lo.line as i128), outer])
    }

    // -------------------------------------------------------------------------------------
    // places / operands / rvalues
    // -------------------------------------------------------------------------------------
    fn field_name(&self, base: PlaceTy<'tcx>, idx: usize) -> String {
        let tcx = self.tcx;
        match *base.ty.kind() {
            ty::Adt(def, _) => {
                let v = match base.variant_index {
                    Some(v) => v,
                    None => rustc_abi::FIRST_VARIANT,
                };
                if def.is_enum() && base.variant_index.is_none() {
                    return format!("{}", idx);
                }
                let variant = def.variant(v);
                match variant.fields.iter().nth(idx) {
                    Some(f) => f.name.to_string(),
                    None => format!("{}", idx),
                }
            }
            ty::Closure(did, _) | ty::CoroutineClosure(did, _) => {
                if let Some(ldid) = did.as_local() {
                    let caps = tcx.closure_captures(ldid);
                    if let Some(c) = caps.get(idx) {
                        return c.to_symbol().to_string();
                    }
                }
                format!("{}", idx)
            }
            ty::Coroutine(did, _) => {
                if let Some(ldid) = did.as_local() {
                    let caps = tcx.closure_captures(ldid);
                    if let Some(c) = caps.get(idx) {
                        return c.to_symbol().to_string();
                    }
                }
                format!("{}", idx)
            }
            _ => format!("{}", idx),
        }
    }

    fn place(&mut self, body: &Body<'tcx>, p: Place<'tcx>) -> J {
        let tcx = self.tcx;
        let mut pty = PlaceTy::from_ty(body.local_decls[p.local].ty);
        let mut projs: Vec<J> = vec![];
        for elem in p.projection.iter() {
            match elem {
                ProjectionElem::Deref => projs.push(s("*")),
                ProjectionElem::Field(f, fty) => {
                    let name = self.field_name(pty, f.index());
                    projs.push(J::Obj(vec![
                        ("f", J::Int(f.index() as i128)),
                        ("n", s(name)),
                        ("t", self.ty(fty)),
                    ]));
                }
                ProjectionElem::Downcast(name, v) => {
                    let n = match name {
                        Some(n) => n.to_string(),
                        None => match *pty.ty.kind() {
                            ty::Adt(def, _) => def.variant(v).name.to_string(),
                            _ => format!("{}", v.index()),
                        },
                    };
                    projs.push(J::Obj(vec![("d", J::Int(v.index() as i128)), ("n", s(n))]));
                }
                ProjectionElem::Index(l) => {
                    projs.push(J::Obj(vec![("i", J::Int(l.index() as i128))]));
                }
                ProjectionElem::ConstantIndex { offset, from_end, .. } => {
                    projs.push(J::Obj(vec![
                        ("ci", J::Int(offset as i128)),
                        ("from_end", J::Bool(from_end)),
                    ]));
                }
                ProjectionElem::Subslice { .. } => projs.push(s("subslice")),
                ProjectionElem::OpaqueCast(_) => projs.push(s("opaque")),
                ProjectionElem::UnwrapUnsafeBinder(_) => projs.push(s("unwrap_binder")),
            }
            pty = pty.projection_ty(tcx, elem);
        }
        J::Obj(vec![
            ("l", J::Int(p.local.index() as i128)),
            ("p", J::Arr(projs)),
            ("t", self.ty(pty.ty)),
        ])
    }

    fn constant(&mut self, owner: DefId, c: &Const<'tcx>) -> J {
        let tcx = self.tcx;
        let ty = c.ty();
        let mut o: Vec<(&'static str, J)> = vec![("ty", self.ty(ty)), ("s", s(format!("{}", c)))];
        if let ty::FnDef(did, args) = *ty.kind() {
            o.push(("fn", self.callee(owner, did, args)));
        }
        if let Const::Unevaluated(uv, _) = c {
            o.push(("const_def", s(self.key(uv.def))));
            o.push(("const_path", s(self.path(uv.def))));
            if let Some(p) = uv.promoted {
                o.push(("promoted", J::Int(p.index() as i128)));
            }
        }
        let typing_env = TypingEnv::post_analysis(tcx, owner);
        let is_scalar = matches!(ty.kind(), ty::Bool | ty::Char | ty::Int(_) | ty::Uint(_));
        if is_scalar {
            if let Some(si) = c.try_eval_scalar_int(tcx, typing_env) {
                let size = si.size();
                let v: i128 = match ty.kind() {
                    ty::Int(_) => si.to_int(size),
                    _ => si.to_uint(size) as i128,
                };
                // u128 values above i128::MAX do not occur in this code base
                o.push(("v", J::Int(v)));
            }
        }
        J::Obj(o)
    }

    fn operand(&mut self, body: &Body<'tcx>, owner: DefId, op: &Operand<'tcx>) -> J {
        match op {
            Operand::Copy(p) => J::Obj(vec![("c", self.place(body, *p))]),
            Operand::Move(p) => J::Obj(vec![("m", self.place(body, *p))]),
            Operand::Constant(c) => J::Obj(vec![("k", self.constant(owner, &c.const_))]),
            #[allow(unreachable_patterns)]
            _ => J::Obj(vec![("other", s(format!("{:?}", op)))]),
        }
    }

    fn callee(&mut self, owner: DefId, did: DefId, args: ty::GenericArgsRef<'tcx>) -> J {
        let tcx = self.tcx;
        let mut o: Vec<(&'static str, J)> = vec![
            ("key", s(self.key(did))),
            ("path", s(self.path(did))),
            ("full", s(tcx.def_path_str_with_args(did, args))),
            ("name", s(tcx.item_name(did).to_string())),
            ("local", J::Bool(did.is_local())),
        ];
        let targs: Vec<J> = args.types().map(|a| self.ty(a)).collect();
        o.push(("args", J::Arr(targs)));
        // trait method?
        if let Some(assoc) = tcx.opt_associated_item(did) {
            let container = tcx.parent(did);
            match tcx.def_kind(container) {
                DefKind::Trait => {
                    o.push(("trait", s(self.path(container))));
                    if let Some(st) = args.types().next() {
                        o.push(("self_ty", self.ty(st)));
                    }
                }
                DefKind::Impl { of_trait } => {
                    if of_trait {
                        let tr = tcx.impl_trait_ref(container);
                        o.push(("impl_trait", s(self.path(tr.skip_binder().def_id))));
                    }
                    let st = tcx.type_of(container).instantiate(tcx, args).skip_norm_wip();
                    o.push(("self_ty", self.ty(st)));
                }
                _ => {}
            }
        }
        // resolution
        let typing_env = TypingEnv::post_analysis(tcx, owner);
        match Instance::try_resolve(tcx, typing_env, did, args) {
            Ok(Some(inst)) => {
                let rdid = inst.def_id();
                let mut r: Vec<(&'static str, J)> = vec![
                    ("key", s(self.key(rdid))),
                    ("path", s(self.path(rdid))),
                    ("local", J::Bool(rdid.is_local())),
                    ("kind", s(instance_kind(&inst))),
                ];
                if let ty::InstanceKind::DropGlue(_, Some(t)) = inst.def {
                    r.push(("drop_ty", self.ty(t)));
                }
                o.push(("resolved", J::Obj(r)));
            }
            Ok(None) => o.push(("resolved", J::Null)),
            Err(_) => o.push(("resolved", s("error"))),
        }
        J::Obj(o)
    }

    fn rvalue(&mut self, body: &Body<'tcx>, owner: DefId, rv: &Rvalue<'tcx>) -> J {
        let tcx = self.tcx;
        match rv {
            Rvalue::Use(op, ..) => J::Obj(vec![("r", s("use")), ("o", self.operand(body, owner, op))]),
            Rvalue::Repeat(op, _) => {
                J::Obj(vec![("r", s("repeat")), ("o", self.operand(body, owner, op))])
            }
            Rvalue::Ref(_, bk, p) => J::Obj(vec![
                ("r", s("ref")),
                ("mut", J::Bool(matches!(bk, BorrowKind::Mut { .. }))),
                ("pl", self.place(body, *p)),
            ]),
            Rvalue::RawPtr(_, p) => J::Obj(vec![("r", s("rawptr")), ("pl", self.place(body, *p))]),
            Rvalue::ThreadLocalRef(d) => J::Obj(vec![("r", s("tlref")), ("def", s(self.key(*d)))]),
            Rvalue::Cast(kind, op, t) => J::Obj(vec![
                ("r", s("cast")),
                ("kind", s(format!("{:?}", kind))),
                ("o", self.operand(body, owner, op)),
                ("ty", self.ty(*t)),
            ]),
            Rvalue::BinaryOp(op, ab) => J::Obj(vec![
                ("r", s("bin")),
                ("op", s(format!("{:?}", op))),
                ("a", self.operand(body, owner, &ab.0)),
                ("b", self.operand(body, owner, &ab.1)),
            ]),
            Rvalue::UnaryOp(op, a) => J::Obj(vec![
                ("r", s("un")),
                ("op", s(format!("{:?}", op))),
                ("a", self.operand(body, owner, a)),
            ]),
            Rvalue::Discriminant(p) => {
                J::Obj(vec![("r", s("discr")), ("pl", self.place(body, *p))])
            }
            Rvalue::Aggregate(kind, fields) => {
                let mut o: Vec<(&'static str, J)> = vec![("r", s("agg"))];
                match &**kind {
                    AggregateKind::Array(_) => o.push(("kind", s("array"))),
                    AggregateKind::Tuple => o.push(("kind", s("tuple"))),
                    AggregateKind::Adt(did, vidx, _, _, active) => {
                        o.push(("kind", s("adt")));
                        o.push(("adt", s(self.path(*did))));
                        let def = tcx.adt_def(*did);
                        let variant = def.variant(*vidx);
                        o.push(("variant", s(variant.name.to_string())));
                        o.push(("variant_idx", J::Int(vidx.index() as i128)));
                        let names: Vec<J> =
                            variant.fields.iter().map(|f| s(f.name.to_string())).collect();
                        o.push(("field_names", J::Arr(names)));
                    }
                    AggregateKind::Closure(did, _) => {
                        o.push(("kind", s("closure")));
                        o.push(("def", s(self.key(*did))));
                    }
                    AggregateKind::Coroutine(did, _) => {
                        o.push(("kind", s("coroutine")));
                        o.push(("def", s(self.key(*did))));
                    }
                    AggregateKind::CoroutineClosure(did, _) => {
                        o.push(("kind", s("coroutine_closure")));
                        o.push(("def", s(self.key(*did))));
                    }
                    AggregateKind::RawPtr(..) => o.push(("kind", s("rawptr"))),
                }
                let f: Vec<J> = fields.iter().map(|x| self.operand(body, owner, x)).collect();
                o.push(("fields", J::Arr(f)));
                J::Obj(o)
            }
            Rvalue::CopyForDeref(p) => J::Obj(vec![
                ("r", s("use")),
                ("o", J::Obj(vec![("c", self.place(body, *p))])),
                ("copy_for_deref", J::Bool(true)),
            ]),
            Rvalue::WrapUnsafeBinder(op, _) => {
                J::Obj(vec![("r", s("wrap_binder")), ("o", self.operand(body, owner, op))])
            }
            #[allow(unreachable_patterns)]
            other => J::Obj(vec![("r", s("other")), ("s", s(format!("{:?}", other)))]),
        }
    }

    fn unwind(&self, u: &UnwindAction) -> J {
        match u {
            UnwindAction::Cleanup(bb) => J::Int(bb.index() as i128),
            UnwindAction::Continue => s("continue"),
            UnwindAction::Unreachable => s("unreachable"),
            UnwindAction::Terminate(_) => s("terminate"),
        }
    }

    // -------------------------------------------------------------------------------------
    // bodies
    // -------------------------------------------------------------------------------------
    fn body(&mut self, ldid: LocalDefId) -> Option<J> {
        let tcx = self.tcx;
        let did = ldid.to_def_id();
        let kind = tcx.def_kind(did);
        let is_fn_like = matches!(
            kind,
            DefKind::Fn | DefKind::AssocFn | DefKind::Closure | DefKind::SyntheticCoroutineBody
        );
        if !is_fn_like {
            return None;
        }
        if !tcx.is_mir_available(did) {
            return None;
        }
        let body: &Body<'tcx> = tcx.optimized_mir(did);
        let mut o: Vec<(&'static str, J)> = vec![
            ("key", s(self.key(did))),
            ("path", s(self.path(did))),
            ("kind", s(format!("{:?}", kind))),
            ("span", self.span(body.span)),
            ("arg_count", J::Int(body.arg_count as i128)),
        ];
        if matches!(kind, DefKind::Fn | DefKind::AssocFn) {
            o.push(("name", s(tcx.item_name(did).to_string())));
            o.push(("vis", s(format!("{:?}", tcx.visibility(did)))));
            let sig = tcx.fn_sig(did).skip_binder();
            o.push(("unsafe", J::Bool(!sig.safety().is_safe())));
        }
        if tcx.is_coroutine(did) {
            o.push(("coroutine", J::Bool(true)));
        }
        // parent chain: nearest fn-like ancestor (for closures) and the enclosing impl
        let typeck_root = tcx.typeck_root_def_id(did);
        if typeck_root != did {
            o.push(("root", s(self.key(typeck_root))));
            o.push(("parent", s(self.key(tcx.parent(did)))));
        }
        let container = tcx.parent(typeck_root);
        match tcx.def_kind(container) {
            DefKind::Impl { of_trait } => {
                o.push(("impl", s(self.key(container))));
                if of_trait {
                    let tr = tcx.impl_trait_ref(container);
                    o.push(("impl_trait", s(self.path(tr.skip_binder().def_id))));
                }
                let st = tcx.type_of(container).instantiate_identity().skip_norm_wip();
                o.push(("impl_self", self.ty(st)));
            }
            DefKind::Trait => {
                o.push(("in_trait", s(self.path(container))));
            }
            _ => {}
        }
        // closure captures
        if matches!(kind, DefKind::Closure) {
            let caps: Vec<J> = tcx
                .closure_captures(ldid)
                .iter()
                .map(|c| {
                    J::Obj(vec![
                        ("name", s(c.to_symbol().to_string())),
                        ("by", s(format!("{:?}", c.info.capture_kind))),
                    ])
                })
                .collect();
            o.push(("captures", J::Arr(caps)));
        }
        // locals
        let mut locals: Vec<J> = vec![];
        for (l, decl) in body.local_decls.iter_enumerated() {
            locals.push(J::Obj(vec![
                ("ty", self.ty(decl.ty)),
                ("mut", J::Bool(decl.mutability.is_mut())),
            ]));
        }
        o.push(("locals", J::Arr(locals)));
        // debug info
        let mut dbg: Vec<J> = vec![];
        for v in body.var_debug_info.iter() {
            let mut d: Vec<(&'static str, J)> = vec![("name", s(v.name.to_string()))];
            match &v.value {
                VarDebugInfoContents::Place(p) => d.push(("pl", self.place(body, *p))),
                VarDebugInfoContents::Const(c) => d.push(("k", self.constant(did, &c.const_))),
            }
            if let Some(a) = v.argument_index {
                d.push(("arg", J::Int(a as i128)));
            }
            dbg.push(J::Obj(d));
        }
        o.push(("debug", J::Arr(dbg)));
        // blocks
        let mut blocks: Vec<J> = vec![];
        for (bb, data) in body.basic_blocks.iter_enumerated() {
            let mut stmts: Vec<J> = vec![];
            for st in data.statements.iter() {
                match &st.kind {
                    StatementKind::Assign(b) => {
                        let (pl, rv) = &**b;
                        stmts.push(J::Obj(vec![
                            ("s", s("assign")),
                            ("pl", self.place(body, *pl)),
                            ("rv", self.rvalue(body, did, rv)),
                            ("sp", self.span_short(st.source_info.span)),
                        ]));
                    }
                    StatementKind::SetDiscriminant { place, variant_index } => {
                        let pty = place.ty(&body.local_decls, tcx).ty;
                        let vn = match *pty.kind() {
                            ty::Adt(def, _) => def.variant(*variant_index).name.to_string(),
                            _ => format!("{}", variant_index.index()),
                        };
                        stmts.push(J::Obj(vec![
                            ("s", s("setdiscr")),
                            ("pl", self.place(body, **place)),
                            ("variant", s(vn)),
                            ("sp", self.span_short(st.source_info.span)),
                        ]));
                    }
                    StatementKind::Intrinsic(i) => {
                        stmts.push(J::Obj(vec![
                            ("s", s("intrinsic")),
                            ("d", s(format!("{:?}", i))),
                            ("sp", self.span_short(st.source_info.span)),
                        ]));
                    }
                    _ => {}
                }
            }
            let term = data.terminator();
            let mut t: Vec<(&'static str, J)> = vec![];
            match &term.kind {
                TerminatorKind::Goto { target } => {
                    t.push(("t", s("goto")));
                    t.push(("to", J::Int(target.index() as i128)));
                }
                TerminatorKind::SwitchInt { discr, targets } => {
                    t.push(("t", s("switch")));
                    t.push(("on", self.operand(body, did, discr)));
                    let tv: Vec<J> = targets
                        .iter()
                        .map(|(v, bb)| J::Arr(vec![J::Int(v as i128), J::Int(bb.index() as i128)]))
                        .collect();
                    t.push(("targets", J::Arr(tv)));
                    t.push(("otherwise", J::Int(targets.otherwise().index() as i128)));
                }
                TerminatorKind::UnwindResume => t.push(("t", s("resume"))),
                TerminatorKind::UnwindTerminate(_) => t.push(("t", s("terminate"))),
                TerminatorKind::Return => t.push(("t", s("return"))),
                TerminatorKind::Unreachable => t.push(("t", s("unreachable"))),
                TerminatorKind::Drop { place, target, unwind, replace, .. } => {
                    t.push(("t", s("drop")));
                    t.push(("pl", self.place(body, *place)));
                    let pty = place.ty(&body.local_decls, tcx).ty;
                    t.push(("ty", self.ty(pty)));
                    t.push(("to", J::Int(target.index() as i128)));
                    t.push(("unwind", self.unwind(unwind)));
                    t.push(("replace", J::Bool(*replace)));
                }
                TerminatorKind::Call { func, args, destination, target, unwind, fn_span, .. } => {
                    t.push(("t", s("call")));
                    let fty = func.ty(&body.local_decls, tcx);
                    if let ty::FnDef(cdid, cargs) = *fty.kind() {
                        t.push(("f", self.callee(did, cdid, cargs)));
                    } else {
                        t.push(("indirect", self.operand(body, did, func)));
                        t.push(("indirect_ty", self.ty(fty)));
                    }
                    let a: Vec<J> = args.iter().map(|x| self.operand(body, did, &x.node)).collect();
                    t.push(("args", J::Arr(a)));
                    t.push(("dest", self.place(body, *destination)));
                    t.push((
                        "to",
                        match target {
                            Some(bb) => J::Int(bb.index() as i128),
                            None => J::Null,
                        },
                    ));
                    t.push(("unwind", self.unwind(unwind)));
                }
                TerminatorKind::TailCall { func, args, .. } => {
                    t.push(("t", s("tailcall")));
                }
                TerminatorKind::Assert { cond, expected, msg, target, unwind } => {
                    t.push(("t", s("assert")));
                    t.push(("cond", self.operand(body, did, cond)));
                    t.push(("expected", J::Bool(*expected)));
                    t.push(("msg", s(format!("{:?}", msg))));
                    t.push(("to", J::Int(target.index() as i128)));
                    t.push(("unwind", self.unwind(unwind)));
                }
                TerminatorKind::Yield { value, resume, drop, .. } => {
                    t.push(("t", s("yield")));
                    t.push(("to", J::Int(resume.index() as i128)));
                    t.push((
                        "drop",
                        match drop {
                            Some(bb) => J::Int(bb.index() as i128),
                            None => J::Null,
                        },
                    ));
                }
                TerminatorKind::CoroutineDrop => t.push(("t", s("coroutine_drop"))),
                TerminatorKind::FalseEdge { real_target, .. } => {
                    t.push(("t", s("goto")));
                    t.push(("to", J::Int(real_target.index() as i128)));
                }
                TerminatorKind::FalseUnwind { real_target, .. } => {
                    t.push(("t", s("goto")));
                    t.push(("to", J::Int(real_target.index() as i128)));
                }
                TerminatorKind::InlineAsm { .. } => t.push(("t", s("asm"))),
            }
            t.push(("sp", self.span_short(term.source_info.span)));
            blocks.push(J::Obj(vec![
                ("cleanup", J::Bool(data.is_cleanup)),
                ("st", J::Arr(stmts)),
                ("term", J::Obj(t)),
            ]));
        }
        o.push(("blocks", J::Arr(blocks)));
        Some(J::Obj(o))
    }

    /// Promoted constants of a function (`&Enum::Variant`, `&CONST`): a summary of what each one refers to, when it is
    /// a field-less enum variant (`_0 = &_1; _1 = Enum::Variant`).
    fn promoted(&mut self, ldid: LocalDefId) -> Vec<J> {
        let tcx = self.tcx;
        let did = ldid.to_def_id();
        let kind = tcx.def_kind(did);
        let mut out = vec![];
        if !matches!(kind, DefKind::Fn | DefKind::AssocFn | DefKind::Closure) || !tcx.is_mir_available(did) {
            return out;
        }
        let proms = tcx.promoted_mir(did);
        for (idx, pb) in proms.iter_enumerated() {
            for data in pb.basic_blocks.iter() {
                for st in data.statements.iter() {
                    if let StatementKind::Assign(b) = &st.kind {
                        let (_pl, rv) = &**b;
                        if let Rvalue::Aggregate(ak, ops) = rv {
                            if let AggregateKind::Adt(adid, vidx, _, _, _) = **ak {
                                if ops.is_empty() {
                                    let adt = tcx.adt_def(adid);
                                    if adt.is_enum() {
                                        let v = adt.variant(vidx);
                                        out.push(J::Obj(vec![
                                            ("owner", s(self.key(did))),
                                            ("idx", J::Int(idx.index() as i128)),
                                            ("adt", s(self.path(adid))),
                                            ("variant", s(v.name.to_string())),
                                            ("variant_idx", J::Int(vidx.index() as i128)),
                                        ]));
                                    }
                                }
                            }
                        }
                    }
                }
            }
        }
        out
    }

    // -------------------------------------------------------------------------------------
    // ADTs, impls, consts
    // -------------------------------------------------------------------------------------
    fn adt(&mut self, ldid: LocalDefId) -> J {
        let tcx = self.tcx;
        let did = ldid.to_def_id();
        let def = tcx.adt_def(did);
        let mut variants: Vec<J> = vec![];
        for (vidx, v) in def.variants().iter_enumerated() {
            let mut fields: Vec<J> = vec![];
            for f in v.fields.iter() {
                let fty = tcx.type_of(f.did).instantiate_identity().skip_norm_wip();
                fields.push(J::Obj(vec![
                    ("name", s(f.name.to_string())),
                    ("ty", self.ty(fty)),
                    ("vis", s(format!("{:?}", f.vis))),
                ]));
            }
            let mut vo: Vec<(&'static str, J)> =
                vec![("name", s(v.name.to_string())), ("fields", J::Arr(fields))];
            if def.is_enum() {
                let d = def.discriminant_for_variant(tcx, vidx);
                vo.push(("discr", J::Int(d.val as i128)));
            }
            variants.push(J::Obj(vo));
        }
        J::Obj(vec![
            ("key", s(self.key(did))),
            ("path", s(self.path(did))),
            ("kind", s(format!("{:?}", tcx.def_kind(did)))),
            ("vis", s(format!("{:?}", tcx.visibility(did)))),
            ("has_drop", J::Bool(tcx.adt_destructor(did).is_some())),
            ("span", self.span(tcx.def_span(did))),
            ("variants", J::Arr(variants)),
        ])
    }

    fn impl_(&mut self, ldid: LocalDefId, of_trait: bool) -> J {
        let tcx = self.tcx;
        let did = ldid.to_def_id();
        let st = tcx.type_of(did).instantiate_identity().skip_norm_wip();
        let mut o: Vec<(&'static str, J)> = vec![
            ("key", s(self.key(did))),
            ("self_ty", self.ty(st)),
            ("self_s", s(format!("{}", st))),
            ("span", self.span(tcx.def_span(did))),
        ];
        if of_trait {
            let tr = tcx.impl_trait_ref(did).skip_binder();
            o.push(("trait", s(self.path(tr.def_id))));
            o.push(("negative", J::Bool(matches!(tcx.impl_polarity(did), ty::ImplPolarity::Negative))));
        }
        o.push(("derived", J::Bool(tcx.is_automatically_derived(did))));
        let items: Vec<J> = tcx
            .associated_items(did)
            .in_definition_order()
            .map(|it| {
                J::Obj(vec![
                    ("name", s(it.name().to_string())),
                    ("key", s(self.key(it.def_id))),
                    ("kind", s(format!("{:?}", it.kind))),
                ])
            })
            .collect();
        o.push(("items", J::Arr(items)));
        J::Obj(o)
    }

    fn const_item(&mut self, ldid: LocalDefId) -> J {
        let tcx = self.tcx;
        let did = ldid.to_def_id();
        let ty = tcx.type_of(did).instantiate_identity().skip_norm_wip();
        let mut o: Vec<(&'static str, J)> = vec![
            ("key", s(self.key(did))),
            ("path", s(self.path(did))),
            ("name", s(tcx.item_name(did).to_string())),
            ("ty", self.ty(ty)),
            ("ty_s", s(format!("{}", ty))),
        ];
        let generic = tcx.generics_of(did).requires_monomorphization(tcx);
        if !generic {
            if let Ok(val) = tcx.const_eval_poly(did) {
                if let ConstValue::Scalar(sc) = val {
                    if let Ok(si) = sc.try_to_scalar_int() {
                        let size = si.size();
                        let v: i128 = match ty.kind() {
                            ty::Int(_) => si.to_int(size),
                            _ => si.to_uint(size) as i128,
                        };
                        o.push(("v", J::Int(v)));
                    }
                }
            }
        }
        J::Obj(o)
    }
}

fn instance_kind(inst: &Instance<'_>) -> String {
    let d = format!("{:?}", inst.def);
    match d.find('(') {
        Some(i) => d[..i].to_string(),
        None => d,
    }
}

struct Cb;

impl rustc_driver::Callbacks for Cb {
    fn after_analysis<'tcx>(
        &mut self,
        _compiler: &rustc_interface::interface::Compiler,
        tcx: TyCtxt<'tcx>,
    ) -> Compilation {
        let crate_name = tcx.crate_name(LOCAL_CRATE).to_string();
        let wanted = std::env::var("VERIF_FACTS_CRATES").unwrap_or_else(|_| "calloop".to_string());
        if !wanted.split(',').any(|c| c == crate_name) {
            return Compilation::Continue;
        }
        let out = match std::env::var("VERIF_FACTS_OUT") {
            Ok(o) => o,
            Err(_) => return Compilation::Continue,
        };
        let nonce = std::env::var("VERIF_FACTS_NONCE").unwrap_or_default();
        let mut cx = Cx { tcx, ty_ids: HashMap::new(), ty_tab: vec![] };

        let mut bodies: Vec<J> = vec![];
        let mut promoted: Vec<J> = vec![];
        for ldid in tcx.hir_body_owners() {
            if let Some(b) = cx.body(ldid) {
                bodies.push(b);
                promoted.extend(cx.promoted(ldid));
            }
        }
        let mut adts: Vec<J> = vec![];
        let mut impls: Vec<J> = vec![];
        let mut consts: Vec<J> = vec![];
        for ldid in tcx.hir_crate_items(()).definitions() {
            match tcx.def_kind(ldid) {
                DefKind::Struct | DefKind::Enum | DefKind::Union => adts.push(cx.adt(ldid)),
                DefKind::Impl { of_trait } => impls.push(cx.impl_(ldid, of_trait)),
                DefKind::Const { .. } | DefKind::AssocConst { .. } => consts.push(cx.const_item(ldid)),
                _ => {}
            }
        }
        let features: Vec<J> = std::env::var("VERIF_FACTS_CONFIG")
            .unwrap_or_default()
            .split_whitespace()
            .map(|c| s(c.to_string()))
            .collect();
        let root = J::Obj(vec![
            ("crate", s(crate_name)),
            ("nonce", s(nonce)),
            ("rustc", s(option_env!("CFG_VERSION").unwrap_or("nightly"))),
            ("cfg", J::Arr(features)),
            ("types", J::Arr(std::mem::take(&mut cx.ty_tab))),
            ("bodies", J::Arr(bodies)),
            ("adts", J::Arr(adts)),
            ("impls", J::Arr(impls)),
            ("consts", J::Arr(consts)),
            ("promoted", J::Arr(promoted)),
        ]);
        let mut text = String::new();
        root.write(&mut text);
        // one write per process
        let tmp = format!("{}.tmp.{}", out, std::process::id());
        std::fs::write(&tmp, text).expect("write facts");
        std::fs::rename(&tmp, &out).expect("rename facts");
        Compilation::Continue
    }
}

fn main() {
    let mut args: Vec<String> = std::env::args().collect();
    // RUSTC_WORKSPACE_WRAPPER / RUSTC_WRAPPER: argv[1] is the path of the real rustc
    if args.len() > 1 && (args[1].ends_with("rustc") || args[1].contains("/rustc")) {
        args.remove(1);
    }
    rustc_driver::run_compiler(&args, &mut Cb);
}
