"""Check context: result records, known findings, evidence files, exit protocol."""
import hashlib
import json
import os
import sys
import time

VERIF = os.path.abspath(os.path.join(os.path.dirname(__file__), "..", ".."))
WORK = os.environ.get("VERIF_WORK", os.path.join(VERIF, ".work"))
KNOWN = os.path.join(VERIF, "known_findings.json")

OK, VIOLATION, INFO, UNDECIDED, ANCHOR = "ok", "violation", "info", "undecided", "anchor-missing"


class AnchorMissing(Exception):
    pass


class Check:
    """One run of one property's rule instances over one fact set (one configuration)."""

    def __init__(self, prop, facts, config="full", tier="quick"):
        self.prop = prop
        self.facts = facts
        self.config = config
        self.tier = tier
        self.results = []
        self.notes = []
        self.floors = []
        self._summaries = None
        self._flows = {}

    # ---- feature gates ---------------------------------------------------------------
    def has(self, feature):
        return feature in self.facts.config

    # ---- shared analyses -----------------------------------------------------------------
    def summaries(self):
        if self._summaries is None:
            import flow

            self._summaries = flow.Summaries(self.facts)
        return self._summaries

    def guardflow(self, body):
        if body.key not in self._flows:
            import flow

            self._flows[body.key] = flow.GuardFlow(body)
        return self._flows[body.key]

    # ---- recording -----------------------------------------------------------------------
    def record(self, clause, rule, function, descr, verdict, why, site=None, path=None, nontrivial=True, extra=None):
        fq = function.qual if hasattr(function, "qual") else str(function)
        key = "%s.%s/%s/%s/%s" % (self.prop, clause, rule, fq, descr)
        r = {
            "property": self.prop,
            "clause": clause,
            "rule": rule,
            "function": fq,
            "instance": descr,
            "key": key,
            "verdict": verdict,
            "why": why,
            "config": self.config,
            "nontrivial": bool(nontrivial),
        }
        if site is None and hasattr(function, "where"):
            site = function.where()
        if site:
            r["site"] = site
        if path:
            r["path"] = path
        if extra:
            r["extra"] = extra
        self.results.append(r)
        return r

    def ok(self, clause, rule, function, descr, why, **kw):
        return self.record(clause, rule, function, descr, OK, why, **kw)

    def violation(self, clause, rule, function, descr, why, **kw):
        return self.record(clause, rule, function, descr, VIOLATION, why, **kw)

    def info(self, clause, rule, function, descr, why, **kw):
        kw.setdefault("nontrivial", False)
        return self.record(clause, rule, function, descr, INFO, why, **kw)

    def undecided(self, clause, rule, function, descr, why, **kw):
        return self.record(clause, rule, function, descr, UNDECIDED, why, **kw)

    def anchor_missing(self, clause, rule, what, why=""):
        return self.record(clause, rule, "<crate>", what, ANCHOR, why or ("anchor not found: " + what), site="")

    def verdict(self, cond, clause, rule, function, descr, why_ok, why_bad, **kw):
        if cond:
            return self.ok(clause, rule, function, descr, why_ok, **kw)
        return self.violation(clause, rule, function, descr, why_bad, **kw)

    def floor(self, clause, what, found, minimum):
        """fail closed when fewer rule instances were found than were confirmed by reading"""
        self.floors.append({"clause": clause, "what": what, "found": found, "floor": minimum})
        if found < minimum:
            self.anchor_missing(clause, "floor", "%s: %d < %d" % (what, found, minimum), "instance count fell below the floor confirmed by reading (%s: found %d, floor %d)" % (what, found, minimum))

    # ---- anchors ---------------------------------------------------------------------------
    def body(self, clause, qual, rule="anchor"):
        b = self.facts.body(qual)
        if b is None:
            n = len(self.facts.by_qual.get(qual, []))
            self.anchor_missing(clause, rule, qual, "expected exactly one body named %s, found %d" % (qual, n))
            raise AnchorMissing(qual)
        return b

    def opt_body(self, qual):
        return self.facts.body(qual)

    def body_by_path(self, path):
        """lookup by rustc's def_path_str (needed where two types share a short name)"""
        l = [b for b in self.facts.bodies.values() if b.path == path]
        return l[0] if len(l) == 1 else None


def path_descr(body, blocks, limit=14):
    """human readable rendering of a block path: only blocks ending in calls/switches outside
    tracing macros"""
    out = []
    for bb in blocks:
        t = body.blocks[bb]["term"]
        if t["sp"][1] in ("trace", "warn", "debug", "info", "error", "event"):
            continue
        if t["t"] == "call":
            cs = body.call_at(bb)
            out.append("bb%d:%s@L%d" % (bb, cs.describe(), t["sp"][0]))
        elif t["t"] == "switch":
            out.append("bb%d:switch@L%d" % (bb, t["sp"][0]))
        elif t["t"] == "return":
            out.append("bb%d:return" % bb)
        elif t["t"] == "drop":
            out.append("bb%d:drop(%s)" % (bb, body.facts.short_ty(t["ty"])))
    if len(out) > limit:
        out = out[: limit // 2] + ["..."] + out[-limit // 2 :]
    return out


# ------------------------------------------------------------------------------------------
# finishing a run
# ------------------------------------------------------------------------------------------


def load_known():
    if not os.path.exists(KNOWN):
        return []
    return json.load(open(KNOWN)).get("findings", [])


def finish(prop, tier, checks, level, t0, seed, extra_cov=None, assumptions=None, not_decided=None, trusted=None, explanation="", evidence_dir=None):
    """checks: list of Check (one per configuration). Writes evidence, prints the verdict lines,
    returns the exit code."""
    known = [k for k in load_known() if k.get("property") == prop and k.get("status") == "open"]
    known_keys = {k["key"]: k for k in known}
    allr = []
    for c in checks:
        allr.extend(c.results)
    viol = [r for r in allr if r["verdict"] in (VIOLATION, ANCHOR)]
    # cross-configuration agreement (thorough): same key, different verdicts
    by_key = {}
    for r in allr:
        by_key.setdefault(r["key"], set()).add(r["verdict"])
    disagree = [k for k, v in by_key.items() if len(v - {INFO}) > 1]
    new = []
    printed_known = set()
    seen_keys = set()
    for r in viol:
        if r["key"] in seen_keys:
            continue
        seen_keys.add(r["key"])
        if r["key"] in known_keys:
            if r["key"] not in printed_known:
                print("KNOWN-FINDING: property=%s %s [%s]" % (prop, known_keys[r["key"]]["what"], r["key"]))
                printed_known.add(r["key"])
        else:
            new.append(r)
    for k in disagree:
        r = {"property": prop, "key": k + "/cross-config", "verdict": VIOLATION, "rule": "cross-config", "why": "verdict differs between feature configurations: %s" % sorted(by_key[k]), "function": "", "instance": k}
        new.append(r)
    rc = 0
    replay_dir = os.path.join(WORK, "replay")
    os.makedirs(replay_dir, exist_ok=True)
    for r in new:
        h = hashlib.sha1(r["key"].encode()).hexdigest()[:10]
        rp = os.path.join(replay_dir, "%s-%s.json" % (prop, h))
        rr = dict(r)
        rr["replay_cmd"] = "cd /verif && ./check %s --tier %s --only %s" % (prop, tier, json.dumps(r["key"]))
        json.dump(rr, open(rp, "w"), indent=1)
        print("VIOLATION property=%s replay=%s" % (prop, rp))
        print("  rule=%s function=%s instance=%s" % (r.get("rule"), r.get("function"), r.get("instance")))
        print("  site=%s" % r.get("site", ""))
        print("  why=%s" % r.get("why"))
        if r.get("path"):
            print("  path=%s" % " > ".join(r["path"]))
        rc = 1
    evaluated = [r for r in allr if r["verdict"] in (OK, VIOLATION, UNDECIDED)]
    triples = {(r["rule"], r["function"], r["instance"]) for r in evaluated if r["nontrivial"]}
    samples = []
    for r in allr:
        if r["verdict"] in (OK, VIOLATION, UNDECIDED, ANCHOR):
            samples.append({k: r[k] for k in ("key", "verdict", "why", "site", "path", "config") if k in r})
    infos = [{k: r[k] for k in ("key", "why", "site") if k in r} for r in allr if r["verdict"] == INFO]
    cov = {
        "evaluations": len(evaluated),
        "distinct_nontrivial": len(triples),
        "rule": "one evaluation = one rule instance (template x function x site) decided on the MIR of /repo's current tree; non-trivial = the evaluation inspected at least one CFG path, dominance relation, value-flow chain or layout fact (pure enumeration records are not counted); distinct = distinct (rule, function, instance) triples",
        "samples": samples,
        "explanation": explanation,
        "configurations": [{"name": c.config, "features": c.facts.config, "bodies": len(c.facts.bodies), "adts": len(c.facts.adts), "impls": len(c.facts.impls)} for c in checks],
        "floors": [f for c in checks for f in c.floors],
        "undecided": len([r for r in allr if r["verdict"] == UNDECIDED]),
        "informational": infos[:60],
        "known_findings_matched": sorted(printed_known),
        "renames_normalised": sorted({r for c in checks for r in getattr(c.facts, "renames", [])}),
        "normalisations": {c.config: {"combinator closures expanded": len(getattr(c.facts, "expanded_closures", {})), "edges threaded": sum(getattr(c.facts, "threaded", {}).values()), "helpers inlined": len(getattr(c.facts, "inlined", []))} for c in checks},
        "not_decided": not_decided or [],
        "not_analysed": ["cfg(windows) code", "sources/ping/pipe.rs and iocp.rs (not built on this Linux host)", "cfg(test) modules", "feature nightly_coverage", "32- and 16-bit targets"],
    }
    if extra_cov:
        cov.update(extra_cov)
    ev = {
        "property_id": prop,
        "tier": tier,
        "seed": seed,
        "level": level,
        "coverage": cov,
        "assumptions": assumptions or [],
        "wall_s": round(time.time() - t0, 3),
        "violations": len(new),
    }
    evidence_dir = evidence_dir or os.path.join(VERIF, "evidence")
    os.makedirs(evidence_dir, exist_ok=True)
    with open(os.path.join(evidence_dir, "%s.json" % prop), "w") as f:
        json.dump(ev, f, indent=1)
    nok = len([r for r in allr if r["verdict"] == OK])
    print("%s [%s]: %d rule instances evaluated (%d ok, %d violations of which %d known, %d undecided, %d informational), %d distinct non-trivial; %.1fs" % (prop, tier, len(evaluated), nok, len(viol), len(printed_known), cov["undecided"], len(infos), len(triples), time.time() - t0))
    return rc
