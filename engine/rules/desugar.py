"""Desugaring of Option / Result combinators whose closure is written at the call site.

    x.map(|v| f(v))            ==   match x { Some(v) => Some(f(v)), None => None }
    r.map_err(|e| g(e))        ==   match r { Ok(v) => Ok(v), Err(e) => Err(g(e)) }
    o.filter(p).unwrap_or_else(|| panic!())  ...

The two spellings are interchangeable in the source, so the rules must give the same verdict on
both. Instead of teaching every rule both spellings, the combinator call is replaced in the MIR
facts by what the standard library documents it to do: a switch on the discriminant, the closure
body inlined on the arm that runs it, and the result (re)wrapped. Combinators without a closure
that only select (`unwrap_or(v)`, `ok()`, `err()`) are expanded the same way. Calls whose function
argument is not a closure literal of the same body (a fn item, a tuple-struct constructor, a
closure held in a variable) are left alone.

`it.for_each(|x| body)` with a closure literal is expanded into the loop a `for x in it { body }` lowers to
(`Iterator::next`, a switch on the discriminant, the body on the Some arm, the back edge): `_desugar_for_each`.

The expansion follows the documented semantics of core::option / core::result; the dropped
payloads of the arms that discard a value (`filter` -> None, `ok()` on Err, ..) get no drop
terminator (the only thing lost is a drop site of a value that holds no guard of calloop)."""
import copy

OPT = "std::option::Option"
RES = "std::result::Result"

# name -> (arity of closure call, ...) handled below
OPTION_COMBINATORS = {"map", "and_then", "filter", "unwrap_or_else", "or_else", "ok_or_else", "map_or", "unwrap_or", "is_some_and", "ok_or", "inspect"}
RESULT_COMBINATORS = {"map", "map_err", "and_then", "or_else", "unwrap_or_else", "ok", "err", "unwrap_or", "is_ok_and", "is_err_and", "inspect_err", "inspect", "map_or"}


class _Ctx:
    def __init__(self, body, by_key, types):
        self.body = body
        self.by_key = by_key
        self.types = types
        self.blocks = body["blocks"]
        self.isize = next((i for i, t in enumerate(types) if t["s"] == "isize"), 0)
        self.boolt = next((i for i, t in enumerate(types) if t["s"] == "bool"), 0)

    def new_local(self, ty):
        self.body["locals"].append({"ty": ty, "mut": True, "synthetic": True})
        return len(self.body["locals"]) - 1

    def new_block(self, st, term):
        self.blocks.append({"cleanup": False, "st": st, "term": term})
        return len(self.blocks) - 1


def _pl(l, ty, proj=None):
    return {"l": l, "p": list(proj or []), "t": ty}


def _assign(pl, rv, sp):
    return {"s": "assign", "pl": pl, "rv": rv, "sp": sp}


def _use(op):
    return {"r": "use", "o": op}


def _agg(adt, variant, idx, fields):
    return {"r": "agg", "kind": "adt", "adt": adt, "variant": variant, "variant_idx": idx, "field_names": ["0"] if fields else [], "fields": fields}


def _closure_def(body, op):
    """(closure body key, local holding the closure) if operand is a closure literal built in this body"""
    pl = op.get("m") or op.get("c")
    if pl is None or pl["p"]:
        return None
    l = pl["l"]
    defs = []
    for blk in body["blocks"]:
        for st in blk["st"]:
            if st["s"] == "assign" and st["pl"]["l"] == l:
                defs.append(st)
        t = blk["term"]
        if t["t"] == "call" and t["dest"]["l"] == l:
            defs.append(t)
    if len(defs) != 1 or defs[0].get("s") != "assign" or defs[0]["pl"]["p"]:
        return None
    rv = defs[0]["rv"]
    if rv["r"] != "agg" or rv.get("kind") != "closure":
        return None
    return rv["def"], l


def _variants(adt):
    return (("None", 0), ("Some", 1)) if adt == OPT else (("Ok", 0), ("Err", 1))


def _inline_closure(cx, cdef, clocal, arg_ops, ret_to, sp):
    """appends a copy of the closure body; returns (entry block, local holding the result).
    arg_ops: operands bound to the closure's parameters _2.. ; every `return` jumps to ret_to"""
    import inline

    callee = cx.by_key.get(cdef)
    if callee is None or len(callee["blocks"]) > 400:
        return None
    body = cx.body
    lo = len(body["locals"])
    bo = len(cx.blocks)
    cal = copy.deepcopy(callee)
    body["locals"].extend(cal["locals"])
    for d in cal.get("debug", []):
        if "pl" in d:
            inline._map_place(d["pl"], lo)
        d2 = dict(d)
        d2.pop("arg", None)
        body.setdefault("debug", []).append(d2)
    for blk in cal["blocks"]:
        inline._walk(blk["st"], lo)
        t = blk["term"]
        for k in ("on", "pl", "args", "dest", "cond", "indirect"):
            if k in t:
                inline._walk(t[k], lo)
        inline._shift_term_blocks(t, bo)
        if t["t"] == "return":
            blk["term"] = {"t": "goto", "to": ret_to, "sp": t["sp"], "closure_return": True}
        elif t["t"] == "resume":
            blk["term"] = {"t": "unreachable", "sp": t["sp"]}
    cx.blocks.extend(cal["blocks"])
    # entry: bind the environment and the parameters
    st = []
    envty = cal["locals"][1]["ty"]
    et = cx.types[envty]
    clty = body["locals"][clocal]["ty"]
    if et.get("k") == "ref":
        st.append(_assign(_pl(lo + 1, envty), {"r": "ref", "mut": bool(et.get("mut")), "pl": _pl(clocal, clty)}, sp))
    else:
        st.append(_assign(_pl(lo + 1, envty), _use({"m": _pl(clocal, clty)}), sp))
    for i, a in enumerate(arg_ops):
        st.append(_assign(_pl(lo + 2 + i, cal["locals"][2 + i]["ty"]), a, sp))
    entry = cx.new_block(st, {"t": "goto", "to": bo, "sp": sp})
    body.setdefault("inlined", []).append(cdef)
    body.setdefault("inlined_closures", []).append(cdef)
    return entry, lo, cal["locals"][0]["ty"]


def _desugar_bool_then(cx, bb, name):
    """b.then(|| v) == if b { Some(v) } else { None };  b.then_some(v) likewise with v already evaluated"""
    blk = cx.blocks[bb]
    t = blk["term"]
    args = t["args"]
    D, cont, sp = t["dest"], t["to"], t["sp"]
    if D["p"] or len(args) != 2:
        return False

    def set_dest(rv):
        return cx.new_block([_assign(copy.deepcopy(D), rv, sp)], {"t": "goto", "to": cont, "sp": sp})

    none = set_dest(_agg(OPT, "None", 0, []))
    if name == "then_some":
        some = set_dest(_agg(OPT, "Some", 1, [args[1]]))
    else:
        closure = _closure_def(cx.body, args[1])
        if closure is None:
            return False
        join = cx.new_block([], {"t": "goto", "to": cont, "sp": sp})
        r = _inline_closure(cx, closure[0], closure[1], [], join, sp)
        if r is None:
            return False
        entry, lo, rty = r
        cx.blocks[join]["st"].append(_assign(copy.deepcopy(D), _agg(OPT, "Some", 1, [{"m": _pl(lo, rty)}]), sp))
        some = entry
    blk["term"] = {"t": "switch", "on": args[0], "targets": [[0, none]], "otherwise": some, "sp": sp, "desugared": name, "desugared_adt": "bool", "desugared_dest": copy.deepcopy(D)}
    return True


def _type_id(cx, s, make):
    """index of the type spelled `s`, appended (synthetic) when the crate never names it"""
    for i, t in enumerate(cx.types):
        if t["s"] == s:
            return i
    cx.types.append(make())
    return len(cx.types) - 1


def _next_loop(cx, bb, it, ity, item, make_body, result_rv, tag):
    """replaces the call at bb by  loop { match Iterator::next(&mut it) { Some(x) => body(x), None => break } };
    make_body(x_operand, back_block) -> entry block of the body (or None); result_rv: what the call's destination gets"""
    blk = cx.blocks[bb]
    t = blk["term"]
    sp, D, cont = t["sp"], t["dest"], t["to"]
    its, items = cx.types[ity], cx.types[item]

    def opt_ty():
        d = {k: items.get(k) for k in ("has_param", "has_dyn", "has_closure", "params")}
        d.update({"s": OPT + "<" + items["s"] + ">", "adts": [OPT] + [a for a in items.get("adts", []) if a != OPT], "k": "adt", "path": OPT, "key": "core::option::Option", "local": False, "args": [item], "synthetic": True})
        return d

    def ref_ty():
        d = {k: its.get(k) for k in ("has_param", "has_dyn", "has_closure", "params", "adts")}
        d.update({"s": "&mut " + its["s"], "k": "ref", "mut": True, "t": ity, "synthetic": True})
        return d

    oty = _type_id(cx, OPT + "<" + items["s"] + ">", opt_ty)
    rty = _type_id(cx, "&mut " + its["s"], ref_ty)
    o = cx.new_local(oty)
    r = cx.new_local(rty)
    d = cx.new_local(cx.isize)
    done = cx.new_block([_assign(copy.deepcopy(D), result_rv, sp)], {"t": "goto", "to": cont, "sp": sp})
    head = cx.new_block([_assign(_pl(r, rty), {"r": "ref", "mut": True, "pl": _pl(it, ity)}, sp)], None)
    back = cx.new_block([], {"t": "goto", "to": head, "sp": sp})
    entry = make_body({"m": _pl(o, item, [{"d": 1, "n": "Some"}, {"f": 0, "n": "0", "t": item}])}, back)
    if entry is None:
        return False
    unreachable = cx.new_block([], {"t": "unreachable", "sp": sp})
    test = cx.new_block(
        [_assign(_pl(d, cx.isize), {"r": "discr", "pl": _pl(o, oty)}, sp)],
        {"t": "switch", "on": {"m": _pl(d, cx.isize)}, "targets": [[0, done], [1, entry]], "otherwise": unreachable, "sp": sp, "desugared": tag, "desugared_adt": OPT, "desugared_dest": _pl(o, oty)},
    )
    nxt = {"t": "call", "f": _next_fn(cx, ity), "args": [{"m": _pl(r, rty)}], "dest": _pl(o, oty), "to": test, "sp": [sp[0], "Desugaring(ForLoop)"] if isinstance(sp, list) and sp else sp}
    if t.get("unwind") is not None:
        nxt["unwind"] = t["unwind"]
    cx.blocks[head]["term"] = nxt
    blk["term"] = {"t": "goto", "to": head, "sp": sp, "desugared": tag}
    return True


def _next_fn(cx, ity):
    return {
        "key": "core::iter::traits::iterator::Iterator::next",
        "path": "std::iter::Iterator::next",
        "full": "<%s as std::iter::Iterator>::next" % cx.types[ity]["s"],
        "name": "next",
        "local": False,
        "args": [ity],
        "trait": "std::iter::Iterator",
        "self_ty": ity,
    }


def _desugar_for_each(cx, bb):
    """it.for_each(|x| body)  ==  loop { match it.next() { Some(x) => body, None => break } }

    `Iterator::for_each` with a closure literal is the documented equivalent of the `for` loop (the default method
    folds over `next()`; the std iterators that override it keep that meaning). The call is replaced by the loop a
    `for` over the same iterator lowers to: `Iterator::next(&mut it)`, a switch on the discriminant, the closure body
    inlined on the Some arm, the back edge."""
    t = cx.blocks[bb]["term"]
    args = t["args"]
    if len(args) != 2 or t["dest"]["p"]:
        return False
    ipl = args[0].get("m")
    if ipl is None or ipl["p"]:
        return False
    closure = _closure_def(cx.body, args[1])
    if closure is None:
        return False
    callee = cx.by_key.get(closure[0])
    if callee is None or callee.get("arg_count") != 2:
        return False
    sp = t["sp"]

    def body(x, back):
        res = _inline_closure(cx, closure[0], closure[1], [_use(x)], back, sp)
        return None if res is None else res[0]

    return _next_loop(cx, bb, ipl["l"], ipl["t"], callee["locals"][2]["ty"], body, {"r": "agg", "kind": "tuple", "fields": []}, "for_each")


def _desugar_try_for_each(cx, bb):
    """it.try_for_each(|x| body) with a closure literal returning Result<(), E>:
         loop { match it.next() { None => break Ok(()), Some(x) => match body(x) { Ok(()) => continue, e => break e } } }
    (the documented short-circuiting of try_for_each)"""
    t = cx.blocks[bb]["term"]
    args = t["args"]
    if len(args) != 2 or t["dest"]["p"]:
        return False
    ipl = args[0].get("m")
    if ipl is None or ipl["p"]:
        return False
    # the receiver is `&mut it` or the iterator by value (Iterator for &mut I): accept a by-value iterator local only
    closure = _closure_def(cx.body, args[1])
    if closure is None:
        return False
    callee = cx.by_key.get(closure[0])
    if callee is None or callee.get("arg_count") != 2:
        return False
    rty = callee["locals"][0]["ty"]
    rt = cx.types[rty]
    if rt.get("path") != RES or len(rt.get("args", [])) < 2 or cx.types[rt["args"][0]]["s"] != "()":
        return False
    it, ity = ipl["l"], ipl["t"]
    if cx.types[ity].get("k") == "ref":
        # `try_for_each` takes `&mut self`: the receiver is `&mut it` for an iterator local of this body
        rdefs = [st for b_ in cx.blocks for st in b_["st"] if st["s"] == "assign" and st["pl"]["l"] == it and not st["pl"]["p"]]
        if len(rdefs) != 1 or rdefs[0]["rv"]["r"] != "ref" or rdefs[0]["rv"]["pl"]["p"]:
            return False
        it, ity = rdefs[0]["rv"]["pl"]["l"], rdefs[0]["rv"]["pl"].get("t")
        if ity is None:
            ity = cx.body["locals"][it]["ty"]
    sp, D, cont = t["sp"], t["dest"], t["to"]
    unit = rt["args"][0]

    def body(x, back):
        chk = cx.new_block([], {"t": "goto", "to": back, "sp": sp})
        res = _inline_closure(cx, closure[0], closure[1], [_use(x)], chk, sp)
        if res is None:
            return None
        entry, lo, _rty = res
        d = cx.new_local(cx.isize)
        leave = cx.new_block([_assign(copy.deepcopy(D), _use({"m": _pl(lo, rty)}), sp)], {"t": "goto", "to": cont, "sp": sp})
        cx.blocks[chk]["st"].append(_assign(_pl(d, cx.isize), {"r": "discr", "pl": _pl(lo, rty)}, sp))
        cx.blocks[chk]["term"] = {"t": "switch", "on": {"m": _pl(d, cx.isize)}, "targets": [[0, back]], "otherwise": leave, "sp": sp, "desugared": "try_for_each", "desugared_adt": RES, "desugared_dest": _pl(lo, rty)}
        return entry

    ok_unit = _agg(RES, "Ok", 0, [{"k": {"ty": unit, "s": "()"}}])
    return _next_loop(cx, bb, it, ity, callee["locals"][2]["ty"], body, ok_unit, "try_for_each")


def _desugar_find_map(cx, bb):
    """it.find_map(|x| body) with a closure literal:
         loop { match it.next() { None => break None, Some(x) => if let Some(y) = body(x) { break Some(y) } } }"""
    t = cx.blocks[bb]["term"]
    args = t["args"]
    if len(args) != 2 or t["dest"]["p"]:
        return False
    ipl = args[0].get("m")
    if ipl is None or ipl["p"]:
        return False
    closure = _closure_def(cx.body, args[1])
    if closure is None:
        return False
    callee = cx.by_key.get(closure[0])
    if callee is None or callee.get("arg_count") != 2:
        return False
    rty = callee["locals"][0]["ty"]
    if cx.types[rty].get("path") != OPT:
        return False
    it, ity = ipl["l"], ipl["t"]
    if cx.types[ity].get("k") == "ref":
        rdefs = [st for b_ in cx.blocks for st in b_["st"] if st["s"] == "assign" and st["pl"]["l"] == it and not st["pl"]["p"]]
        if len(rdefs) != 1 or rdefs[0]["rv"]["r"] != "ref" or rdefs[0]["rv"]["pl"]["p"]:
            return False
        it, ity = rdefs[0]["rv"]["pl"]["l"], rdefs[0]["rv"]["pl"].get("t") or cx.body["locals"][rdefs[0]["rv"]["pl"]["l"]]["ty"]
    sp, D, cont = t["sp"], t["dest"], t["to"]

    def body(x, back):
        chk = cx.new_block([], {"t": "goto", "to": back, "sp": sp})
        res = _inline_closure(cx, closure[0], closure[1], [_use(x)], chk, sp)
        if res is None:
            return None
        entry, lo, _rty = res
        d = cx.new_local(cx.isize)
        leave = cx.new_block([_assign(copy.deepcopy(D), _use({"m": _pl(lo, rty)}), sp)], {"t": "goto", "to": cont, "sp": sp})
        cx.blocks[chk]["st"].append(_assign(_pl(d, cx.isize), {"r": "discr", "pl": _pl(lo, rty)}, sp))
        cx.blocks[chk]["term"] = {"t": "switch", "on": {"m": _pl(d, cx.isize)}, "targets": [[0, back]], "otherwise": leave, "sp": sp, "desugared": "find_map", "desugared_adt": OPT, "desugared_dest": _pl(lo, rty)}
        return entry

    return _next_loop(cx, bb, it, ity, callee["locals"][2]["ty"], body, _agg(OPT, "None", 0, []), "find_map")


def _desugar_extend(cx, bb):
    """v.extend(it)  ==  for x in it { v.push(x) }   for a Vec and an iterator adaptor of std::iter (the documented
    meaning of `Extend for Vec`; the reservation hint is not modelled)"""
    t = cx.blocks[bb]["term"]
    args = t["args"]
    if len(args) != 2 or t["dest"]["p"]:
        return False
    vpl, ipl = args[0].get("m") or args[0].get("c"), args[1].get("m")
    if vpl is None or vpl["p"] or ipl is None or ipl["p"]:
        return False
    vref = cx.types[vpl["t"]]
    if vref.get("k") == "ref" and cx.types[ipl["t"]].get("path") == OPT and cx.types[vref["t"]].get("path") == "std::vec::Vec":
        # v.extend(opt) for an Option: `if let Some(x) = opt { v.push(x) }` (Option's IntoIterator yields at most once)
        sp, D, cont = t["sp"], t["dest"], t["to"]
        vty = vref["t"]
        vt = cx.types[vty]
        item = vt["args"][0]
        unit = next((i for i, x in enumerate(cx.types) if x["s"] == "()"), None)
        if unit is None:
            return False
        done = cx.new_block([_assign(copy.deepcopy(D), {"r": "agg", "kind": "tuple", "fields": []}, sp)], {"t": "goto", "to": cont, "sp": sp})
        u = cx.new_local(unit)
        f = {"key": "alloc::vec::Vec::push", "path": "std::vec::Vec::<T, A>::push", "full": "%s::push" % vt["s"], "name": "push", "local": False, "args": list(vt.get("args", [])), "self_ty": vty}
        call = {"t": "call", "f": f, "args": [copy.deepcopy(args[0]), {"m": _pl(ipl["l"], item, [{"d": 1, "n": "Some"}, {"f": 0, "n": "0", "t": item}])}], "dest": _pl(u, unit), "to": done, "sp": sp}
        if t.get("unwind") is not None:
            call["unwind"] = t["unwind"]
        some = cx.new_block([], call)
        d = cx.new_local(cx.isize)
        unreachable = cx.new_block([], {"t": "unreachable", "sp": sp})
        blk = cx.blocks[bb]
        blk["st"].append(_assign(_pl(d, cx.isize), {"r": "discr", "pl": _pl(ipl["l"], ipl["t"])}, sp))
        blk["term"] = {"t": "switch", "on": {"m": _pl(d, cx.isize)}, "targets": [[0, done], [1, some]], "otherwise": unreachable, "sp": sp, "desugared": "extend", "desugared_adt": OPT, "desugared_dest": copy.deepcopy(D)}
        return True
    if vref.get("k") != "ref" or not cx.types[ipl["t"]]["s"].startswith("std::iter::"):
        return False
    vty = vref["t"]
    vt = cx.types[vty]
    if vt.get("path") != "std::vec::Vec" or not vt.get("args"):
        return False
    item = vt["args"][0]
    sp = t["sp"]
    unit = next((i for i, x in enumerate(cx.types) if x["s"] == "()"), None)
    if unit is None:
        return False

    def body(x, back):
        rb = cx.new_local(vpl["t"])
        u = cx.new_local(unit)
        f = {"key": "alloc::vec::Vec::push", "path": "std::vec::Vec::<T, A>::push", "full": "%s::push" % vt["s"], "name": "push", "local": False, "args": list(vt.get("args", [])), "self_ty": vty}
        call = {"t": "call", "f": f, "args": [{"m": _pl(rb, vpl["t"])}, x], "dest": _pl(u, unit), "to": back, "sp": sp}
        if t.get("unwind") is not None:
            call["unwind"] = t["unwind"]
        return cx.new_block([_assign(_pl(rb, vpl["t"]), {"r": "ref", "mut": True, "pl": _pl(vpl["l"], vty, ["*"])}, sp)], call)

    return _next_loop(cx, bb, ipl["l"], ipl["t"], item, body, {"r": "agg", "kind": "tuple", "fields": []}, "extend")


def _unique_def_call(body, l):
    """the call terminator that is the only definition of local l, else None"""
    found = None
    for _ in range(6):
        # follow `l = move l0` (the temporary a value is moved through on its way into a call)
        ads = [st for blk in body["blocks"] for st in blk["st"] if st["s"] == "assign" and st["pl"]["l"] == l and not st["pl"]["p"]]
        cds = [blk["term"] for blk in body["blocks"] if blk["term"]["t"] == "call" and blk["term"]["dest"]["l"] == l and not blk["term"]["dest"]["p"]]
        if len(ads) == 1 and not cds and ads[0]["rv"]["r"] == "use" and (ads[0]["rv"]["o"].get("m") or {}).get("p") == []:
            l = ads[0]["rv"]["o"]["m"]["l"]
            continue
        # `IntoIterator::into_iter(it)` of something that already is an iterator is the identity (the `for` desugaring)
        if not ads and len(cds) == 1 and (cds[0].get("f") or {}).get("path") == "std::iter::IntoIterator::into_iter" and len(cds[0]["args"]) == 1:
            a = cds[0]["args"][0].get("m")
            if a is not None and not a["p"] and a.get("t") == cds[0]["dest"].get("t"):
                l = a["l"]
                continue
        break
    for blk in body["blocks"]:
        for st in blk["st"]:
            if st["s"] == "assign" and st["pl"]["l"] == l and not st["pl"]["p"]:
                return None
        t = blk["term"]
        if t["t"] == "call" and t["dest"]["l"] == l and not t["dest"]["p"]:
            if found is not None:
                return None
            found = t
    return found


def _desugar_adaptor_next(cx, bb):
    """`Iterator::next` on an adaptor built in this body from a closure literal:
         iter::from_fn(f).next()  ==  f()
         inner.map(g).next()      ==  inner.next().map(g)
    (the definitions of FromFn and Map). The adaptor value only wraps its parts, so the local that was moved into it
    stands for that part."""
    blk = cx.blocks[bb]
    t = blk["term"]
    if len(t["args"]) != 1 or t["dest"]["p"]:
        return False
    rpl = t["args"][0].get("m") or t["args"][0].get("c")
    if rpl is None or rpl["p"]:
        return False
    # the receiver is `&mut it`
    def ref_defs(l_):
        return [st for b_ in cx.blocks for st in b_["st"] if st["s"] == "assign" and st["pl"]["l"] == l_ and not st["pl"]["p"]]

    rdefs = ref_defs(rpl["l"])
    # the `for` desugaring reborrows: `r0 = &mut iter; r = &mut *r0; next(r)`
    for _ in range(3):
        if rdefs and all(st["rv"]["r"] == "ref" and st["rv"]["pl"]["p"] == ["*"] for st in rdefs) and len({st["rv"]["pl"]["l"] for st in rdefs}) == 1:
            rdefs = ref_defs(rdefs[0]["rv"]["pl"]["l"])
        else:
            break
    if not rdefs or any(st["rv"]["r"] != "ref" or st["rv"]["pl"]["p"] for st in rdefs) or len({st["rv"]["pl"]["l"] for st in rdefs}) != 1:
        return False
    it = rdefs[0]["rv"]["pl"]["l"]
    mk = _unique_def_call(cx.body, it)
    if mk is None or not mk.get("f"):
        return False
    sp, D, cont = t["sp"], t["dest"], t["to"]
    path = mk["f"].get("path")
    if path == "std::iter::from_fn" and len(mk["args"]) == 1:
        closure = _closure_def(cx.body, mk["args"][0])
        if closure is None:
            return False
        join = cx.new_block([], {"t": "goto", "to": cont, "sp": sp})
        r = _inline_closure(cx, closure[0], closure[1], [], join, sp)
        if r is None:
            return False
        entry, lo, rty = r
        cx.blocks[join]["st"].append(_assign(copy.deepcopy(D), _use({"m": _pl(lo, rty)}), sp))
        blk["term"] = {"t": "goto", "to": entry, "sp": sp, "desugared": "from_fn.next"}
        return True
    if path in ("std::iter::Iterator::filter_map", "std::iter::Iterator::map_while") and mk["f"].get("trait") == "std::iter::Iterator" and len(mk["args"]) == 2:
        # inner.filter_map(g).next() == loop { match inner.next() { None => break None, Some(x) => if let Some(y) = g(x) { break Some(y) } } }
        # inner.map_while(g).next()  == match inner.next() { None => None, Some(x) => g(x) }
        ipl = mk["args"][0].get("m")
        closure = _closure_def(cx.body, mk["args"][1])
        if ipl is None or ipl["p"] or closure is None:
            return False
        callee = cx.by_key.get(closure[0])
        if callee is None or callee.get("arg_count") != 2:
            return False
        inner_item = callee["locals"][2]["ty"]
        rty_ = callee["locals"][0]["ty"]
        if cx.types[rty_].get("path") != OPT:
            return False
        items, its = cx.types[inner_item], cx.types[ipl["t"]]
        oty = _type_id(cx, OPT + "<" + items["s"] + ">", lambda: dict({k: items.get(k) for k in ("has_param", "has_dyn", "has_closure", "params")}, **{"s": OPT + "<" + items["s"] + ">", "adts": [OPT] + [a for a in items.get("adts", []) if a != OPT], "k": "adt", "path": OPT, "key": "core::option::Option", "local": False, "args": [inner_item], "synthetic": True}))
        rty = _type_id(cx, "&mut " + its["s"], lambda: dict({k: its.get(k) for k in ("has_param", "has_dyn", "has_closure", "params", "adts")}, **{"s": "&mut " + its["s"], "k": "ref", "mut": True, "t": ipl["t"], "synthetic": True}))
        o2 = cx.new_local(oty)
        r2 = cx.new_local(rty)
        d1 = cx.new_local(cx.isize)
        none_blk = cx.new_block([_assign(copy.deepcopy(D), _agg(OPT, "None", 0, []), sp)], {"t": "goto", "to": cont, "sp": sp})
        head = bb  # the block of the original `next` call becomes the head (it stays the header of an enclosing `for` loop)
        after = cx.new_block([], {"t": "goto", "to": cont, "sp": sp})  # filled below
        res = _inline_closure(cx, closure[0], closure[1], [_use({"m": _pl(o2, inner_item, [{"d": 1, "n": "Some"}, {"f": 0, "n": "0", "t": inner_item}])})], after, sp)
        if res is None:
            return False
        entry, lo, _ = res
        if path.endswith("map_while"):
            cx.blocks[after]["st"].append(_assign(copy.deepcopy(D), _use({"m": _pl(lo, rty_)}), sp))
        else:
            d2 = cx.new_local(cx.isize)
            yes = cx.new_block([_assign(copy.deepcopy(D), _use({"m": _pl(lo, rty_)}), sp)], {"t": "goto", "to": cont, "sp": sp})
            cx.blocks[after]["st"].append(_assign(_pl(d2, cx.isize), {"r": "discr", "pl": _pl(lo, rty_)}, sp))
            cx.blocks[after]["term"] = {"t": "switch", "on": {"m": _pl(d2, cx.isize)}, "targets": [[0, head]], "otherwise": yes, "sp": sp, "desugared": "filter_map.next", "desugared_adt": OPT, "desugared_dest": _pl(lo, rty_)}
        unreachable = cx.new_block([], {"t": "unreachable", "sp": sp})
        test = cx.new_block([_assign(_pl(d1, cx.isize), {"r": "discr", "pl": _pl(o2, oty)}, sp)], {"t": "switch", "on": {"m": _pl(d1, cx.isize)}, "targets": [[0, none_blk], [1, entry]], "otherwise": unreachable, "sp": sp, "desugared": "adaptor.next", "desugared_adt": OPT, "desugared_dest": _pl(o2, oty)})
        nxt = {"t": "call", "f": _next_fn(cx, ipl["t"]), "args": [{"m": _pl(r2, rty)}], "dest": _pl(o2, oty), "to": test, "sp": sp, "adaptor_tried": False}
        if t.get("unwind") is not None:
            nxt["unwind"] = t["unwind"]
        blk["st"].append(_assign(_pl(r2, rty), {"r": "ref", "mut": True, "pl": _pl(ipl["l"], ipl["t"])}, sp))
        nxt["desugared_from"] = path.rsplit("::", 1)[1] + ".next"
        blk["term"] = nxt
        return True
    if path == "std::iter::Iterator::map" and mk["f"].get("trait") == "std::iter::Iterator" and len(mk["args"]) == 2:
        ipl = mk["args"][0].get("m")
        closure = _closure_def(cx.body, mk["args"][1])
        if ipl is None or ipl["p"] or closure is None:
            return False
        callee = cx.by_key.get(closure[0])
        if callee is None or callee.get("arg_count") != 2:
            return False
        inner_item = callee["locals"][2]["ty"]
        items, its = cx.types[inner_item], cx.types[ipl["t"]]
        oty = _type_id(cx, OPT + "<" + items["s"] + ">", lambda: dict({k: items.get(k) for k in ("has_param", "has_dyn", "has_closure", "params")}, **{"s": OPT + "<" + items["s"] + ">", "adts": [OPT] + [a for a in items.get("adts", []) if a != OPT], "k": "adt", "path": OPT, "key": "core::option::Option", "local": False, "args": [inner_item], "synthetic": True}))
        rty = _type_id(cx, "&mut " + its["s"], lambda: dict({k: its.get(k) for k in ("has_param", "has_dyn", "has_closure", "params", "adts")}, **{"s": "&mut " + its["s"], "k": "ref", "mut": True, "t": ipl["t"], "synthetic": True}))
        o2 = cx.new_local(oty)
        r2 = cx.new_local(rty)
        mapf = {"key": "core::option::Option::map", "path": OPT + "::<T>::map", "full": OPT + "::<%s>::map" % items["s"], "name": "map", "local": False, "args": [inner_item]}
        mapcall = {"t": "call", "f": mapf, "args": [{"m": _pl(o2, oty)}, copy.deepcopy(mk["args"][1])], "dest": copy.deepcopy(D), "to": cont, "sp": sp}
        if t.get("unwind") is not None:
            mapcall["unwind"] = t["unwind"]
        mb = cx.new_block([], mapcall)
        blk["st"].append(_assign(_pl(r2, rty), {"r": "ref", "mut": True, "pl": _pl(ipl["l"], ipl["t"])}, sp))
        nxt = {"t": "call", "f": _next_fn(cx, ipl["t"]), "args": [{"m": _pl(r2, rty)}], "dest": _pl(o2, oty), "to": mb, "sp": sp}
        if t.get("unwind") is not None:
            nxt["unwind"] = t["unwind"]
        blk["term"] = nxt
        return True
    return False


def desugar_call(cx, bb):
    blk = cx.blocks[bb]
    t = blk["term"]
    if t["t"] != "call" or blk.get("cleanup") or t.get("to") is None:
        return False
    f = t.get("f")
    if not f or f.get("local"):
        return False
    path, name = f.get("path", ""), f.get("name")
    if path == "core::bool::<impl bool>::then" or path == "core::bool::<impl bool>::then_some":
        return _desugar_bool_then(cx, bb, name)
    if path == "std::iter::Iterator::for_each" and f.get("trait") == "std::iter::Iterator":
        return _desugar_for_each(cx, bb)
    if path == "std::iter::Extend::extend":
        return _desugar_extend(cx, bb)
    if path == "std::iter::Iterator::try_for_each" and f.get("trait") == "std::iter::Iterator":
        return _desugar_try_for_each(cx, bb)
    if path == "std::iter::Iterator::find_map" and f.get("trait") == "std::iter::Iterator":
        return _desugar_find_map(cx, bb)
    if path == "std::iter::Iterator::next" and f.get("trait") == "std::iter::Iterator" and not t.get("adaptor_tried"):
        t["adaptor_tried"] = True
        return _desugar_adaptor_next(cx, bb)
    if path.startswith(OPT + "::<T>::") and name in OPTION_COMBINATORS:
        adt = OPT
    elif path.startswith(RES + "::<T, E>::") and name in RESULT_COMBINATORS:
        adt = RES
    else:
        return False
    args = t["args"]
    self_pl = args[0].get("m") or args[0].get("c")
    if self_pl is None or self_pl["p"] or t["dest"]["p"]:
        return False
    X = self_pl["l"]
    xty = self_pl["t"]
    targs = cx.types[xty].get("args", []) if cx.types[xty].get("k") == "adt" else []
    if (adt == OPT and len(targs) < 1) or (adt == RES and len(targs) < 2):
        return False
    sp = t["sp"]
    D = t["dest"]
    cont = t["to"]
    (v0, i0), (v1, i1) = _variants(adt)
    pty = {v0: (targs[0] if adt == RES else None), v1: (targs[0] if adt == OPT else targs[1])}

    def payload(variant, idx, mv=True):
        ty = pty[variant]
        return {"m" if mv else "c": _pl(X, ty, [{"d": idx, "n": variant}, {"f": 0, "n": "0", "t": ty}])}

    def payload_ref(variant, idx, refty):
        ty = pty[variant]
        return {"r": "ref", "mut": False, "pl": _pl(X, ty, [{"d": idx, "n": variant}, {"f": 0, "n": "0", "t": ty}])}

    def goto(to):
        return {"t": "goto", "to": to, "sp": sp}

    def set_dest(rv):
        return cx.new_block([_assign(copy.deepcopy(D), rv, sp)], goto(cont))

    def wrap(adt_, variant, idx, op):
        return _agg(adt_, variant, idx, [op] if op is not None else [])

    def moved_self():
        return _use({"m": _pl(X, xty)})

    closure = None
    needs_closure = {
        OPT: {"map", "and_then", "filter", "unwrap_or_else", "or_else", "ok_or_else", "map_or", "is_some_and", "inspect"},
        RES: {"map", "map_err", "and_then", "or_else", "unwrap_or_else", "is_ok_and", "is_err_and", "inspect_err", "inspect", "map_or"},
    }[adt]
    if name in needs_closure:
        cop = args[-1]
        closure = _closure_def(cx.body, cop)
        if closure is None:
            return False

    def run_closure(arg_rvs, then):
        """blocks: bind args, run closure, then `then(result operand)` builds the block that follows.
        returns entry block"""
        join = cx.new_block([], goto(cont))  # placeholder, filled below
        r = _inline_closure(cx, closure[0], closure[1], arg_rvs, join, sp)
        if r is None:
            return None
        entry, lo, rty = r
        res_op = {"m": _pl(lo, rty)}
        nxt = then(res_op, rty)
        cx.blocks[join]["term"] = goto(nxt)
        return entry

    arm = {}  # variant name -> entry block
    S, N = (v1, v0) if adt == OPT else (v0, v1)  # S: the "success" variant (Some / Ok), N: the other
    si, ni = (i1, i0) if adt == OPT else (i0, i1)
    ok = True
    if adt == OPT:
        if name == "map":
            arm[S] = run_closure([_use(payload(S, si))], lambda r, ty: set_dest(wrap(OPT, "Some", 1, r)))
            arm[N] = set_dest(wrap(OPT, "None", 0, None))
        elif name == "and_then":
            arm[S] = run_closure([_use(payload(S, si))], lambda r, ty: set_dest(_use(r)))
            arm[N] = set_dest(wrap(OPT, "None", 0, None))
        elif name == "filter":
            def after(r, ty):
                keep = set_dest(moved_self())
                drop = set_dest(wrap(OPT, "None", 0, None))
                return cx.new_block([], {"t": "switch", "on": r, "targets": [[0, drop]], "otherwise": keep, "sp": sp})
            arm[S] = run_closure([payload_ref(S, si, None)], after)
            arm[N] = set_dest(wrap(OPT, "None", 0, None))
        elif name == "inspect":
            arm[S] = run_closure([payload_ref(S, si, None)], lambda r, ty: set_dest(moved_self()))
            arm[N] = set_dest(wrap(OPT, "None", 0, None))
        elif name == "unwrap_or_else":
            arm[S] = set_dest(_use(payload(S, si)))
            arm[N] = run_closure([], lambda r, ty: set_dest(_use(r)))
        elif name == "or_else":
            arm[S] = set_dest(moved_self())
            arm[N] = run_closure([], lambda r, ty: set_dest(_use(r)))
        elif name == "ok_or_else":
            arm[S] = set_dest(wrap(RES, "Ok", 0, payload(S, si)))
            arm[N] = run_closure([], lambda r, ty: set_dest(wrap(RES, "Err", 1, r)))
        elif name == "ok_or" and len(args) == 2:
            arm[S] = set_dest(wrap(RES, "Ok", 0, payload(S, si)))
            arm[N] = set_dest(wrap(RES, "Err", 1, args[1]))
        elif name == "map_or" and len(args) == 3:
            arm[S] = run_closure([_use(payload(S, si))], lambda r, ty: set_dest(_use(r)))
            arm[N] = set_dest(_use(args[1]))
        elif name == "unwrap_or" and len(args) == 2:
            arm[S] = set_dest(_use(payload(S, si)))
            arm[N] = set_dest(_use(args[1]))
        elif name == "is_some_and":
            arm[S] = run_closure([_use(payload(S, si))], lambda r, ty: set_dest(_use(r)))
            arm[N] = set_dest(_use({"k": {"ty": cx.boolt, "s": "false", "v": 0}}))
        else:
            ok = False
    else:
        if name == "map":
            arm[S] = run_closure([_use(payload(S, si))], lambda r, ty: set_dest(wrap(RES, "Ok", 0, r)))
            arm[N] = set_dest(wrap(RES, "Err", 1, payload(N, ni)))
        elif name == "map_err":
            arm[S] = set_dest(wrap(RES, "Ok", 0, payload(S, si)))
            arm[N] = run_closure([_use(payload(N, ni))], lambda r, ty: set_dest(wrap(RES, "Err", 1, r)))
        elif name == "and_then":
            arm[S] = run_closure([_use(payload(S, si))], lambda r, ty: set_dest(_use(r)))
            arm[N] = set_dest(wrap(RES, "Err", 1, payload(N, ni)))
        elif name == "or_else":
            arm[S] = set_dest(wrap(RES, "Ok", 0, payload(S, si)))
            arm[N] = run_closure([_use(payload(N, ni))], lambda r, ty: set_dest(_use(r)))
        elif name == "unwrap_or_else":
            arm[S] = set_dest(_use(payload(S, si)))
            arm[N] = run_closure([_use(payload(N, ni))], lambda r, ty: set_dest(_use(r)))
        elif name == "unwrap_or" and len(args) == 2:
            arm[S] = set_dest(_use(payload(S, si)))
            arm[N] = set_dest(_use(args[1]))
        elif name == "map_or" and len(args) == 3:
            arm[S] = run_closure([_use(payload(S, si))], lambda r, ty: set_dest(_use(r)))
            arm[N] = set_dest(_use(args[1]))
        elif name == "ok" and len(args) == 1:
            arm[S] = set_dest(wrap(OPT, "Some", 1, payload(S, si)))
            arm[N] = set_dest(wrap(OPT, "None", 0, None))
        elif name == "err" and len(args) == 1:
            arm[S] = set_dest(wrap(OPT, "None", 0, None))
            arm[N] = set_dest(wrap(OPT, "Some", 1, payload(N, ni)))
        elif name == "inspect":
            arm[S] = run_closure([payload_ref(S, si, None)], lambda r, ty: set_dest(moved_self()))
            arm[N] = set_dest(moved_self())
        elif name == "inspect_err":
            arm[S] = set_dest(moved_self())
            arm[N] = run_closure([payload_ref(N, ni, None)], lambda r, ty: set_dest(moved_self()))
        elif name == "is_ok_and":
            arm[S] = run_closure([_use(payload(S, si))], lambda r, ty: set_dest(_use(r)))
            arm[N] = set_dest(_use({"k": {"ty": cx.boolt, "s": "false", "v": 0}}))
        elif name == "is_err_and":
            arm[S] = set_dest(_use({"k": {"ty": cx.boolt, "s": "false", "v": 0}}))
            arm[N] = run_closure([_use(payload(N, ni))], lambda r, ty: set_dest(_use(r)))
        else:
            ok = False
    if not ok or any(v is None for v in arm.values()) or len(arm) != 2:
        return False
    d = cx.new_local(cx.isize)
    blk["st"].append(_assign(_pl(d, cx.isize), {"r": "discr", "pl": _pl(X, xty)}, sp))
    unreachable = cx.new_block([], {"t": "unreachable", "sp": sp})
    blk["term"] = {
        "t": "switch",
        "on": {"m": _pl(d, cx.isize)},
        "targets": [[i0, arm[v0]], [i1, arm[v1]]],
        "otherwise": unreachable,
        "sp": sp,
        "desugared": name,
        "desugared_adt": adt,
        "desugared_dest": copy.deepcopy(D),
    }
    return True


def _closure_origin(body, op, depth=0):
    """follows whole-local moves / references from a callee operand back to a closure literal built in this
    body. Returns (closure def key, local holding the closure value) or None"""
    pl = op.get("m") or op.get("c")
    if pl is None or pl["p"] or depth > 6:
        return None
    l = pl["l"]
    defs = []
    for blk in body["blocks"]:
        for st in blk["st"]:
            if st["s"] == "assign" and st["pl"]["l"] == l:
                defs.append(st)
        t = blk["term"]
        if t["t"] == "call" and t["dest"]["l"] == l:
            defs.append(t)
    if len(defs) != 1 or defs[0].get("s") != "assign" or defs[0]["pl"]["p"]:
        return None
    rv = defs[0]["rv"]
    if rv["r"] == "agg" and rv.get("kind") == "closure":
        return rv["def"], l
    if rv["r"] == "use":
        return _closure_origin(body, rv["o"], depth + 1)
    if rv["r"] == "ref" and not rv["pl"]["p"]:
        return _closure_origin(body, {"c": rv["pl"]}, depth + 1)
    if rv["r"] == "ref" and rv["pl"]["p"] == ["*"]:
        return _closure_origin(body, {"c": {"l": rv["pl"]["l"], "p": [], "t": 0}}, depth + 1)
    return None


def devirtualize_call(cx, bb):
    """`f(args)` where f is (a move / borrow of) a closure literal of this body — typically a closure handed to a
    helper that has just been inlined: the closure body is expanded in place of the Fn*::call*"""
    blk = cx.blocks[bb]
    t = blk["term"]
    if t["t"] != "call" or blk.get("cleanup") or t.get("to") is None or t["dest"]["p"]:
        return False
    f = t.get("f")
    if not f or f.get("name") not in ("call_once", "call_mut", "call") or not (f.get("trait") or "").startswith("std::ops::Fn"):
        return False
    if len(t["args"]) != 2:
        return False
    org = _closure_origin(cx.body, t["args"][0])
    if org is None:
        return False
    cdef, clocal = org
    callee = cx.by_key.get(cdef)
    if callee is None:
        return False
    nparams = callee["arg_count"] - 1
    tup = t["args"][1]
    tpl = tup.get("m") or tup.get("c")
    arg_rvs = []
    if nparams:
        if tpl is None or tpl["p"]:
            return False
        for i in range(nparams):
            ty = callee["locals"][2 + i]["ty"]
            arg_rvs.append(_use({"m": _pl(tpl["l"], ty, [{"f": i, "n": str(i), "t": ty}])}))
    sp = t["sp"]
    join = cx.new_block([], {"t": "goto", "to": t["to"], "sp": sp})
    r = _inline_closure(cx, cdef, clocal, arg_rvs, join, sp)
    if r is None:
        return False
    entry, lo, rty = r
    cx.blocks[join]["st"].append(_assign(copy.deepcopy(t["dest"]), _use({"m": _pl(lo, rty)}), sp))
    blk["term"] = {"t": "goto", "to": entry, "sp": sp, "devirtualized": cdef}
    return True


def apply(raw_bodies, types, rounds=6):
    """returns {closure key: owner path} for the closures that were expanded in place"""
    by_key = {b["key"]: b for b in raw_bodies}
    expanded = {}
    for _ in range(rounds):
        changed = False
        for b in raw_bodies:
            if len(b["blocks"]) > 3000:
                continue
            cx = _Ctx(b, by_key, types)
            n0 = len(b["blocks"])
            for i in range(n0):
                before = len(b.get("inlined_closures", []))
                if desugar_call(cx, i) or devirtualize_call(cx, i):
                    changed = True
                    for k in b.get("inlined_closures", [])[before:]:
                        expanded[k] = b["path"]
        if not changed:
            break
    return expanded
