#!/usr/bin/env python3
"""debug helper: pretty-print the MIR facts of one body, hiding tracing-macro blocks.
usage: dump.py <facts.json> <qual substring> [--all]"""
import sys
from mir import load, place_str, op_str, TRACE_MACROS


def rv_str(rv):
    r = rv["r"]
    if r == "use":
        return op_str(rv["o"])
    if r == "ref":
        return ("&mut " if rv["mut"] else "&") + place_str(rv["pl"])
    if r == "bin":
        return "%s(%s, %s)" % (rv["op"], op_str(rv["a"]), op_str(rv["b"]))
    if r == "un":
        return "%s(%s)" % (rv["op"], op_str(rv["a"]))
    if r == "cast":
        return "%s as[%s]" % (op_str(rv["o"]), rv["kind"])
    if r == "discr":
        return "discriminant(%s)" % place_str(rv["pl"])
    if r == "agg":
        n = rv.get("adt", rv.get("def", rv["kind"]))
        if "variant" in rv:
            n += "::" + rv["variant"]
        return "%s{%s}" % (n, ", ".join(op_str(f) for f in rv["fields"]))
    return r


def dump(b, show_all=False):
    f = b.facts
    print("== %s  [%s]  %s" % (b.qual, b.key, b.where()))
    for l, d in enumerate(b.locals):
        n = b.local_name(l)
        print("   _%d%s: %s" % (l, " (%s)" % n if n else "", f.ty_s(d["ty"])))
    hidden = 0
    for i, blk in enumerate(b.blocks):
        t = blk["term"]
        if not show_all and t["sp"][1] in TRACE_MACROS and t["t"] not in ("return",):
            hidden += 1
            continue
        print(" bb%d%s:" % (i, " (cleanup)" if blk["cleanup"] else ""))
        for st in blk["st"]:
            if st["s"] == "assign":
                print("     %s = %s" % (place_str(st["pl"]), rv_str(st["rv"])))
            elif st["s"] == "setdiscr":
                print("     discriminant(%s) = %s" % (place_str(st["pl"]), st["variant"]))
        k = t["t"]
        if k == "call":
            cs = b.call_at(i)
            r = cs.resolved
            print("     %s = %s(%s) -> bb%s unwind %s   [L%d%s%s]" % (place_str(t["dest"]), cs.describe(), ", ".join(op_str(a) for a in t["args"]), t["to"], t["unwind"], t["sp"][0], " " + t["sp"][1] if t["sp"][1] else "", " => " + r["path"] if r and r["path"] != cs.path else ""))
        elif k == "drop":
            print("     drop(%s: %s) -> bb%d   [L%d]" % (place_str(t["pl"]), f.ty_s(t["ty"]), t["to"], t["sp"][0]))
        elif k == "switch":
            print("     switch(%s) %s otherwise bb%d   [L%d]" % (op_str(t["on"]), ["%d:bb%d" % (v, x) for v, x in t["targets"]], t["otherwise"], t["sp"][0]))
        elif k == "goto":
            print("     goto bb%d" % t["to"])
        elif k == "assert":
            print("     assert(%s == %s) -> bb%d  %s" % (op_str(t["cond"]), t["expected"], t["to"], t["msg"][:60]))
        else:
            print("     %s" % k)
    if hidden:
        print(" (%d tracing-macro blocks hidden)" % hidden)


if __name__ == "__main__":
    facts = load(sys.argv[1])
    pat = sys.argv[2]
    for b in facts.bodies.values():
        if pat in b.qual or pat == b.key:
            dump(b, "--all" in sys.argv)
