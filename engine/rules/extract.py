"""Runs E1 over /repo's current working tree and returns the path of a fresh fact file.

A fact file is reused only when the SHA-256 over every file under /repo/src, Cargo.toml,
Cargo.lock and the driver binary is unchanged; the hash is recomputed on every call."""
import hashlib
import json
import os
import shutil
import subprocess
import sys
import time
import uuid

VERIF = os.path.abspath(os.path.join(os.path.dirname(__file__), "..", ".."))
REPO = os.environ.get("VERIF_REPO", "/repo")
WORK = os.environ.get("VERIF_WORK", os.path.join(VERIF, ".work"))
DRIVER_SRC = os.path.join(VERIF, "engine", "driver")
DRIVER_BIN = os.path.join(WORK, "driver-target", "release", "facts-driver")

CONFIGS = {
    "full": "block_on executor signals stream futures-io",
    "book": "executor futures-io",
    "default": "",
}


def env_base():
    e = dict(os.environ)
    e["CARGO_NET_OFFLINE"] = "true"
    e.pop("RUSTC_WRAPPER", None)
    return e


def sysroot_lib():
    out = subprocess.run(["rustc", "+nightly", "--print", "sysroot"], capture_output=True, text=True, check=True)
    return os.path.join(out.stdout.strip(), "lib")


def build_driver(force=False):
    srcs = [os.path.join(DRIVER_SRC, "src", "main.rs"), os.path.join(DRIVER_SRC, "Cargo.toml")]
    if not force and os.path.exists(DRIVER_BIN):
        if all(os.path.getmtime(s) <= os.path.getmtime(DRIVER_BIN) for s in srcs):
            return DRIVER_BIN
    os.makedirs(WORK, exist_ok=True)
    e = env_base()
    e["CARGO_TARGET_DIR"] = os.path.join(WORK, "driver-target")
    r = subprocess.run(
        ["cargo", "+nightly", "build", "--release", "--offline"], cwd=DRIVER_SRC, env=e, capture_output=True, text=True
    )
    if r.returncode != 0 or not os.path.exists(DRIVER_BIN):
        sys.stderr.write(r.stdout + r.stderr)
        raise SystemExit("ENGINE-ERROR: building the fact extractor failed")
    return DRIVER_BIN


def tree_hash(repo=REPO):
    h = hashlib.sha256()
    files = []
    for root, dirs, fs in os.walk(os.path.join(repo, "src")):
        dirs.sort()
        for f in sorted(fs):
            files.append(os.path.join(root, f))
    for extra in ("Cargo.toml", "Cargo.lock"):
        p = os.path.join(repo, extra)
        if os.path.exists(p):
            files.append(p)
    files.append(DRIVER_BIN)
    for p in files:
        h.update(os.path.relpath(p, repo).encode())
        with open(p, "rb") as fh:
            h.update(hashlib.sha256(fh.read()).digest())
    return h.hexdigest()


def extract(config="full", repo=REPO, tag=None, quiet=True):
    """returns (facts_path, seconds, reused). Serialised per (tag, config) by a file lock so that
    checks started in parallel do not trample each other's target directory."""
    import fcntl

    os.makedirs(WORK, exist_ok=True)
    with open(os.path.join(WORK, "extract-%s-%s.lock" % (tag or "repo", config)), "w") as lk:
        fcntl.flock(lk, fcntl.LOCK_EX)
        try:
            return _extract(config, repo, tag)
        finally:
            fcntl.flock(lk, fcntl.LOCK_UN)


def _extract(config, repo, tag):
    t0 = time.time()
    with open(os.path.join(WORK, "driver-build.lock"), "w") as lk:
        import fcntl

        fcntl.flock(lk, fcntl.LOCK_EX)
        try:
            build_driver()
        finally:
            fcntl.flock(lk, fcntl.LOCK_UN)
    feats = CONFIGS[config]
    th = tree_hash(repo)
    tag = tag or "repo"
    out = os.path.join(WORK, "facts", "%s-%s.json" % (tag, config))
    meta = out + ".meta"
    os.makedirs(os.path.dirname(out), exist_ok=True)
    if os.path.exists(out) and os.path.exists(meta):
        try:
            m = json.load(open(meta))
            if m.get("tree_hash") == th and m.get("features") == feats:
                return out, time.time() - t0, True
        except Exception:
            pass
    tgt = os.path.join(WORK, "tgt-%s-%s" % (tag, config))
    # cargo's freshness cache would silently skip the wrapper: drop calloop's fingerprints
    fpdir = os.path.join(tgt, "debug", ".fingerprint")
    if os.path.isdir(fpdir):
        for d in os.listdir(fpdir):
            if d.startswith("calloop-"):
                shutil.rmtree(os.path.join(fpdir, d), ignore_errors=True)
    nonce = uuid.uuid4().hex
    if os.path.exists(out):
        os.remove(out)
    e = env_base()
    e["LD_LIBRARY_PATH"] = sysroot_lib() + (":" + e["LD_LIBRARY_PATH"] if e.get("LD_LIBRARY_PATH") else "")
    e["RUSTFLAGS"] = "-Zmir-opt-level=0 -Awarnings"
    e["RUSTC_WORKSPACE_WRAPPER"] = DRIVER_BIN
    e["CARGO_TARGET_DIR"] = tgt
    e["VERIF_FACTS_OUT"] = out
    e["VERIF_FACTS_NONCE"] = nonce
    e["VERIF_FACTS_CONFIG"] = feats
    e["VERIF_FACTS_CRATES"] = "calloop"
    cmd = ["cargo", "+nightly", "check", "--offline", "-p", "calloop", "--lib"]
    if feats:
        cmd += ["--features", feats]
    r = subprocess.run(cmd, cwd=repo, env=e, capture_output=True, text=True)
    if r.returncode != 0:
        sys.stderr.write(r.stdout[-4000:] + r.stderr[-8000:])
        raise SystemExit("ENGINE-ERROR: /repo does not build in configuration %r (nothing was analysed)" % config)
    if not os.path.exists(out):
        raise SystemExit("ENGINE-ERROR: the fact extractor did not run (no fact file for %r)" % config)
    with open(out) as fh:
        head = fh.read(400)
    if nonce not in head:
        raise SystemExit("ENGINE-ERROR: stale fact file for %r (nonce mismatch)" % config)
    json.dump({"tree_hash": th, "features": feats, "nonce": nonce}, open(meta, "w"))
    return out, time.time() - t0, False


if __name__ == "__main__":
    cfgs = sys.argv[1:] or ["full"]
    for c in cfgs:
        p, s, reused = extract(c)
        print("%s: %s (%.1fs%s)" % (c, p, s, ", reused" if reused else ""))
