"""Dataflow pieces shared by the rule templates: RefCell guard liveness (T1), user-code site
classification, interprocedural summaries."""
from collections import defaultdict, deque

from mir import op_place, place_str, CallSite

# ------------------------------------------------------------------------------------------
# guard liveness: forward may-analysis of "maybe-initialised locals that own a RefCell guard"
# ------------------------------------------------------------------------------------------


class GuardFlow:
    def __init__(self, body):
        self.body = body
        f = body.facts
        self.guard_locals = {}
        for l, decl in enumerate(body.locals):
            g = f.owned_guards(decl["ty"])
            if g:
                self.guard_locals[l] = g
        self.entry = {}
        self._flags = None
        if self.guard_locals:
            self._solve()

    # drop flags: bool locals only ever assigned constants
    def drop_flags(self):
        if self._flags is not None:
            return self._flags
        b = self.body
        cand = {}
        for l, decl in enumerate(b.locals):
            if b.facts.types[decl["ty"]]["s"] == "bool":
                cand[l] = True
        for i, j, st in b.statements():
            if st["s"] == "assign":
                pl = st["pl"]
                if pl["l"] in cand:
                    rv = st["rv"]
                    if pl["p"] or rv["r"] != "use" or "k" not in rv["o"]:
                        cand[pl["l"]] = False
        for i, blk in enumerate(b.blocks):
            t = blk["term"]
            if t["t"] == "call" and t["dest"]["l"] in cand:
                cand[t["dest"]["l"]] = False
        self._flags = {l for l, ok in cand.items() if ok}
        return self._flags

    def _flag_guarded_drop(self, target):
        """follow gotos from `target`; if a drop terminator is reached, return its local"""
        b = self.body
        cur = target
        for _ in range(4):
            t = b.blocks[cur]["term"]
            if b.blocks[cur]["st"]:
                return None
            if t["t"] == "drop":
                return t["pl"]["l"] if not t["pl"]["p"] else t["pl"]["l"]
            if t["t"] == "goto":
                cur = t["to"]
                continue
            return None
        return None

    def _moved_locals(self, ops):
        out = []
        for op in ops:
            if op and "m" in op:
                out.append(op["m"]["l"])
        return out

    def _rv_operands(self, rv):
        r = rv["r"]
        if r in ("use", "cast", "repeat", "wrap_binder"):
            return [rv["o"]]
        if r == "bin":
            return [rv["a"], rv["b"]]
        if r == "un":
            return [rv["a"]]
        if r == "agg":
            return rv["fields"]
        return []

    def transfer_block(self, bb, state):
        """state at block entry -> (state before terminator)"""
        b = self.body
        gl = self.guard_locals
        st_ = set(state)
        for st in b.blocks[bb]["st"]:
            if st["s"] != "assign":
                continue
            for l in self._moved_locals(self._rv_operands(st["rv"])):
                st_.discard(l)
            if st["pl"]["l"] in gl:
                # only a store that carries a guard initialises the destination
                rv = st["rv"]
                if rv["r"] in ("use", "agg", "cast"):
                    for op in self._rv_operands(rv):
                        pl = op_place(op)
                        if pl is not None and pl["l"] in gl:
                            st_.add(st["pl"]["l"])
        return st_

    def edge_states(self, bb, before):
        """states flowing along each normal out-edge of bb given the state before its terminator"""
        b = self.body
        gl = self.guard_locals
        t = b.blocks[bb]["term"]
        k = t["t"]
        out = []
        if k == "call":
            s_ = set(before)
            for l in self._moved_locals(t["args"]):
                s_.discard(l)
            if t.get("to") is not None:
                s2 = set(s_)
                if t["dest"]["l"] in gl:
                    s2.add(t["dest"]["l"])
                out.append((t["to"], s2))
        elif k == "drop":
            s_ = set(before)
            s_.discard(t["pl"]["l"])
            out.append((t["to"], s_))
        elif k == "switch":
            e = None
            on = op_place(t["on"])
            flag = on["l"] if on is not None and not on["p"] and on["l"] in self.drop_flags() else None
            zero_targets = [tgt for v, tgt in t["targets"] if v == 0]
            # switch on the discriminant of an Option/Result that may own a guard: on the edge of a
            # variant that carries no guard (None / Err(BorrowMutError)) the local holds none
            dexpr = b.expr(t["on"])
            dlocal = None
            if dexpr[0] == "discr" and not dexpr[2]["p"] and dexpr[2]["l"] in gl:
                dlocal = dexpr[2]["l"]
            for tgt, lab in b.succ_edges(bb):
                s_ = set(before)
                if dlocal is not None and isinstance(lab, tuple):
                    ty = b.facts.types[b.locals[dlocal]["ty"]]
                    v = lab[1]
                    carries = True
                    if ty.get("path") == "std::option::Option":
                        carries = v == 1
                    elif ty.get("path") == "std::result::Result":
                        arg = ty["args"][0] if v == 0 else (ty["args"][1] if len(ty["args"]) > 1 else None)
                        carries = arg is not None and bool(b.facts.owned_guards(arg))
                    if not carries:
                        s_.discard(dlocal)
                if dlocal is not None and lab == "otherwise":
                    ty = b.facts.types[b.locals[dlocal]["ty"]]
                    listed = {v for v, _ in t["targets"]}
                    rest = {0, 1} - listed
                    if len(rest) == 1:
                        v = rest.pop()
                        carries = True
                        if ty.get("path") == "std::option::Option":
                            carries = v == 1
                        elif ty.get("path") == "std::result::Result":
                            arg = ty["args"][0] if v == 0 else (ty["args"][1] if len(ty["args"]) > 1 else None)
                            carries = arg is not None and bool(b.facts.owned_guards(arg))
                        if not carries:
                            s_.discard(dlocal)
                if flag is not None and tgt in zero_targets:
                    # flag false: the value guarded by this flag has been moved out
                    for other, _ in b.succ_edges(bb):
                        if other != tgt:
                            l = self._flag_guarded_drop(other)
                            if l is not None:
                                s_.discard(l)
                out.append((tgt, s_))
        else:
            for tgt in b.succs(bb):
                out.append((tgt, set(before)))
        return out

    def _solve(self):
        b = self.body
        entry = defaultdict(set)
        work = deque([0])
        seen = {0}
        entry[0] = set()
        while work:
            bb = work.popleft()
            before = self.transfer_block(bb, entry[bb])
            for tgt, s_ in self.edge_states(bb, before):
                if tgt not in seen or not s_ <= entry[tgt]:
                    entry[tgt] |= s_
                    seen.add(tgt)
                    work.append(tgt)
        self.entry = entry
        self.reached = seen

    def live_before_term(self, bb):
        if not self.guard_locals:
            return set()
        if bb not in self.entry and bb != 0:
            return set()
        return self.transfer_block(bb, self.entry.get(bb, set()))

    def live_payloads(self, bb):
        """[(local, kind, payload tyid)] live just before the terminator of bb"""
        out = []
        for l in sorted(self.live_before_term(bb)):
            for kind, payload in self.guard_locals[l]:
                out.append((l, kind, payload))
        return out


# ------------------------------------------------------------------------------------------
# ownership of user-typed values (for the DROP class)
# ------------------------------------------------------------------------------------------

# std types whose drop glue never drops their type arguments
BORROW_LIKE = {
    "std::marker::PhantomData",
    "std::cell::Ref",
    "std::cell::RefMut",
    "std::sync::MutexGuard",
    "std::slice::Iter",
    "std::slice::IterMut",
    "std::rc::Weak",
    "std::sync::Weak",
    "std::cell::BorrowError",
    "std::cell::BorrowMutError",
    "std::mem::ManuallyDrop",
    "std::task::Context",
}

USER_ADTS = {
    "async_task::Runnable",
    "async_task::Task",
    "std::task::Waker",
}


def owns_user(facts, tyid, _depth=0, _seen=None):
    """does dropping a value of this type run drop glue of user-typed values?
    returns a reason string or None"""
    t = facts.types[tyid]
    k = t.get("k")
    if _depth > 8:
        return None
    if k == "param":
        return "type parameter " + t["name"]
    if k == "alias":
        return "associated type " + t["s"]
    if k == "dyn":
        tr = "+".join(t.get("traits", []))
        return "dyn " + tr
    if k in ("ref", "ptr", "prim", "fndef", "fnptr"):
        return None
    if k in ("closure", "coroutine", "coroutine_closure"):
        return "closure state" if t.get("has_param") or t.get("has_dyn") else None
    if k == "tuple":
        for a in t.get("elems", []):
            r = owns_user(facts, a, _depth + 1)
            if r:
                return r
        return None
    if k in ("array", "slice"):
        return owns_user(facts, t["t"], _depth + 1)
    if k == "adt":
        if t["path"] in USER_ADTS:
            return t["path"]
        if t["path"] in BORROW_LIKE:
            return None
        if t.get("local") and t["path"] in facts.adts:
            _seen = _seen or set()
            if t["path"] in _seen:
                return None
            _seen = _seen | {t["path"]}
            # generic local ADT: look at instantiated arguments first, then at the fields
            for a in t.get("args", []):
                r = owns_user(facts, a, _depth + 1)
                if r:
                    return r
            for v in facts.adts[t["path"]]["variants"]:
                for f in v["fields"]:
                    ft = facts.types[f["ty"]]
                    if ft.get("k") == "param":
                        continue  # covered by args above
                    r = owns_user(facts, f["ty"], _depth + 1, _seen)
                    if r:
                        return r
            return None
        for a in t.get("args", []):
            r = owns_user(facts, a, _depth + 1)
            if r:
                return r
        return None
    return None


# ------------------------------------------------------------------------------------------
# user-code site classification
# ------------------------------------------------------------------------------------------

FN_TRAITS = {"std::ops::Fn", "std::ops::FnMut", "std::ops::FnOnce"}
SRC_METHODS = {"register", "reregister", "unregister", "before_sleep", "before_handle_events"}


def _mentions_param_or_dyn(facts, tyid):
    t = facts.types[tyid]
    return t.get("has_param") or t.get("has_dyn")


def classify_call(cs):
    """class of user code a call terminator may run directly: 'CB' | 'FUT' | 'SRC' | 'WAKE' | None"""
    f = cs.f
    if f is None:
        # indirect call through a fn pointer / closure value
        return None
    facts = cs.body.facts
    tr = cs.trait
    st = cs.self_ty
    std = facts.types[st] if st is not None else None
    if tr in FN_TRAITS and std is not None:
        base = facts.types[facts.peel_refs(st)]
        if base.get("k") in ("param", "dyn", "alias"):
            return "CB"
        # Box<dyn FnOnce>, etc.
        if base.get("k") == "adt" and (base.get("has_dyn") or base.get("has_param")) and not base.get("local"):
            return "CB"
        return None
    if tr == "sources::EventDispatcher" or (tr and tr.endswith("::EventDispatcher")):
        if std is not None and facts.types[facts.peel_refs(st)].get("k") in ("dyn", "param"):
            if cs.name == "process_events":
                return "CB"
            if cs.name in SRC_METHODS:
                return "SRC"
    if tr and tr.endswith("IdleDispatcher") and cs.name == "dispatch":
        if std is not None and facts.types[facts.peel_refs(st)].get("k") in ("dyn", "param"):
            return "CB"
    if tr and tr.endswith("::EventSource") and std is not None:
        base = facts.types[facts.peel_refs(st)]
        if base.get("k") in ("param", "dyn", "alias"):
            if cs.name == "process_events":
                return "CB"
            if cs.name in SRC_METHODS:
                return "SRC"
    if f["path"] == "async_task::Runnable::<M>::run":
        return "FUT"
    if tr in ("std::future::Future", "futures_core::Stream", "futures_core::stream::Stream") or (
        tr and (tr.endswith("::Future") or tr.endswith("::Stream"))
    ):
        if cs.name in ("poll", "poll_next") and std is not None:
            if _mentions_param_or_dyn(facts, st):
                return "FUT"
    if f["path"] in ("std::task::Waker::wake", "std::task::Waker::wake_by_ref"):
        return "WAKE"
    return None


def classify_drop(body, term):
    """reason string if this drop terminator may run user drop glue"""
    return owns_user(body.facts, term["ty"])


def drop_category(reason):
    """coarse category of a DROP reason: dispatcher | param | runnable | waker | error | other"""
    if reason is None:
        return None
    if "EventDispatcher" in reason or "IdleDispatcher" in reason or "CancellableIdle" in reason or "ErasedDispatcher" in reason:
        return "dispatcher"
    if reason.startswith("type parameter") or reason.startswith("associated type") or reason == "closure state":
        return "param"
    if "Runnable" in reason or "async_task" in reason:
        return "runnable"
    if "Waker" in reason:
        return "waker"
    if "Error" in reason:
        return "error"
    return "other"


# ------------------------------------------------------------------------------------------
# interprocedural: which classes of user code may a local body run (transitively)?
# ------------------------------------------------------------------------------------------


class Summaries:
    def __init__(self, facts):
        self.facts = facts
        self.direct = {}  # key -> {cls: [(bb, descr)]}
        self.callees = {}  # key -> [(bb, callee_key)]
        self.closure_uses = {}  # closure key -> [(parent key, bb)] call sites receiving it
        self._build()

    def _build(self):
        facts = self.facts
        for key, b in facts.bodies.items():
            d = defaultdict(list)
            cal = []
            for cs in b.calls():
                c = classify_call(cs)
                if c:
                    d[c].append((cs.bb, cs.describe()))
                cb = cs.callee_body()
                if cb is not None and cb.key != key:
                    cal.append((cs.bb, cb.key))
            for bb, t in b.drops():
                if b.is_cleanup(bb):
                    continue
                r = classify_drop(b, t)
                if r:
                    cat = drop_category(r)
                    # a callee's drop of one of *its own* type parameters is a drop of whatever the
                    # caller instantiated it with; only concrete carriers of user code propagate
                    cls = "DROP" if cat in ("dispatcher", "runnable") else "DROP-" + cat
                    d[cls].append((bb, "drop %s: %s (%s)" % (place_str(t["pl"]), facts.short_ty(t["ty"]), r)))
            # drop-and-assign is lowered to Drop + Assign in elaborated MIR; covered above
            self.direct[key] = d
            self.callees[key] = cal
        # closures: sites where a closure value is handed to a call
        for key, b in facts.bodies.items():
            if b.kind != "Closure":
                continue
            parent = facts.bodies.get(b.raw.get("parent"))
            if parent is None:
                continue
            uses = []
            aggs = set()
            for i, j, st in parent.statements():
                if st["s"] == "assign" and st["rv"]["r"] == "agg" and st["rv"].get("def") == key:
                    aggs.add(("agg", i, j))
            if aggs:
                for cs in parent.calls():
                    hit = False
                    for a in cs.args:
                        for root, _ in parent.resolve(a):
                            if root in aggs:
                                hit = True
                    if hit:
                        uses.append((parent.key, cs.bb))
            self.closure_uses[key] = uses
        # transitive closure over callees and passed closures
        self.may = {k: {c: bool(v) for c, v in d.items()} for k, d in self.direct.items()}
        self.via = {k: {} for k in self.direct}
        changed = True
        while changed:
            changed = False
            for key in self.direct:
                edges = list(self.callees[key])
                for ck, uses in self.closure_uses.items():
                    for pk, bb in uses:
                        if pk == key:
                            edges.append((bb, ck))
                for bb, ck in edges:
                    for c, v in self.may.get(ck, {}).items():
                        if v and not self.may[key].get(c):
                            self.may[key][c] = True
                            self.via[key][c] = (bb, ck)
                            changed = True

    def classes(self, key):
        return {c for c, v in self.may.get(key, {}).items() if v}

    def chain(self, key, cls, limit=8):
        """human readable call chain to a direct site of class cls"""
        out = []
        cur = key
        for _ in range(limit):
            d = self.direct.get(cur, {})
            if d.get(cls):
                bb, descr = d[cls][0]
                out.append("%s @ %s" % (descr, self.facts.bodies[cur].where(bb)))
                return out
            v = self.via.get(cur, {}).get(cls)
            if not v:
                break
            bb, ck = v
            out.append("-> %s" % self.facts.bodies[ck].qual)
            cur = ck
        return out
