"""Virtual inlining of *new* local helper functions.

The rule instances are anchored in the functions that exist on the reference tree
(known_functions.txt). A later change may move part of such a function into a new private helper
(a behaviour-preserving refactoring) or hide an effect in one (a seeded bug). Either way the rules
must keep seeing the effect where it happens, so every call from a body to a local function whose
name is not in the reference list is inlined into the caller's MIR (arguments bound by assignment,
`return` turned into a jump to the call's continuation), to a bounded depth. On the reference tree
itself nothing is inlined."""
import copy
import os

KNOWN = None


def known_functions():
    global KNOWN
    if KNOWN is None:
        p = os.path.join(os.path.dirname(os.path.abspath(__file__)), "known_functions.txt")
        KNOWN = set(l.rstrip("\n") for l in open(p)) if os.path.exists(p) else None
    return KNOWN


def _map_place(pl, lo):
    pl["l"] += lo
    for p in pl["p"]:
        if isinstance(p, dict) and "i" in p:
            p["i"] += lo


def _walk(x, lo):
    """shift every local index inside a JSON fragment by lo"""
    if isinstance(x, dict):
        if "l" in x and "p" in x and isinstance(x.get("p"), list):
            _map_place(x, lo)
            return
        for k, v in x.items():
            if k in ("f", "sp", "ty", "t") and not isinstance(v, (dict, list)):
                continue
            if k == "f":
                continue
            _walk(v, lo)
    elif isinstance(x, list):
        for v in x:
            _walk(v, lo)


def _shift_term_blocks(t, bo):
    for k in ("to", "otherwise", "drop"):
        if isinstance(t.get(k), int):
            t[k] += bo
    if isinstance(t.get("unwind"), int):
        t["unwind"] += bo
    if "targets" in t:
        t["targets"] = [[v, b + bo] for v, b in t["targets"]]


def inline_call(caller, callee, call_bb):
    """returns True if the call ending caller block call_bb was replaced by callee's body"""
    term = caller["blocks"][call_bb]["term"]
    if term["t"] != "call":
        return False
    diverging = term.get("to") is None  # a `-> !` helper (cold panic / error path): inlined all the same
    lo = len(caller["locals"])
    bo = len(caller["blocks"])
    cal = copy.deepcopy(callee)
    # locals
    caller["locals"].extend(cal["locals"])
    for d in cal.get("debug", []):
        if "pl" in d:
            _map_place(d["pl"], lo)
        d2 = dict(d)
        d2.pop("arg", None)
        caller["debug"].append(d2)
    # blocks
    for blk in cal["blocks"]:
        _walk(blk["st"], lo)
        t = blk["term"]
        for k in ("on", "pl", "args", "dest", "cond", "indirect"):
            if k in t:
                _walk(t[k], lo)
        _shift_term_blocks(t, bo)
    ret_local = lo  # callee _0
    dest = term["dest"]
    cont = term["to"]
    unwind = term.get("unwind")
    for blk in cal["blocks"]:
        t = blk["term"]
        if t["t"] == "return":
            if diverging:
                blk["term"] = {"t": "unreachable", "sp": t["sp"]}
                continue
            blk["st"].append({"s": "assign", "pl": copy.deepcopy(dest), "rv": {"r": "use", "o": {"m": {"l": ret_local, "p": [], "t": cal["locals"][0]["ty"]}}}, "sp": t["sp"]})
            blk["term"] = {"t": "goto", "to": cont, "sp": t["sp"], "inlined_return": True}
        elif t["t"] == "resume":
            if isinstance(unwind, int):
                blk["term"] = {"t": "goto", "to": unwind, "sp": t["sp"]}
    caller["blocks"].extend(cal["blocks"])
    # entry: bind arguments
    st = []
    for i, a in enumerate(term["args"]):
        st.append({"s": "assign", "pl": {"l": lo + 1 + i, "p": [], "t": cal["locals"][1 + i]["ty"] if 1 + i < len(cal["locals"]) else 0}, "rv": {"r": "use", "o": copy.deepcopy(a)}, "sp": term["sp"]})
    blkc = caller["blocks"][call_bb]
    blkc["st"].extend(st)
    blkc["term"] = {"t": "goto", "to": bo, "sp": term["sp"], "inlined_call": callee["key"]}
    caller.setdefault("inlined", []).append(callee["key"])
    try:
        if not diverging:
            thread_returns(caller, lo, bo, bo + len(cal["blocks"]), cont, dest)
    except Exception:
        # threading is an optimisation of precision only: without it the inlined body is still a sound
        # over-approximation (all returns merge in the continuation)
        if os.environ.get("VERIF_DEBUG"):
            raise
    return True


# ------------------------------------------------------------------------------------------
# private return tails
# ------------------------------------------------------------------------------------------
# MIR funnels every `return` of a function through shared drop / return blocks. Once the function is
# inlined, the value each source-level `return` produces (None / Some(x) / Ok(..) / true ..) would
# merge there before it reaches the caller's test of it. Give every return its own straight-line
# tail (tail duplication); thread.py then sends each of them directly to the arm its value selects.


def _succ1(blk):
    t = blk["term"]
    if t["t"] == "goto":
        return t["to"]
    if t["t"] in ("drop", "assert", "call") and t.get("to") is not None:
        return t["to"]
    return None


def _normal_succs(blk):
    t = blk["term"]
    if t["t"] == "switch":
        return [b for _, b in t["targets"]] + [t["otherwise"]]
    s1 = _succ1(blk)
    return [s1] if s1 is not None else []


def thread_returns(caller, lo, start, end, cont, dest):
    """give every assignment of the inlined function's return value its own copy of the epilogue
    (the drop / drop-flag blocks between the assignment and the return)"""
    blocks = caller["blocks"]

    def defines(i):
        blk = blocks[i]
        if any(st["s"] == "assign" and st["pl"]["l"] == lo for st in blk["st"]):
            return True
        t = blk["term"]
        return t["t"] == "call" and t["dest"]["l"] == lo

    region = [i for i in range(start, end) if not blocks[i].get("cleanup")]
    sites = [i for i in region if defines(i) and not blocks[i]["term"].get("inlined_return")]
    if len(sites) < 2 or len(sites) > 24:
        return
    site_set = set(sites)
    for d in sites:
        # forward slice from the definition to the return(s)
        sl = []
        seen = set()
        work = list(_normal_succs(blocks[d]))
        ok = True
        while work and ok:
            b = work.pop()
            if b in seen or b in site_set:
                continue
            if not (start <= b < end) or blocks[b].get("cleanup"):
                continue  # the continuation in the caller (after an inlined return)
            seen.add(b)
            sl.append(b)
            t = blocks[b]["term"]
            if t["t"] == "call" or len(sl) > 60:
                ok = False
                break
            if t.get("inlined_return"):
                continue
            work.extend(_normal_succs(blocks[b]))
        if not ok or not sl or not any(blocks[b]["term"].get("inlined_return") for b in sl):
            continue
        # no cycle inside the slice
        order = {}
        state = {}

        def cyclic(b):
            state[b] = 1
            for s_ in _normal_succs(blocks[b]):
                if s_ in seen and not blocks[b]["term"].get("inlined_return"):
                    if state.get(s_) == 1:
                        return True
                    if state.get(s_) is None and cyclic(s_):
                        return True
            state[b] = 2
            return False

        if any(state.get(b) is None and cyclic(b) for b in sl):
            continue
        base = len(blocks)
        remap = {b: base + k for k, b in enumerate(sl)}
        for b in sl:
            nb = copy.deepcopy(blocks[b])
            t = nb["term"]
            if not t.get("inlined_return"):
                if isinstance(t.get("to"), int) and t["to"] in remap:
                    t["to"] = remap[t["to"]]
                if "targets" in t:
                    t["targets"] = [[v, remap.get(x, x)] for v, x in t["targets"]]
                    t["otherwise"] = remap.get(t["otherwise"], t["otherwise"])
            blocks.append(nb)
        t = blocks[d]["term"]
        if isinstance(t.get("to"), int) and t["to"] in remap:
            t["to"] = remap[t["to"]]
        if "targets" in t:
            t["targets"] = [[v, remap.get(x, x)] for v, x in t["targets"]]
            t["otherwise"] = remap.get(t["otherwise"], t["otherwise"])


def apply(raw_bodies, max_depth=3, max_blocks=1500):
    """raw_bodies: list of body dicts (mutated in place). Returns list of (caller, callee) pairs."""
    known = known_functions()
    if known is None:
        return []
    by_key = {b["key"]: b for b in raw_bodies}
    done = []

    def qual_guess(b):
        return b["path"]

    new_funcs = {b["key"] for b in raw_bodies if b["kind"] in ("Fn", "AssocFn") and b["path"] not in known}
    if not new_funcs:
        return []
    for depth in range(max_depth):
        changed = False
        for b in raw_bodies:
            if len(b["blocks"]) > 4000:
                continue
            for i in range(len(b["blocks"])):
                t = b["blocks"][i]["term"]
                if t["t"] != "call" or "f" not in t:
                    continue
                f = t["f"]
                r = f.get("resolved")
                key = r["key"] if isinstance(r, dict) and r.get("local") else (f["key"] if f.get("local") and not f.get("trait") else None)
                if key is None or key not in new_funcs or key == b["key"]:
                    continue
                callee = by_key.get(key)
                if callee is None or len(callee["blocks"]) > max_blocks or key in b.get("inlined", [])[-8:] and depth > 1:
                    continue
                if inline_call(b, callee, i):
                    done.append((b["path"], callee["path"]))
                    changed = True
        if not changed:
            break
    return done
