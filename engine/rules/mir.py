"""E2 core: loads a fact file written by engine/driver and offers CFG / dataflow utilities.

Nothing here knows about calloop's properties; the rule templates live in templates.py and the
per-property instantiations in props/Cxx.py.
"""
import json
import re
import os
from collections import defaultdict, deque

NO_DESUGAR = bool(os.environ.get("VERIF_NO_DESUGAR"))

# ------------------------------------------------------------------------------------------
# facts
# ------------------------------------------------------------------------------------------


def short_ty_of(types, i, depth=0):
    """short printable form of a type (last path segment, with ADT / dyn / tuple arguments)"""
    t = types[i]
    k = t.get("k")
    if k == "adt":
        seg = t["path"].split("::")[-1]
        inner = []
        if depth < 3:
            for a in t.get("args", []):
                ta = types[a]
                if ta.get("k") in ("adt", "dyn", "tuple"):
                    inner.append(short_ty_of(types, a, depth + 1))
        return seg + ("<" + ",".join(inner) + ">" if inner else "")
    if k == "ref":
        return ("&mut " if t["mut"] else "&") + short_ty_of(types, t["t"], depth + 1)
    if k == "dyn":
        return "dyn " + "+".join(x.split("::")[-1] for x in t.get("traits", []))
    if k == "param":
        return t["name"]
    if k == "closure":
        return "{closure}"
    if k == "tuple":
        return "(" + ",".join(short_ty_of(types, a, depth + 1) for a in t.get("elems", [])) + ")"
    return t["s"]


class Facts:
    def __init__(self, path):
        with open(path) as f:
            d = json.load(f)
        import renames

        # pure renames of private items are undone first (renames.py); everything below sees reference names
        self.renames = renames.normalise(d) if not os.environ.get("VERIF_NO_RENAMES") else []
        self.raw = d
        self.path = path
        self.crate = d["crate"]
        self.nonce = d.get("nonce")
        self.config = d.get("cfg", [])
        self.types = d["types"]
        self.adts = {a["path"]: a for a in d["adts"]}
        self.impls = d["impls"]
        self.consts = {}
        for c in d["consts"]:
            self.consts.setdefault(c["path"], c)
        self.bodies = {}
        # promoted constants that are a reference to a field-less enum variant (`x == Enum::Variant`)
        self.promoted = {(p_["owner"], p_["idx"]): p_ for p_ in d.get("promoted", [])}
        self.capture_names = {b["key"]: [c["name"] for c in b.get("captures", [])] for b in d["bodies"] if b.get("captures")}
        import inline

        import thread

        thread.ADT_DISCR.clear()
        for a in d["adts"]:
            if a.get("kind") == "Enum" and all(isinstance(v.get("discr"), int) for v in a.get("variants", [])):
                thread.ADT_DISCR[a["path"]] = [v["discr"] for v in a["variants"]]
        import desugar

        # order: combinators first, so that an extracted helper written with combinators is inlined in its
        # match form (one assignment of the return value per arm, each with its own epilogue)
        self.expanded_closures = desugar.apply(d["bodies"], d["types"]) if not NO_DESUGAR else {}
        self.inlined = inline.apply(d["bodies"])
        # combinator calls of the caller that consume an inlined helper's closure-free result, and closures of
        # inlined helpers, are picked up by a second pass
        if not NO_DESUGAR and self.inlined:
            self.expanded_closures.update(desugar.apply(d["bodies"], d["types"]))
        self.threaded = {}
        for b in d["bodies"]:
            if b["key"] in self.expanded_closures:
                continue
            n = thread.thread_body(b)
            if n:
                self.threaded[b["path"]] = n
        # a new private helper that was inlined into its callers is analysed there, not on its own
        by_path = {b["path"]: b for b in d["bodies"]}
        self.inlined_helpers = {}
        for caller_path, callee_path in self.inlined:
            cb = by_path.get(callee_path)
            if cb is not None and not str(cb.get("vis", "")).startswith("Public"):
                self.inlined_helpers.setdefault(cb["key"], []).append(caller_path)
        # a closure literal expanded at its (only) use is analysed there, like an inlined helper
        for k, owner in self.expanded_closures.items():
            self.inlined_helpers.setdefault(k, []).append(owner)
        for b in d["bodies"]:
            if b["key"] in self.inlined_helpers:
                continue
            self.bodies[b["key"]] = Body(self, b)
        for b in self.bodies.values():
            b._finish_names()
        self.by_qual = defaultdict(list)
        for b in self.bodies.values():
            self.by_qual[b.qual].append(b)

    # ---- types -----------------------------------------------------------------------
    def ty(self, i):
        return self.types[i]

    def ty_s(self, i):
        return self.types[i]["s"]

    def short_ty(self, i, depth=0):
        return short_ty_of(self.types, i, depth)

    def _short_ty_unused(self, i, depth=0):
        t = self.types[i]
        k = t.get("k")
        if k == "adt":
            seg = t["path"].split("::")[-1]
            inner = []
            if depth < 3:
                for a in t.get("args", []):
                    ta = self.types[a]
                    if ta.get("k") in ("adt", "dyn", "tuple"):
                        inner.append(self.short_ty(a, depth + 1))
            return seg + ("<" + ",".join(inner) + ">" if inner else "")
        if k == "ref":
            return ("&mut " if t["mut"] else "&") + self.short_ty(t["t"], depth + 1)
        if k == "dyn":
            return "dyn " + "+".join(x.split("::")[-1] for x in t.get("traits", []))
        if k == "param":
            return t["name"]
        if k == "closure":
            return "{closure}"
        if k == "tuple":
            return "(" + ",".join(self.short_ty(a, depth + 1) for a in t.get("elems", [])) + ")"
        return t["s"]

    def adt_path(self, i):
        t = self.types[i]
        return t.get("path") if t.get("k") == "adt" else None

    def peel_refs(self, i):
        t = self.types[i]
        while t.get("k") in ("ref", "ptr"):
            i = t["t"]
            t = self.types[i]
        return i

    def owned_guards(self, i, _depth=0):
        """RefCell guards *owned* by a value of this type (not behind a reference).

        returns list of (kind 'Ref'|'RefMut', payload tyid)"""
        t = self.types[i]
        k = t.get("k")
        out = []
        if _depth > 6:
            return out
        if k == "adt":
            if t["path"] in ("std::cell::Ref", "std::cell::RefMut"):
                return [(t["path"].split("::")[-1], t["args"][0])]
            # containers that own their type arguments by value
            if t["path"] in (
                "std::option::Option",
                "std::result::Result",
                "std::mem::ManuallyDrop",
                "std::ops::ControlFlow",
            ):
                for a in t.get("args", []):
                    out += self.owned_guards(a, _depth + 1)
            elif t.get("local") and t["path"] in self.adts:
                for v in self.adts[t["path"]]["variants"]:
                    for f in v["fields"]:
                        out += self.owned_guards(f["ty"], _depth + 1)
        elif k == "tuple":
            for a in t.get("elems", []):
                out += self.owned_guards(a, _depth + 1)
        return out

    # ---- lookup ----------------------------------------------------------------------
    def body(self, qual):
        """exactly one body with this friendly name, else None"""
        l = self.by_qual.get(qual, [])
        return l[0] if len(l) == 1 else None

    def find(self, pred):
        return [b for b in self.bodies.values() if pred(b)]

    def deep_view(self, body, callee_pred, max_depth=3):
        """a copy of `body` in which the calls to local functions selected by callee_pred(callee Body) are inlined (then
        expanded / threaded like every body). For rules about a computation that may sit on either side of a call
        boundary (the eventfd counter decoded in the closure or in the function that reads it)."""
        import copy as _copy
        import inline, desugar, thread

        raw = _copy.deepcopy(body.raw)
        by_key = {b["key"]: b for b in self.raw["bodies"]}
        for _ in range(max_depth):
            changed = False
            for i in range(len(raw["blocks"])):
                t = raw["blocks"][i]["term"]
                if t["t"] != "call" or "f" not in t or raw["blocks"][i].get("cleanup"):
                    continue
                fz = t["f"]
                r = fz.get("resolved")
                key = r["key"] if isinstance(r, dict) and r.get("local") else (fz["key"] if fz.get("local") and not fz.get("trait") else None)
                cb = self.bodies.get(key) if key else None
                if cb is None or key == raw["key"] or not callee_pred(cb):
                    continue
                if inline.inline_call(raw, _copy.deepcopy(cb.raw), i):
                    changed = True
            if not changed:
                break
        desugar.apply([raw] + [b for b in self.raw["bodies"] if b["key"] != raw["key"]], self.raw["types"], rounds=2) if False else None
        thread.thread_body(raw)
        nb = Body(self, raw)
        nb.qual = body.qual
        return nb

    def dropped_helper_bodies(self):
        """Body objects of the new private helpers that were inlined into their callers (and are therefore not in
        self.bodies): needed where a rule looks a function up by its role (signature), not by its name"""
        if getattr(self, "_dropped", None) is None:
            self._dropped = []
            for rb in self.raw["bodies"]:
                if rb["key"] in self.inlined_helpers and rb["key"] not in self.expanded_closures and rb["kind"] in ("Fn", "AssocFn"):
                    b = Body(self, rb)
                    b._finish_names()
                    self._dropped.append(b)
        return self._dropped

    def closures_of(self, body):
        owners = {body.key} | set(body.raw.get("inlined", []))
        return [b for b in self.bodies.values() if b.raw.get("parent") in owners]

    def impls_of_trait(self, trait_path):
        return [i for i in self.impls if i.get("trait") == trait_path]

    def const_value(self, path):
        c = self.consts.get(path)
        return None if c is None else c.get("v")


# ------------------------------------------------------------------------------------------
# helpers on JSON operands/places
# ------------------------------------------------------------------------------------------


def op_place(op):
    if op is None:
        return None
    if "c" in op:
        return op["c"]
    if "m" in op:
        return op["m"]
    return None


def op_const(op):
    return op.get("k") if op else None


def op_is_move(op):
    return "m" in op


def place_local(pl):
    return pl["l"]


def proj_str(p):
    if p == "*":
        return "*"
    if isinstance(p, str):
        return p
    if "f" in p:
        return "." + p["n"]
    if "d" in p:
        return " as " + p["n"]
    if "i" in p:
        return "[_]"
    if "ci" in p:
        return "[%d]" % p["ci"]
    return "?"


def place_str(pl):
    s = "_%d" % pl["l"]
    for p in pl["p"]:
        if p == "*":
            s = "(*%s)" % s
        else:
            s += proj_str(p)
    return s


def op_str(op):
    if "c" in op:
        return place_str(op["c"])
    if "m" in op:
        return "move " + place_str(op["m"])
    if "k" in op:
        return "const " + op["k"]["s"]
    return "?"


class CallSite:
    __slots__ = ("body", "bb", "term", "f")

    def __init__(self, body, bb, term):
        self.body = body
        self.bb = bb
        self.term = term
        self.f = term.get("f")

    @property
    def name(self):
        return self.f["name"] if self.f else None

    @property
    def path(self):
        return self.f["path"] if self.f else None

    @property
    def full(self):
        return self.f["full"] if self.f else None

    @property
    def trait(self):
        return self.f.get("trait") if self.f else None

    @property
    def self_ty(self):
        return self.f.get("self_ty") if self.f else None

    @property
    def resolved(self):
        r = self.f.get("resolved") if self.f else None
        return r if isinstance(r, dict) else None

    @property
    def resolved_key(self):
        r = self.resolved
        return r["key"] if r else None

    @property
    def args(self):
        return self.term["args"]

    @property
    def dest(self):
        return self.term["dest"]

    @property
    def to(self):
        return self.term.get("to")

    @property
    def line(self):
        return self.term["sp"][0]

    @property
    def macro(self):
        return self.term["sp"][1]

    def targs(self):
        return self.f["args"] if self.f else []

    def is_path(self, *paths):
        return self.f is not None and self.f["path"] in paths

    def callee_body(self):
        """local body this call statically resolves to (None for dyn / type-parameter calls)"""
        r = self.resolved
        if r and r.get("local"):
            return self.body.facts.bodies.get(r["key"])
        if self.f and self.f.get("local") and not self.trait:
            return self.body.facts.bodies.get(self.f["key"])
        return None

    def self_ty_desc(self):
        st = self.self_ty
        return self.body.facts.types[st] if st is not None else None

    def describe(self):
        if not self.f:
            return "<indirect call>"
        st = self.self_ty
        if self.trait and st is not None:
            return "<%s as %s>::%s" % (
                self.body.facts.short_ty(st),
                self.trait.split("::")[-1],
                self.name,
            )
        return self.f["path"]

    def __repr__(self):
        return "Call(bb%d %s)" % (self.bb, self.describe())


TRACE_MACROS = {"trace", "warn", "debug", "info", "error", "event", "log", "span"}


class Body:
    def __init__(self, facts, raw):
        self.facts = facts
        self.raw = raw
        self.key = raw["key"]
        self.path = raw["path"]
        self.kind = raw["kind"]
        self.blocks = raw["blocks"]
        self.locals = raw["locals"]
        self.arg_count = raw["arg_count"]
        self.file = raw["span"]["file"]
        self.line = raw["span"]["line"]
        self.name = raw.get("name")
        self.qual = None
        self._succ = None
        self._pred = None
        self._dom = None
        self._defs = None
        self._names = None
        self._thread_jumps()

    # ---- CFG normalisation ---------------------------------------------------------------
    def _thread_jumps(self):
        """`matches!`, `&&`, `||` and friends are lowered to a bool temporary that is assigned a
        constant in each predecessor and switched on in an otherwise empty join block. Redirect
        each such predecessor straight to the target its constant selects (semantics preserving;
        it only removes infeasible paths through the join block)."""
        blocks = self.blocks
        const_defs = {}
        bad = set()
        for i, b in enumerate(blocks):
            for st in b["st"]:
                if st["s"] == "assign" and not st["pl"]["p"]:
                    l = st["pl"]["l"]
                    rv = st["rv"]
                    if rv["r"] == "use" and "k" in rv["o"] and "v" in rv["o"]["k"]:
                        const_defs.setdefault(l, []).append(i)
                    else:
                        bad.add(l)
                elif st["s"] == "assign":
                    bad.add(st["pl"]["l"])
            t = b["term"]
            if t["t"] == "call":
                bad.add(t["dest"]["l"])
        for s_i, sb in enumerate(blocks):
            t = sb["term"]
            if t["t"] != "switch" or sb["st"]:
                continue
            pl = op_place(t["on"])
            if pl is None or pl["p"]:
                continue
            l = pl["l"]
            if l in bad or l not in const_defs or l <= self.arg_count:
                continue
            for p_i in const_defs[l]:
                pb = blocks[p_i]
                pt = pb["term"]
                if pt["t"] != "goto" or pt["to"] != s_i:
                    continue
                val = None
                for st in pb["st"]:
                    if st["s"] == "assign" and not st["pl"]["p"] and st["pl"]["l"] == l:
                        val = st["rv"]["o"]["k"]["v"]
                if val is None:
                    continue
                tgt = t["otherwise"]
                for v, x in t["targets"]:
                    if v == val:
                        tgt = x
                pt["to"] = tgt
                pt["threaded_from"] = s_i

    # ---- naming ----------------------------------------------------------------------
    def _finish_names(self):
        f = self.facts
        raw = self.raw
        if self.kind in ("Closure", "SyntheticCoroutineBody"):
            parent = f.bodies.get(raw.get("parent"))
            idx = self.key.rsplit("::", 1)[-1]
            if parent is None and raw.get("parent") in getattr(f, "inlined_helpers", {}):
                # closure of an inlined helper: attribute it to the function it was inlined into
                for b2 in f.bodies.values():
                    if raw.get("parent") in b2.raw.get("inlined", []) and b2.kind != "Closure":
                        if b2.qual is None:
                            b2._finish_names()
                        self.qual = b2.qual + "::" + idx + "@" + raw["parent"].rsplit("::", 1)[-1]
                        return
            if parent is not None:
                if parent.qual is None:
                    parent._finish_names()
                self.qual = parent.qual + "::" + idx
            else:
                self.qual = self.path
            return
        if self.qual is not None:
            return
        if raw.get("qual_override"):
            self.qual = raw["qual_override"]
            return
        if "impl_self" in raw:
            st = f.short_ty(raw["impl_self"])
            if "impl_trait" in raw:
                self.qual = "<%s as %s>::%s" % (st, raw["impl_trait"].split("::")[-1], self.name)
            else:
                self.qual = "%s::%s" % (st, self.name)
        elif "in_trait" in raw:
            self.qual = "%s::%s" % (raw["in_trait"].split("::")[-1], self.name)
        else:
            self.qual = self.path

    @property
    def impl_trait(self):
        return self.raw.get("impl_trait")

    @property
    def impl_self(self):
        return self.raw.get("impl_self")

    def where(self, bb=None):
        if bb is None:
            return "%s:%d" % (self.file, self.line)
        return "%s:%d" % (self.file, self.blocks[bb]["term"]["sp"][0])

    def local_name(self, l):
        if self._names is None:
            self._names = {}
            for d in self.raw["debug"]:
                pl = d.get("pl")
                if pl is not None and not pl["p"]:
                    self._names.setdefault(pl["l"], d["name"])
        return self._names.get(l)

    def local_ty(self, l):
        return self.locals[l]["ty"]

    def debug_places(self, name):
        return [d["pl"] for d in self.raw["debug"] if d["name"] == name and "pl" in d]

    # ---- CFG -------------------------------------------------------------------------
    def term(self, bb):
        return self.blocks[bb]["term"]

    def succ_edges(self, bb, unwind=False):
        """list of (target, label). label: 'goto' | ('sw', value) | 'otherwise' | 'ret' (call
        return) | 'drop' | 'assert' | 'unwind'"""
        t = self.blocks[bb]["term"]
        k = t["t"]
        out = []
        if k == "goto":
            out.append((t["to"], "goto"))
        elif k == "switch":
            for v, tgt in t["targets"]:
                out.append((tgt, ("sw", v)))
            out.append((t["otherwise"], "otherwise"))
        elif k in ("call", "drop", "assert", "yield"):
            if t.get("to") is not None:
                out.append((t["to"], "ret" if k == "call" else k))
            if k == "yield" and t.get("drop") is not None:
                out.append((t["drop"], "yield_drop"))
        if unwind and isinstance(t.get("unwind"), int):
            out.append((t["unwind"], "unwind"))
        return out

    def succs(self, bb, unwind=False):
        return [x for x, _ in self.succ_edges(bb, unwind)]

    def preds(self, bb):
        if self._pred is None:
            self._pred = defaultdict(list)
            for i in range(len(self.blocks)):
                for s_ in self.succs(i):
                    self._pred[s_].append(i)
        return self._pred[bb]

    def return_blocks(self):
        return [i for i, b in enumerate(self.blocks) if b["term"]["t"] == "return"]

    def is_cleanup(self, bb):
        return self.blocks[bb]["cleanup"]

    def reachable(self, starts, removed_blocks=(), removed_edges=(), unwind=False):
        """set of blocks reachable from `starts` (inclusive) following normal edges, never
        entering a removed block and never following a removed edge (a, b)."""
        removed_blocks = set(removed_blocks)
        removed_edges = set(removed_edges)
        seen = set()
        dq = deque()
        for s_ in starts:
            if s_ not in removed_blocks and s_ not in seen:
                seen.add(s_)
                dq.append(s_)
        while dq:
            b = dq.popleft()
            for n in self.succs(b, unwind):
                if n in seen or n in removed_blocks or (b, n) in removed_edges:
                    continue
                seen.add(n)
                dq.append(n)
        return seen

    def find_path(self, starts, goals, removed_blocks=(), removed_edges=()):
        """a shortest block path from any start to any goal avoiding removed blocks/edges"""
        removed_blocks = set(removed_blocks)
        removed_edges = set(removed_edges)
        goals = set(goals)
        prev = {}
        dq = deque()
        for s_ in starts:
            if s_ not in removed_blocks and s_ not in prev:
                prev[s_] = None
                dq.append(s_)
        while dq:
            b = dq.popleft()
            if b in goals:
                path = []
                while b is not None:
                    path.append(b)
                    b = prev[b]
                return list(reversed(path))
            for n in self.succs(b):
                if n in prev or n in removed_blocks or (b, n) in removed_edges:
                    continue
                prev[n] = b
                dq.append(n)
        return None

    def dominators(self):
        """dom[b] = set of blocks dominating b (normal edges, from bb0)"""
        if self._dom is not None:
            return self._dom
        n = len(self.blocks)
        reach = self.reachable([0])
        order = []
        seen = set()

        def dfs(start):
            stack = [(start, iter(self.succs(start)))]
            seen.add(start)
            while stack:
                node, it = stack[-1]
                adv = False
                for s_ in it:
                    if s_ not in seen:
                        seen.add(s_)
                        stack.append((s_, iter(self.succs(s_))))
                        adv = True
                        break
                if not adv:
                    order.append(node)
                    stack.pop()

        dfs(0)
        rpo = list(reversed(order))
        idx = {b: i for i, b in enumerate(rpo)}
        idom = {0: 0}
        changed = True

        def intersect(a, b):
            while a != b:
                while idx[a] > idx[b]:
                    a = idom[a]
                while idx[b] > idx[a]:
                    b = idom[b]
            return a

        while changed:
            changed = False
            for b in rpo[1:]:
                ps = [p for p in self.preds(b) if p in idom]
                if not ps:
                    continue
                new = ps[0]
                for p in ps[1:]:
                    new = intersect(p, new)
                if idom.get(b) != new:
                    idom[b] = new
                    changed = True
        dom = {}
        for b in rpo:
            s_ = {b}
            x = b
            while x != 0 and x in idom:
                x = idom[x]
                s_.add(x)
            dom[b] = s_
        self._dom = dom
        self._idom = idom
        return dom

    def dominates(self, a, b):
        d = self.dominators()
        return b in d and a in d[b]

    def loops(self):
        """natural loops: header -> set of blocks (normal edges)"""
        dom = self.dominators()
        loops = defaultdict(set)
        for b in dom:
            for s_ in self.succs(b):
                if s_ in dom[b]:  # back edge b -> s_
                    body = {s_, b}
                    stack = [b]
                    while stack:
                        x = stack.pop()
                        if x == s_:
                            continue
                        for p in self.preds(x):
                            if p not in body and p in dom:
                                body.add(p)
                                stack.append(p)
                    loops[s_] |= body
        return loops

    # ---- sites -----------------------------------------------------------------------
    def calls(self, pred=None):
        out = []
        for i, b in enumerate(self.blocks):
            t = b["term"]
            if t["t"] == "call":
                cs = CallSite(self, i, t)
                if pred is None or pred(cs):
                    out.append(cs)
        return out

    def calls_named(self, name, path_contains=None):
        def p(cs):
            if cs.name != name:
                return False
            if path_contains and path_contains not in (cs.path or ""):
                return False
            return True

        return self.calls(p)

    def call_at(self, bb):
        t = self.blocks[bb]["term"]
        return CallSite(self, bb, t) if t["t"] == "call" else None

    def drops(self):
        return [(i, b["term"]) for i, b in enumerate(self.blocks) if b["term"]["t"] == "drop"]

    def statements(self):
        for i, b in enumerate(self.blocks):
            for j, st in enumerate(b["st"]):
                yield i, j, st

    def in_trace_macro(self, bb):
        m = self.blocks[bb]["term"]["sp"][1]
        return m in TRACE_MACROS

    # ---- def/use ----------------------------------------------------------------------
    def defs(self):
        """local -> list of definitions.
        ('assign', bb, idx, stmt) for whole-local assignments, ('call', bb, term) for call
        destinations (whole local). Stores to projections are in self.stores()."""
        if self._defs is not None:
            return self._defs
        d = defaultdict(list)
        st_ = []
        for i, b in enumerate(self.blocks):
            for j, st in enumerate(b["st"]):
                if st["s"] == "assign":
                    pl = st["pl"]
                    if not pl["p"]:
                        d[pl["l"]].append(("assign", i, j, st))
                    else:
                        st_.append((i, j, st))
                elif st["s"] == "setdiscr":
                    st_.append((i, j, st))
            t = b["term"]
            if t["t"] == "call":
                pl = t["dest"]
                if not pl["p"]:
                    d[pl["l"]].append(("call", i, t))
                else:
                    st_.append((i, len(b["st"]), {"s": "calldest", "pl": pl, "term": t}))
        self._defs = d
        self._stores = st_
        return d

    def stores(self):
        self.defs()
        return self._stores

    # ---- access-path resolution ---------------------------------------------------------
    TRANSPARENT = {
        "deref": ".deref",
        "deref_mut": ".deref",
        "borrow": ".borrow",
        "borrow_mut": ".borrow",
        "as_ref": ".asref",
        "as_mut": ".asref",
        "as_deref": ".asref",
        "as_deref_mut": ".asref",
        "clone": ".clone",
        "into": ".into",
        "from": ".into",
        "as_fd": ".as_fd",
        "by_ref": "",
        "into_iter": ".iter",
        "iter": ".iter",
        "iter_mut": ".iter",
        "as_mut_slice": "",
        "unwrap": ".unwrap",
        "expect": ".unwrap",
        "get_mut": ".get_mut",
        "get_ref": ".get_ref",
        "new_unchecked": "",
        "as_mut_ptr": "",
        "branch": ".branch",
    }

    def resolve(self, x, _depth=0, _seen=None):
        """x: operand or place. Returns a set of access paths (root, path-tuple).

        root: ('arg', n) | ('call', bb) | ('const', s) | ('agg', bb, idx) | ('local', l) |
              ('rv', bb, idx)
        path elements: '.field', ' as Variant', '*', '&', '.deref', ... (strings)."""
        if _seen is None:
            _seen = set()
        if "l" in x and "p" in x:
            pl = x
        else:
            pl = op_place(x)
            if pl is None:
                k = x.get("k")
                if k is not None:
                    return {(("const", k["s"]), ())}
                return {(("unknown",), ())}
        base = self._resolve_local(pl["l"], _depth, _seen)
        out = set()
        for root, path in base:
            path = list(path)
            for p in pl["p"]:
                ps = proj_str(p)
                if ps == "*":
                    if path and path[-1] == "&":
                        path.pop()
                    else:
                        path.append("*")
                else:
                    path.append(ps)
            out |= self._through_aggregates(root, tuple(path), _depth, _seen)
        # `from_residual` only ever builds the failure variant (Err / None): reading its success payload is an
        # infeasible alternative of a multiply assigned local (the `?` exit of an inlined helper)
        if any(r[0] == "call" for r, p in out):
            keep = set()
            for r, p in out:
                if r[0] == "call" and p:
                    t_ = self.blocks[r[1]]["term"]
                    if (t_.get("f") or {}).get("name") == "from_residual":
                        if p[:2] == (".branch", " as Continue") or p[0] in (" as Ok", " as Some", ".unwrap"):
                            continue
                keep.add((r, p))
            out = keep
        if not out and _depth == 0:
            return {(("infeasible",), ())}
        return out

    def _through_aggregates(self, root, path, depth, seen):
        """(agg, '.field' ...) -> the operand stored in that field of the aggregate"""
        if root[0] != "agg" or not path or depth > 40:
            return {(root, path)}
        rv = self.agg_at(root[1], root[2])
        rest = list(path)
        # `?` / unwrap applied to a literally built Option / Result: Ok(x)? and Some(x)? continue with x, a
        # literal Err / None never reaches the continuation (infeasible alternative of a multiply assigned local)
        if rest and rest[0] in (".branch", ".unwrap") and rv.get("adt") in ("std::result::Result", "std::option::Option"):
            good = rv.get("variant") in ("Ok", "Some")
            if rest[0] == ".branch":
                if len(rest) >= 3 and rest[1] == " as Continue" and rest[2] == ".0":
                    if not good:
                        return set()
                    rest = [" as " + rv["variant"], ".0"] + rest[3:]
                elif len(rest) >= 2 and rest[1] == " as Break":
                    return set() if good else {(root, path)}
                else:
                    return {(root, path)}
            else:
                if not good:
                    return set()
                rest = [" as " + rv["variant"], ".0"] + rest[1:]
        if rest and rest[0].startswith(" as "):
            if rv.get("variant") != rest[0][4:]:
                # reading the payload of another variant than the one built here: this definition does not
                # reach that read
                return set() if rv.get("kind") == "adt" and "variant" in rv else {(root, path)}
            rest = rest[1:]
        if not rest or not rest[0].startswith("."):
            return {(root, path)}
        name = rest[0][1:]
        idx = None
        if rv.get("kind") == "adt" and name in rv.get("field_names", []):
            idx = rv["field_names"].index(name)
        elif rv.get("kind") == "closure" and name in self.facts.capture_names.get(rv.get("def"), []):
            # the environment of a closure literal expanded in place: captured variable by name
            idx = self.facts.capture_names[rv["def"]].index(name)
        elif name.isdigit() and int(name) < len(rv["fields"]):
            idx = int(name)
        if idx is None or idx >= len(rv["fields"]):
            return {(root, path)}
        out = set()
        for r2, p2 in self.resolve(rv["fields"][idx], depth + 1, seen):
            p2 = list(p2)
            for e in rest[1:]:
                if e == "*":
                    if p2 and p2[-1] == "&":
                        p2.pop()
                    else:
                        p2.append("*")
                else:
                    p2.append(e)
            out |= self._through_aggregates(r2, tuple(p2), depth + 1, seen)
        return out

    def _resolve_local(self, l, depth, seen):
        if depth > 40 or l in seen:
            return {(("local", l), ())}
        seen = seen | {l}
        defs = self.defs().get(l, [])
        if 1 <= l <= self.arg_count and not defs:
            return {(("arg", l), ())}
        if not defs:
            return {(("local", l), ())}
        out = set()
        if 1 <= l <= self.arg_count:
            # a parameter that is also reassigned: its incoming value is one of its values
            out.add((("arg", l), ()))
        for d in defs:
            if d[0] == "assign":
                _, bb, idx, st = d
                rv = st["rv"]
                r = rv["r"]
                if r in ("use", "cast", "wrap_binder"):
                    out |= self.resolve(rv["o"], depth + 1, seen)
                elif r == "ref" or r == "rawptr":
                    for root, path in self.resolve(rv["pl"], depth + 1, seen):
                        out.add((root, path + ("&",)))
                elif r == "agg":
                    out.add((("agg", bb, idx), ()))
                else:
                    out.add((("rv", bb, idx), ()))
            else:
                _, bb, t = d
                f = t.get("f")
                name = f["name"] if f else None
                res = f.get("resolved") if f else None
                res_local = isinstance(res, dict) and res.get("local")
                if name in self.TRANSPARENT and t["args"] and not f.get("local") and not res_local:
                    marker = self.TRANSPARENT[name]
                    for root, path in self.resolve(t["args"][0], depth + 1, seen):
                        path = list(path)
                        had_ref = False
                        if path and path[-1] == "&":
                            path.pop()
                            had_ref = True
                        if marker:
                            path.append(marker)
                        if had_ref or name in ("deref", "deref_mut", "borrow", "borrow_mut", "as_fd"):
                            path.append("&")
                        out.add((root, tuple(path)))
                else:
                    out.add((("call", bb), ()))
        return out

    def mut_borrowed(self):
        """locals whose address is taken mutably (they can change behind the analysis' back)"""
        if getattr(self, "_mutb", None) is None:
            s_ = set()
            for i, j, st in self.statements():
                if st["s"] == "assign" and st["rv"]["r"] in ("ref", "rawptr") and st["rv"].get("mut", True) and not st["rv"]["pl"]["p"]:
                    s_.add(st["rv"]["pl"]["l"])
            self._mutb = s_
        return self._mutb

    def agg_at(self, bb, idx):
        return self.blocks[bb]["st"][idx]["rv"]

    def describe_ap(self, ap):
        root, path = ap
        if root[0] == "arg":
            n = self.local_name(root[1]) or "_%d" % root[1]
            s = "arg:" + n
        elif root[0] == "call":
            cs = self.call_at(root[1])
            s = "call:" + (cs.describe() if cs else "?")
        elif root[0] == "const":
            s = "const:" + root[1]
        elif root[0] == "agg":
            rv = self.agg_at(root[1], root[2])
            s = "agg:" + (rv.get("adt", rv.get("kind")) + ("::" + rv["variant"] if "variant" in rv else ""))
        elif root[0] == "local":
            s = "local:" + (self.local_name(root[1]) or "_%d" % root[1])
        else:
            s = ":".join(str(r) for r in root)
        return s + "".join(path)

    def roots_str(self, x):
        return sorted(self.describe_ap(ap) for ap in self.resolve(x))

    # ---- branch conditions -------------------------------------------------------------
    def _reaching_def(self, l, at):
        """the one whole-local definition of l that can reach block `at` (a local assigned on several paths - the return
        value of an inlined helper after jump threading - has, at a given use, usually one definition that reaches it)"""
        defs = self.defs().get(l, [])
        if len(defs) <= 1:
            return defs[0] if defs else None
        blocks = [d[1] for d in defs]
        if len(set(blocks)) != len(blocks):
            return None
        for d in defs:
            if d[1] == at and d[0] == "assign":
                return d
        reach = []
        for d in defs:
            others = set(blocks) - {d[1]}
            t = self.blocks[d[1]]["term"]
            starts = [t["to"]] if d[0] == "call" and t.get("to") is not None else self.succs(d[1])
            if at in self.reachable([s_ for s_ in starts if s_ not in others], removed_blocks=others):
                reach.append(d)
        return reach[0] if len(reach) == 1 else None

    def expr(self, op, depth=0, at=None):
        """symbolic expression of an operand (for switch conditions):
        ('const', v) | ('call', bb) | ('discr', place) | ('bin', op, a, b) | ('not', e) |
        ('place', place_str) | ('agg', ...). `at`: the block of the use (selects the reaching definition of a local
        that is assigned on several paths)"""
        k = op.get("k") if isinstance(op, dict) else None
        if k is not None:
            return ("const", k.get("v", k["s"]))
        pl = op_place(op)
        if pl is None:
            return ("unknown",)
        if pl["p"] or depth > 12:
            return ("place", place_str(pl), pl)
        l = pl["l"]
        defs = self.defs().get(l, [])
        if l in self.mut_borrowed():
            return ("place", place_str(pl), pl)
        if len(defs) != 1:
            d = self._reaching_def(l, at) if at is not None and defs else None
            if d is None:
                return ("place", place_str(pl), pl)
        else:
            d = defs[0]
        if d[0] == "call":
            return ("call", d[1])
        st = d[3]
        rv = st["rv"]
        r = rv["r"]
        at2 = d[1] if at is not None else None
        if r == "use" or r == "cast":
            return self.expr(rv["o"], depth + 1, at2)
        if r == "un" and rv["op"] == "Not":
            return ("not", self.expr(rv["a"], depth + 1, at2))
        if r == "bin":
            return ("bin", rv["op"], self.expr(rv["a"], depth + 1, at2), self.expr(rv["b"], depth + 1, at2))
        if r == "discr":
            return ("discr", place_str(rv["pl"]), rv["pl"])
        return ("rv", d[1], d[2])

    def switch_expr(self, bb):
        t = self.blocks[bb]["term"]
        if t["t"] != "switch":
            return None
        return self.expr(t["on"], at=bb)

    def bool_edges(self, bb):
        """for a switch on a boolean-like operand: (true_targets, false_targets) in terms of the
        *un-negated* root expression, plus that root expression."""
        t = self.blocks[bb]["term"]
        if t["t"] != "switch":
            return None
        e = self.expr(t["on"], at=bb)
        neg = False
        while e[0] == "not":
            neg = not neg
            e = e[1]
        zero = [tgt for v, tgt in t["targets"] if v == 0]
        nonzero = [tgt for v, tgt in t["targets"] if v != 0]
        if zero:
            nonzero = nonzero + [t["otherwise"]]
        else:
            # targets only list non-zero values: otherwise = zero or anything else
            zero = [t["otherwise"]]
        tr, fa = (zero, nonzero) if neg else (nonzero, zero)
        return e, tr, fa

    def switches_on_call(self, call_bb):
        """switch blocks whose (possibly negated / discriminant-of) operand is the result of the
        call ending block call_bb. Returns list of (switch_bb, mode) with mode 'bool' or 'discr'."""
        out = []
        cs = self.call_at(call_bb)
        if cs is None:
            return out
        dest = cs.dest
        for i, b in enumerate(self.blocks):
            t = b["term"]
            if t["t"] != "switch":
                continue
            e = self.expr(t["on"], at=i)
            while e[0] == "not":
                e = e[1]
            if e == ("call", call_bb):
                out.append((i, "bool"))
            elif e[0] == "discr":
                pl = e[2]
                if pl["l"] == dest["l"] and not dest["p"]:
                    out.append((i, "discr"))
                else:
                    # discriminant of a copy/move of the result
                    for ap in self.resolve(pl):
                        if ap[0] == ("call", call_bb):
                            out.append((i, "discr"))
                            break
        return out


def load(path):
    return Facts(path)
