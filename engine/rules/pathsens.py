"""Path-sensitive second opinion for the all-exits rules (T2).

The plain search of `templates.t2_all_exits` is path-insensitive: it reports a block path from a start to an exit
that avoids the required blocks, whether or not an execution can take it. Two tests of the same value on one path

    match ret { PostAction::Remove => {..} .. }          // arm taken: ret is Remove
    ..
    if ret == PostAction::Remove { entry.source = None } // the false edge is infeasible on that path

produce such infeasible paths (the guidance's top source of false reports). This module repeats the search over
states (block, known values), where "known values" is the constant / enum-variant knowledge of `thread.py`'s
transfer functions (constants, literal aggregates, discriminant reads, the refinement a taken switch edge gives,
`Try::branch`, and - here - the derived `==` / `!=` of field-less enums). An edge whose switch operand is known
to select another target is not followed. Everything unknown is followed, so a path this search cannot refute is
still reported: it only removes reports, and only when every avoiding path contains a decided test taken the
wrong way. Nothing here depends on calloop."""
import thread

MAX_STATES = 60000


class _Ctx:
    def __init__(self, body):
        self.body = body
        raw = body.raw
        self.blocks = raw["blocks"]
        self.IN, self.OUT, self.untracked = thread.analyse(raw)
        # x = &L (unique whole-local definition): what a reference argument of `eq` points to
        defs = {}
        for blk in self.blocks:
            for st in blk["st"]:
                if st["s"] == "assign" and not st["pl"]["p"]:
                    defs.setdefault(st["pl"]["l"], []).append(st["rv"])
            t = blk["term"]
            if t["t"] == "call" and not t["dest"]["p"]:
                defs.setdefault(t["dest"]["l"], []).append(None)
        self.ref_of = {}
        self.copy_of = {}
        for l, ds in defs.items():
            if len(ds) == 1 and ds[0] is not None:
                rv = ds[0]
                if rv["r"] == "ref" and not rv.get("mut") and not rv["pl"]["p"]:
                    self.ref_of[l] = rv["pl"]["l"]
                elif rv["r"] == "ref" and not rv.get("mut") and rv["pl"]["p"] == ["*"]:
                    self.copy_of[l] = rv["pl"]["l"]  # reborrow &*x
                elif rv["r"] == "use":
                    o = rv["o"]
                    pl = o.get("c") or o.get("m")
                    if pl is not None and not pl["p"]:
                        self.copy_of[l] = pl["l"]
                    elif o.get("k") is not None:
                        self.copy_of[l] = ("const", o)
        self.fieldless = {}
        # locals whose value can decide a branch: switch operands, discriminant subjects, pointees of `==` arguments,
        # and whatever is copied / wrapped into them. States are projected onto these (bounds the search).
        rel = set()
        for blk in self.blocks:
            t = blk["term"]
            if t["t"] == "switch":
                l = thread._whole_local(t["on"])
                if l is not None:
                    rel.add(l)
            for st in blk["st"]:
                if st["s"] == "assign" and st["rv"]["r"] == "discr":
                    rel.add(st["rv"]["pl"]["l"])
            if t["t"] == "call" and (t.get("f") or {}).get("name") in ("eq", "ne"):
                for a in t["args"]:
                    pl = a.get("c") or a.get("m")
                    x = pl["l"] if pl is not None else None
                    for _ in range(6):
                        if x in self.ref_of:
                            rel.add(self.ref_of[x])
                            break
                        x = self.copy_of.get(x)
                        if x is None or isinstance(x, tuple):
                            break
        changed = True
        while changed:
            changed = False
            for blk in self.blocks:
                for st in blk["st"]:
                    if st["s"] != "assign" or st["pl"]["l"] not in rel:
                        continue
                    rv = st["rv"]
                    ops = [rv.get("o"), rv.get("a")] + list(rv.get("fields", []))
                    for o in ops:
                        pl = (o or {}).get("c") or (o or {}).get("m")
                        if pl is not None and pl["l"] not in rel:
                            rel.add(pl["l"])
                            changed = True
                t = blk["term"]
                if t["t"] == "call" and t["dest"]["l"] in rel and (t.get("f") or {}).get("name") in ("branch", "eq", "ne"):
                    for o in t["args"]:
                        pl = o.get("c") or o.get("m")
                        if pl is not None and pl["l"] not in rel:
                            rel.add(pl["l"])
                            changed = True
        self.relevant = rel

    def is_fieldless(self, adt):
        if adt not in self.fieldless:
            a = self.body.facts.adts.get(adt)
            self.fieldless[adt] = bool(a) and str(a.get("kind", "enum")).lower() == "enum" and all(not v.get("fields") for v in a["variants"])
        return self.fieldless[adt]

    def pointee_value(self, known, op, depth=0):
        """known variant of what a `&Enum` operand points to"""
        if depth > 6:
            return None
        k = op.get("k")
        if k is not None:
            pv = self.body_promoted(k)
            return pv
        pl = op.get("c") or op.get("m")
        if pl is None or pl["p"]:
            return None
        l = pl["l"]
        if l in self.ref_of:
            return known.get(self.ref_of[l])
        c = self.copy_of.get(l)
        if isinstance(c, tuple):
            return self.body_promoted(c[1].get("k") or {})
        if c is not None:
            return self.pointee_value(known, {"c": {"l": c, "p": []}}, depth + 1)
        return None

    def body_promoted(self, k):
        import templates as T

        pv = T.promoted_variant(self.body, {"k": k})
        if pv is None:
            return None
        return ("variant", pv[0], pv[2], None, None)

    def step(self, bb, known):
        """[(successor, state)] over the normal edges that the knowledge does not rule out"""
        blk = self.blocks[bb]
        st = thread.flow_statements(blk, dict(known), self.untracked)
        t = blk["term"]
        # derived equality of field-less enums on two known variants
        eqv = None
        if t["t"] == "call":
            f = t.get("f") or {}
            if f.get("name") in ("eq", "ne") and (f.get("trait") or "").endswith("PartialEq") and len(t["args"]) == 2:
                a = self.pointee_value(st, t["args"][0])
                b = self.pointee_value(st, t["args"][1])
                if a is not None and b is not None and a[0] == "variant" and b[0] == "variant":
                    adt = a[1] or b[1]
                    if adt is not None and (a[1] in (None, adt)) and (b[1] in (None, adt)) and self.is_fieldless(adt) and a[2] is not None and b[2] is not None:
                        same = a[2] == b[2]
                        eqv = ("const", int(same if f.get("name") == "eq" else not same))
        st = thread.flow_terminator(blk, st, self.untracked)
        if eqv is not None and not t["dest"]["p"] and t["dest"]["l"] not in self.untracked:
            st[t["dest"]["l"]] = eqv
        if t["t"] == "switch":
            v = thread._op_value(st, t["on"])
            if v is not None and v[0] == "const":
                tgt = t["otherwise"]
                for tv, tb in t["targets"]:
                    if tv == int(v[1]):
                        tgt = tb
                return [(tgt, st)]
            # the subject's variant may be known without the operand being a tracked constant
            out = []
            l, subj = thread._switch_subject(blk)
            listed = {tv for tv, _ in t["targets"]}
            for tv, tb in t["targets"]:
                s2 = st
                if subj is not None and subj not in self.untracked and st.get(subj) is None:
                    s2 = dict(st)
                    s2[subj] = ("variant", None, tv, None, None)
                out.append((tb, s2))
            out.append((t["otherwise"], st))
            return out
        return [(s_, st) for s_ in thread._normal_succs(blk)]

    def project(self, st):
        return {k: v for k, v in st.items() if k in self.relevant}


def _key(known):
    return tuple(sorted((k, v) for k, v in known.items()))


def find_feasible_path(body, starts, goals, removed_blocks=(), removed_edges=()):
    """like Body.find_path, over (block, knowledge) states. Returns a block path, None when every avoiding path is
    refuted, or the string 'budget' when the search was cut short (the caller keeps its report)."""
    ctx = getattr(body, "_pathsens", None)
    if ctx is None:
        ctx = body._pathsens = _Ctx(body)
    removed_blocks = set(removed_blocks)
    removed_edges = set(removed_edges)
    goals = set(goals)
    from collections import deque

    dq = deque()
    prev = {}
    for s_ in starts:
        if isinstance(s_, tuple):
            # an edge: what is known at the end of its source block, refined by the edge
            a, tb = s_[0], s_[1]
            if tb in removed_blocks:
                continue
            base = dict(ctx.IN[a] or {}) if ctx.IN[a] is not None else {}
            cands = [st for nb, st in ctx.step(a, base) if nb == tb]
            if len(s_) > 2:
                # (switch block, target, value): the arm of that value (two values may share a target)
                blk = ctx.blocks[a]
                st0 = thread.flow_statements(blk, dict(base), ctx.untracked)
                l, subj = thread._switch_subject(blk)
                if subj is not None and subj not in ctx.untracked:
                    st0[subj] = ("variant", None, s_[2], None, None)
                if l is not None and l not in ctx.untracked:
                    st0[l] = ("const", s_[2])
                cands = [st0]
            for st in cands:
                st = ctx.project(st)
                k = (tb, _key(st))
                if k not in prev:
                    prev[k] = None
                    dq.append((tb, st, k))
            continue
        if s_ in removed_blocks or s_ is None:
            continue
        init = ctx.project(dict(ctx.IN[s_] or {}) if s_ < len(ctx.IN) and ctx.IN[s_] is not None else {})
        k = (s_, _key(init))
        if k not in prev:
            prev[k] = None
            dq.append((s_, init, k))
    n = 0
    while dq:
        b, known, k = dq.popleft()
        n += 1
        if n > MAX_STATES:
            return "budget"
        if b in goals:
            path = []
            while k is not None:
                path.append(k[0])
                k = prev[k]
            return list(reversed(path))
        normal = set(body.succs(b))
        for nb, st in ctx.step(b, known):
            if nb not in normal or nb in removed_blocks or (b, nb) in removed_edges:
                continue
            st = ctx.project(st)
            k2 = (nb, _key(st))
            if k2 in prev:
                continue
            prev[k2] = k
            dq.append((nb, st, k2))
    return None
