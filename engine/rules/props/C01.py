"""C01 — callbacks fire only for their own live registration and a real cause."""
from mir import op_place, place_str
import templates as T
from core import path_descr, AnchorMissing
from props import common
from props.common import DispatchLoop

LEVEL = "other"
CONFIGS = ["full", "book", "default"]
NOT_DECIDED = [
    "attribution over whole histories; that the kernel returns the key it was given",
    "user-written composite sources",
    "the re-arm-with-identical-token case for timers (a C05 clause)",
    "the 2^16 generation wrap (quantifier excludes it; arithmetic of the bump is C20)",
]
EXPLANATION = (
    "Decides on the MIR: (1) SourceList::get/get_mut return Ok only on the true edge of same_source_as, which is true only when "
    "both id and version are equal; (2) the slot vector and the `source` field are written only by a frozen set of functions; (3) "
    "in the batch loop the dispatcher is looked up with the event's own token and receives the event's own readiness/token, and "
    "Poll::poll builds event tokens from the poller key / the popped timer token without arithmetic; (4) a reused slot gets a new "
    "generation on every path; (5) Generic and Timer call back only on the edge where the event token equals their recorded "
    "token (an unregistered source has none); (6) every wrapper source passes its own readiness and token to its inner source; "
    "(7) TokenFactory::token returns the current token and stores its successor."
)


def slots_never_removed(ck, C):
    """the slot vector only ever grows: removing a slot would let its index be re-created at
    generation 0 and hand out (id, version) pairs that were already used"""
    f = ck.facts
    SHRINK = ("pop", "remove", "swap_remove", "truncate", "clear", "drain", "retain", "retain_mut", "split_off", "dedup", "resize", "take")
    n = 0
    for b in f.bodies.values():
        for cs in b.calls():
            if b.is_cleanup(cs.bb) or not cs.f or not cs.args:
                continue
            a0 = cs.args[0]
            pl = a0.get("m") or a0.get("c")
            if pl is None:
                continue
            is_slots = False
            for r, p in b.resolve(a0):
                if ".sources" in p:
                    # the field of SourceList (not LoopInner.sources, which is the RefCell<SourceList>)
                    idx = len(p) - 1 - list(reversed(p)).index(".sources")
                    rest = p[idx + 1:]
                    if all(x in ("&", "*", ".deref") for x in rest) and "SourceEntry" in f.types[f.peel_refs(pl["t"])]["s"]:
                        is_slots = True
            if is_slots:
                n += 1
                if cs.name in SHRINK and ("Vec" in cs.f["path"] or "slice" in cs.f["path"]):
                    ck.violation(C, "T7-who-may-call", b, "slot-vector-shrinks:%s" % cs.name, "a slot is physically removed from the source list (%s): its index is later re-created at generation 0, so tokens and poller keys that were already issued become valid again for an unrelated source" % cs.name, site=b.where(cs.bb))
    ck.ok(C, "T7-who-may-call", "list::SourceList", "slot-vector-only-grows", "%d operations on the slot vector inspected, none shrinks it" % n, site="src/list.rs")
    ck.floor(C, "operations on the slot vector", n, 3)


def token_factory_rules(ck, C):
    f = ck.facts
    # every built-in source draws a fresh token from the factory on every (re)registration, on every path,
    # and registers under exactly that token (otherwise two sub-sources of one composite source share a key)
    for q, callee, path in (("<Generic as EventSource>::register", "register", "sys::Poll::"), ("<Generic as EventSource>::reregister", "reregister", "sys::Poll::"), ("<Timer as EventSource>::register", "insert", "sources::timer::TimerWheel::")):
        g = ck.opt_body(q)
        if g is None:
            ck.anchor_missing(C, "T6-provenance", q)
            continue
        tk = T.calls(g, name="token", path="TokenFactory::token")
        reg = [cs for cs in T.calls(g, name=callee) if cs.f["path"].startswith(path)]
        for r_ in reg:
            targ = T.arg_by_type(g, r_, "sys::Token", 4 if callee != "insert" else 2)
            roots = {r for r, p in g.resolve(targ)}
            only = bool(tk) and roots and all(r[0] == "call" and r[1] in [c.bb for c in tk] for r in roots)
            dom = bool(tk) and T.t3_dominated_by_any(g, r_.bb, [c.bb for c in tk])
            ck.verdict(only and dom, C, "T6-provenance", g, "registers-under-fresh-factory-token", "the token registered is, on every path, the one just drawn from the TokenFactory (the factory advances on every registration)", "the source can (re)register under a token that was not freshly drawn from the TokenFactory (e.g. its previously stored token): the factory does not advance, and the next sub-source of the same composite source is handed the same token", site=g.where(r_.bb))
    # .. and a re-registration never keeps the old arming with its old token: the factory restarts at sub-id 0 for every
    # re-registration of a composite source, so a child that returns early ("still armed for the same deadline") keeps a
    # token its next sibling is about to be handed
    tr = ck.opt_body("<Timer as EventSource>::reregister")
    if tr is None:
        ck.anchor_missing(C, "T2-all-exits", "<Timer as EventSource>::reregister")
    else:
        retire = [cs.bb for cs in tr.calls() if not tr.is_cleanup(cs.bb) and ((cs.callee_body() is not None and cs.callee_body().qual == "<Timer as EventSource>::unregister") or (cs.name == "cancel" and cs.f and "TimerWheel" in cs.f["path"]) or (cs.name in ("take", "replace") and cs.args and T.path_has(tr, cs.args[0], ".registration")))]
        okr = [i for i, j, st in tr.statements() if st["s"] == "assign" and st["pl"]["l"] in T.ret_locals(tr) and st["rv"]["r"] == "agg" and st["rv"].get("variant") == "Ok" and not tr.is_cleanup(i)]
        # (the Ok may also be the one returned by the delegated register())
        okr += [cs.bb for cs in tr.calls() if cs.callee_body() is not None and cs.callee_body().qual == "<Timer as EventSource>::register" and not tr.is_cleanup(cs.bb)]
        bad = T.t2_all_exits(tr, [0], retire, exits=okr) if retire and okr else [0]
        ck.verdict(bad is None, C, "T2-all-exits", tr, "reregister-retires-old-arming", "every successful re-registration of a timer first retires its previous arming (and with it the previous token)", "Timer::reregister can succeed while keeping its previous arming and token: in a composite source the TokenFactory restarts for every re-registration, so the next sibling is handed the token the timer still uses and receives the timer's expiry as its own event", site=tr.where(), path=path_descr(tr, bad) if bad else None)
    # ---- clause 7: sub-token allocation ------------------------------------------------------------------------
    tf = ck.opt_body("TokenFactory::token")
    if tf is None:
        ck.anchor_missing(C, "T6-provenance", "TokenFactory::token")
    else:
        inc = T.calls(tf, name="increment_sub_id")
        st_next = [(i, st) for i, j, st in T.stores_to_field(tf, "next_token")]
        ret = [(i, st) for i, j, st in tf.statements() if st["s"] == "assign" and st["pl"]["l"] == 0 and not tf.is_cleanup(i)]
        # the same exchange spelled mem::replace(&mut self.next_token, successor): it stores its second argument and
        # hands back the old value
        swaps = [c for c in T.calls(tf, name="replace", path="std::mem::replace") if not tf.is_cleanup(c.bb) and T.path_has(tf, c.args[0], ".next_token")]
        ok_ret = any(st["rv"]["r"] == "agg" and st["rv"]["fields"] and ((T.path_has(tf, st["rv"]["fields"][0], ".next_token") and not T.resolves_to_call(tf, st["rv"]["fields"][0], [c.bb for c in inc])) or T.resolves_to_call(tf, st["rv"]["fields"][0], [c.bb for c in swaps])) for i, st in ret)
        ok_store = bool(inc) and (any(T.resolves_to_call(tf, st["rv"]["o"], [c.bb for c in inc]) for i, st in st_next if st["rv"]["r"] == "use") or any(T.resolves_to_call(tf, c.args[1], [x.bb for x in inc]) for c in swaps)) and all(T.path_has(tf, c.args[0], ".next_token") for c in inc)
        store_sites = [i for i, st in st_next] + [c.bb for c in swaps]
        bad = T.t2_all_exits(tf, [0], store_sites) if store_sites else [0]
        ck.verdict(ok_ret and ok_store and bad is None, C, "T6-provenance", tf, "returns-current/stores-successor", "token() returns the current sub-token and stores increment_sub_id() of it on every path", "TokenFactory::token does not return the current token and advance to its successor (two sub-sources would share a token)", site=tf.where())
    tfn = ck.opt_body("TokenFactory::new")
    if tfn is not None:
        fs = T.calls(tfn, name="forget_sub_id")
        ck.verdict(bool(fs) and all(T.resolves_to_arg(tfn, c.args[0], 1) for c in fs), C, "T6-provenance", tfn, "starts-at-sub-id-0-of-given-token", "a factory starts at sub-id 0 of the slot's token", "TokenFactory::new does not start from the given token with the sub-id cleared", site=tfn.where())


def run(ck):
    f = ck.facts
    # ---- clause 1: generation-checked lookup -----------------------------------------------------
    for q in ("SourceList::get", "SourceList::get_mut"):
        b = ck.opt_body(q)
        if b is None:
            ck.anchor_missing("1", "T4-guarded-by", q)
            continue
        ssa = T.calls(b, name="same_source_as")
        oks = [(i, j, st) for i, j, st in b.statements() if st["s"] == "assign" and st["pl"]["l"] in T.ret_locals(b) and st["rv"]["r"] == "agg" and st["rv"].get("variant") == "Ok" and not b.is_cleanup(i)]
        ck.floor("1", q + ": same_source_as test + Ok return", len(ssa) + len(oks), 2)
        for i, j, st in oks:
            ok = False
            for g in ssa:
                tr, fa = T.bool_split(b, g.bb)
                a_entry = any(T.path_has(b, a, ".token") for a in g.args)
                a_tok = any(T.resolves_to_arg(b, a, 2) for a in g.args)
                if tr and a_entry and a_tok and T.reachable_only_via(b, i, tr):
                    ok = True
            ck.verdict(ok, "1", "T4-guarded-by", b, "Ok(entry)-only-if-same_source_as(entry.token, token)", "the entry is returned only on the true edge of the generation check between the slot's token and the caller's token", "the slot is returned without the generation check against the caller's token (a stale token / an event of a removed source would reach the new occupant of the slot)", site=b.where(i))
        # the slot examined is the one the token names
        gi = T.calls(b, name="get_id")
        idx = [cs for cs in T.calls(b, name=("get", "get_mut", "index", "index_mut", "get_unchecked")) if cs.f["path"].startswith("core::slice") or "Vec" in cs.f["path"]]
        ck.verdict(bool(gi) and all(T.resolves_to_arg(b, g.args[0], 2) for g in gi) and bool(idx) and all(T.resolves_to_call(b, c.args[1], [g.bb for g in gi]) for c in idx), "1", "T6-provenance", b, "slot-index-is-token-id", "the slot is indexed by the id of the caller's token", "the slot index is not the id of the caller's token", site=b.where())
    ss = ck.opt_body("TokenInner::same_source_as")
    if ss is None:
        ck.anchor_missing("1", "T4-guarded-by", "TokenInner::same_source_as")
    else:
        paths = T.enumerate_paths(ss)
        bad = None
        npaths = 0
        for path in paths or []:
            assumed = set()
            ret = None
            for bb, edge in path:
                for st in ss.blocks[bb]["st"]:
                    if st["s"] == "assign" and st["pl"]["l"] == 0 and not st["pl"]["p"]:
                        rv = st["rv"]
                        if rv["r"] == "use" and "k" in rv["o"]:
                            ret = ("const", rv["o"]["k"].get("v"))
                        elif rv["r"] == "bin":
                            ret = ("cmp", T.field_cmp(ss, rv))
                        else:
                            e = ss.expr(rv["o"]) if rv["r"] == "use" else None
                            ret = ("expr", e)
                if edge is not None and ss.blocks[bb]["term"]["t"] == "switch":
                    tgt, lab = edge
                    e, tr, fa = ss.bool_edges(bb)
                    if e[0] == "bin":
                        # find the rvalue again to get field names
                        on = op_place(ss.blocks[bb]["term"]["on"])
                        for d in ss.defs().get(on["l"], []):
                            if d[0] == "assign":
                                fc = T.field_cmp(ss, d[3]["rv"])
                                if fc and fc[0] == "Eq" and tgt in tr:
                                    assumed.add(fc[1])
                                if fc and fc[0] == "Ne" and tgt in fa:
                                    assumed.add(fc[1])
            npaths += 1
            may_true = not (ret and ret[0] == "const" and ret[1] == 0)
            if may_true:
                have = set(assumed)
                if ret and ret[0] == "cmp" and ret[1] and ret[1][0] == "Eq" and ret[1][1] == ret[1][3]:
                    have.add(ret[1][1])
                if not {"id", "version"} <= have:
                    bad = sorted(have)
        if not (bad is None and npaths > 0):
            # written another way (`self.forget_sub_id() == other.forget_sub_id()`): decide it by evaluation on every
            # equal / different pattern of the three fields - true exactly when id and version agree, whatever the sub-ids
            from props import C20 as _C20

            flds = _C20._tok_fields(f)
            sem = _C20.semantic_token_equality(f, ss, flds, want=lambda pat: not pat.get("id") and not pat.get("version")) if sorted(flds) == ["id", "sub_id", "version"] else None
            if sem is not None:
                ck.verdict(sem == "", "1", "T4-guarded-by", ss, "true-only-if-id-and-version-equal", "evaluated on every equal/different pattern of (id, version, sub_id), both argument orders: true exactly when id and version agree", "same_source_as is wrong: %s (a sub-token is not recognised as belonging to its source, or a token of another generation / slot is)" % sem, site=ss.where())
                bad, npaths = None, -1
        if npaths != -1:
          ck.verdict(bad is None and npaths > 0, "1", "T4-guarded-by", ss, "true-only-if-id-and-version-equal", "every path on which same_source_as can answer true has compared both `id` and `version` for equality (%d paths)" % npaths, "same_source_as can answer true after comparing only %s: the slot generation is not part of the identity check, so a token of a removed source matches the slot's next occupant" % bad, site=ss.where())

    # ---- clause 2: who writes the `source` field of a slot -------------------------------------------
    writers = set()
    for b in f.bodies.values():
        for i, j, st in T.stores_to_field(b, "source"):
            if f.adt_path(f.peel_refs(b.local_ty(st["pl"]["l"]))) in ("list::SourceEntry",) or any(isinstance(p, dict) and p.get("n") == "source" for p in st["pl"]["p"]):
                if "DispatcherInner" in f.types[b.local_ty(st["pl"]["l"])]["s"] or "TransientSource" in f.types[b.local_ty(st["pl"]["l"])]["s"]:
                    continue
                if f.adt_path(f.peel_refs(b.local_ty(st["pl"]["l"]))) == "list::SourceEntry":
                    writers.add(b.qual)
        for cs in T.calls(b, name=("take", "replace", "insert", "get_or_insert")):
            if T.path_has(b, cs.args[0], ".source") and "Rc<dyn sources::EventDispatcher" in f.types[cs.args[0].get("m", cs.args[0].get("c", {"t": 0}))["t"]]["s"]:
                writers.add(b.qual)
    writers = {w.split("::{closure")[0] for w in writers}
    expected = {"LoopHandle::register_dispatcher", "Async::new", "LoopHandle::remove", "EventLoop::dispatch_events", "<LoopInner as IoLoopInner>::kill"}
    in_list_module = {w for w in writers if f.by_qual.get(w) and f.by_qual[w][0].file.endswith("list.rs")}
    for w in sorted(writers - expected - in_list_module):
        ck.violation("2", "T7-who-may-write", w, "writes:SourceEntry.source", "a new writer of the slot contents (only insertion, remove(), the Remove post-action and Async teardown may write a slot)", site=f.by_qual[w][0].where() if f.by_qual.get(w) else "")
    ck.ok("2", "T7-who-may-write", "<crate>", "writers-of:SourceEntry.source", "writers found: %s" % sorted(writers), site="")
    ck.floor("2", "writers of SourceEntry.source", len((writers & expected) | in_list_module), 4)

    # ---- clause 3: every dispatched event is looked up by its own key -------------------------------------
    dl = DispatchLoop(ck, "3")
    b = dl.body
    ev_root = ("call", dl.header)

    def from_event(op, field):
        return any(r == ev_root and field in p for r, p in b.resolve(op))

    gets = [cs for cs in T.calls(b, name="get", path="SourceList") if cs.bb in dl.blocks and b.dominates(cs.bb, dl.pe.bb)]
    ok_lookup = any(T.tainted_by_call(b, dl.pe.args[0], [g.bb]) for g in gets)
    tok_ok = False
    for g in gets:
        if T.tainted_by_call(b, dl.pe.args[0], [g.bb]):
            # token arg: event.token (possibly through forget_sub_id)
            a = g.args[1]
            if from_event(a, ".token"):
                tok_ok = True
            for r, p in b.resolve(a):
                if r[0] == "call":
                    c2 = b.call_at(r[1])
                    if c2.name == "forget_sub_id" and from_event(c2.args[0], ".token"):
                        tok_ok = True
    ck.verdict(ok_lookup and tok_ok, "3", "T6-provenance", b, "dispatcher-looked-up-by-event-token", "the dispatcher that processes an event is the result of a generation-checked lookup of that event's token", "the dispatcher given an event is not looked up by that event's own token", site=b.where(dl.pe.bb))
    ck.verdict(from_event(dl.pe.args[1], ".readiness") and from_event(dl.pe.args[2], ".token"), "3", "T6-provenance", b, "process_events(event.readiness, event.token)", "the dispatcher receives the readiness and token of the event it was looked up for", "process_events is not given the looked-up event's own readiness/token: %s / %s" % (b.roots_str(dl.pe.args[1]), b.roots_str(dl.pe.args[2])), site=b.where(dl.pe.bb))
    pp = ck.opt_body("Poll::poll")
    if pp is None:
        ck.anchor_missing("3", "T6-provenance", "Poll::poll")
    else:
        n = 0
        for body in [pp] + f.closures_of(pp):
            for i, j, st in body.statements():
                if st["s"] == "assign" and st["rv"]["r"] == "agg" and st["rv"].get("adt") == "sys::PollEvent":
                    n += 1
                    fld = dict(zip(st["rv"]["field_names"], st["rv"]["fields"]))
                    tok = fld["token"]
                    ok = False
                    why = b.roots_str(tok) if False else body.roots_str(tok)
                    for r, p in body.resolve(tok):
                        if r[0] == "call":
                            c2 = body.call_at(r[1])
                            if c2.name == "from" and "TokenInner" in (c2.full or "") and T.path_has(body, c2.args[0], ".key") and p in ((), (".inner",)):
                                ok = True
                            if c2.name == "next_expired" and p and (p[-1] == ".1" or (p == (" as Some", ".0") and "Token" in body.facts.types[c2.dest["t"]]["s"] and "(" not in body.facts.types[c2.dest["t"]]["s"])):
                                # the popped entry's token: field 1 of the (counter, token) pair, or the payload itself when
                                # next_expired hands back the token alone
                                ok = True
                        if r[0] == "agg":
                            rv2 = body.agg_at(r[1], r[2])
                            if rv2.get("adt") == "sys::Token":
                                for r3, p3 in body.resolve(rv2["fields"][0]):
                                    if r3[0] == "call":
                                        c2 = body.call_at(r3[1])
                                        if c2.name == "from" and T.path_has(body, c2.args[0], ".key") and not p3:
                                            ok = True
                    ck.verdict(ok, "3", "T6-provenance", body, "event-token-is-poller-key-or-timer-token", "the event's token is decoded from the poller key (or is the popped timer's token) with no arithmetic", "the token of a polled event is not TokenInner::from(ev.key) / the popped timer token: %s" % why, site=body.where(i))
        ck.floor("3", "PollEvent constructions in Poll::poll", n, 2)

    # ---- clause 4: generation bumps on reuse ---------------------------------------------------------------
    ve = ck.opt_body("SourceList::vacant_entry")
    if ve is None:
        ck.anchor_missing("4", "T2-all-exits", "SourceList::vacant_entry")
    else:
        pos = T.calls(ve, name=("position", "find", "iter_mut", "find_map"))
        inc = T.calls(ve, name="increment_version")
        stores = [i for i, j, st in T.stores_to_field(ve, "token") if st["rv"]["r"] == "use" and T.resolves_to_call(ve, st["rv"]["o"], [c.bb for c in inc])]
        some = []
        for p in pos:
            s_, n_ = T.option_split(ve, p.bb)
            some += s_
        bump_on_reuse = bool(some) and bool(inc) and bool(stores) and T.t2_all_exits(ve, [x for _, x in some], stores) is None
        if bump_on_reuse:
            ck.ok("4", "T2-all-exits", ve, "reuse=>new-generation", "every path that reuses a free slot stores increment_version() of its token back into the slot", site=ve.where())
            # .. and there is no third way out: a slot handed out is either freshly pushed or freshly bumped (a slot
            # remembered from an earlier release - a "recycled" index, a free list - is a reuse like any other)
            pushes = [cs.bb for cs in T.calls(ve, name=("push", "push_back", "insert", "resize_with", "extend")) if cs.args and T.path_has(ve, cs.args[0], ".sources") and not ve.is_cleanup(cs.bb)]
            bad = T.t2_all_exits(ve, [0], stores + pushes)
            ck.verdict(bad is None, "4", "T2-all-exits", ve, "handed-out-slot=pushed-or-bumped", "every slot vacant_entry hands out was just pushed or just given a new generation", "vacant_entry can hand out an existing slot without giving it a new generation (a slot remembered from an earlier release): tokens and already collected events of the previous occupant match the new source", site=ve.where(), path=path_descr(ve, bad) if bad else None)
        else:
            # accepted alternative idiom: the generation is bumped whenever a slot is *released*;
            # then every site that empties a slot must be followed (or preceded) by the bump
            unbumped = []
            nrel = 0
            for b2 in f.bodies.values():
                rel = [i for i, j, st in T.stores_to_field(b2, "source") if st["rv"]["r"] == "use" and any(v[1] == "None" for v in T.agg_variant(b2, st["rv"]["o"])) and f.adt_path(f.peel_refs(b2.local_ty(st["pl"]["l"]))) == "list::SourceEntry"]
                rel += [cs.bb for cs in T.calls(b2, name="take") if T.path_has(b2, cs.args[0], ".source") and "EventDispatcher" in f.types[op_place(cs.args[0])["t"]]["s"]]
                if not rel:
                    continue
                bumps = [i for i, j, st in T.stores_to_field(b2, "token") if st["rv"]["r"] == "use" and T.resolves_to_call(b2, st["rv"]["o"], [c.bb for c in T.calls(b2, name="increment_version")])]
                for cs in b2.calls():
                    cb = cs.callee_body()
                    if cb is not None and T.calls(cb, name="increment_version"):
                        bumps.append(cs.bb)
                for r in rel:
                    nrel += 1
                    if not (T.t3_dominated_by_any(b2, r, bumps) or T.t2_all_exits(b2, [r], bumps) is None) or not bumps:
                        unbumped.append("%s@%s" % (b2.qual, b2.where(r)))
            if nrel and not unbumped:
                ck.ok("4", "T2-all-exits", ve, "reuse=>new-generation", "the generation is bumped at every site that releases a slot (%d sites), so a reused slot always carries a new generation" % nrel, site=ve.where())
            else:
                ck.violation("4", "T2-all-exits", ve, "reuse=>new-generation", "a slot can be reused without a new generation (vacant_entry does not bump on reuse%s): tokens and in-flight events of the previous occupant would match the new one" % ((", and these release sites do not bump either: %s" % unbumped) if unbumped else ""), site=ve.where())
            for c in inc:
                ck.verdict(T.path_has(ve, c.args[0], ".token"), "4", "T6-provenance", ve, "increment_version(slot.token)", "the bumped value is the slot's own token", "increment_version is not applied to the slot's token", site=ve.where(c.bb))

    slots_never_removed(ck, "4")
    if ve is not None:
        # a remembered search position (a "first vacant" hint) may not be set beyond the slot that is handed out: that slot
        # is still vacant when vacant_entry returns, and the caller vacates it again when the registration fails
        hint_bad = []
        for i, j, st in ve.statements():
            if st["s"] != "assign" or not st["pl"]["p"] or ve.is_cleanup(i):
                continue
            names = [p_["n"] for p_ in st["pl"]["p"] if isinstance(p_, dict) and "f" in p_]
            if not names or names[-1] in ("sources", "token", "source") or not T.resolves_to_arg(ve, {"c": {"l": st["pl"]["l"], "p": [], "t": 0}}, 1) and st["pl"]["l"] != 1:
                continue
            ty = f.types[f.peel_refs(st["pl"]["t"])]["s"] if "t" in st["pl"] else ""
            vals = [st["rv"]] if st["rv"]["r"] == "bin" else [ve.blocks[r_[1]]["st"][r_[2]]["rv"] for r_, p_ in (ve.resolve(st["rv"]["o"]) if st["rv"]["r"] == "use" else []) if r_[0] == "rv"]
            for rv in vals:
                if rv.get("r") == "bin" and rv.get("op", "").startswith("Add") and any((o.get("k") or {}).get("v") not in (None, 0) for o in (rv["a"], rv["b"])):
                    hint_bad.append((i, names[-1]))
        ck.verdict(not hint_bad, "4", "T6-provenance", ve, "search-hint<=handed-out-slot", "no search hint of the slot list is advanced past the slot that vacant_entry hands out", "vacant_entry stores a search position beyond the slot it hands out (%s): if the caller vacates that slot again (a failed registration) it lies below the hint and is never found - every rejected insertion leaks a slot" % ", ".join(sorted({n for _, n in hint_bad})), site=ve.where(hint_bad[0][0]) if hint_bad else ve.where())
    # the bump itself: generation + 1 modulo 2^16, id and sub-id untouched (decided bit-precisely by C20.4): a bump
    # that wraps early or carries into the id gives a reused slot the identity of another token
    common.import_results(ck, __import__("props.C20", fromlist=["x"]), "4", "increment_version", "4")
    rd = ck.opt_body("LoopHandle::register_dispatcher")
    if rd is None:
        ck.anchor_missing("4", "T6-provenance", "LoopHandle::register_dispatcher")
    else:
        ve_calls = [c.bb for c in T.calls(rd, name="vacant_entry")]
        rets = [st["rv"]["fields"][0] for i, j, st in rd.statements() if st["s"] == "assign" and st["rv"]["r"] == "agg" and st["rv"].get("adt", "").endswith("RegistrationToken") and not rd.is_cleanup(i)]
        rets += [cs.args[0] for cs in T.calls(rd, name="new", path="RegistrationToken::new") if not rd.is_cleanup(cs.bb)]
        ok = bool(rets) and all(T.resolves_to_call(rd, x, ve_calls) and T.path_has(rd, x, ".token") for x in rets)
        ck.verdict(ok, "4", "T6-provenance", rd, "returned-token=filled-slot.token", "the RegistrationToken handed to the user is the token (id + current generation) of the slot that was just filled", "register_dispatcher does not return the token of the slot it filled", site=rd.where())
        tf = T.calls(rd, name="new", path="TokenFactory::new")
        ck.verdict(bool(tf) and all(T.resolves_to_call(rd, c.args[0], ve_calls) and T.path_has(rd, c.args[0], ".token") for c in tf), "4", "T6-provenance", rd, "registers-under-filled-slot.token", "the source is registered under the filled slot's token", "register_dispatcher does not register the source under the filled slot's token", site=rd.where())

    # ---- clause 5: built-in sources ignore events that are not theirs ----------------------------------------
    for q, own in (("<Generic as EventSource>::process_events", "Generic.token"), ("<Timer as EventSource>::process_events", "registration.token")):
        g = ck.opt_body(q)
        if g is None:
            ck.anchor_missing("5", "T4-guarded-by", q)
            continue
        cbs = T.calls(g, name=("call_mut", "call", "call_once"), self_kind=("param",))
        ck.floor("5", q + ": callback call", len(cbs), 1)
        for cb in cbs:
            ok = False
            for c in T.calls(g, name=("eq", "ne"), trait="PartialEq"):
                has_own = any(T.path_has(g, a, ".token") and T.resolves_to_arg(g, a, 1) for a in c.args)
                has_ev = any(T.resolves_to_arg(g, a, 3) or any(r[0] == "agg" and any(T.resolves_to_arg(g, x, 3) for x in g.agg_at(r[1], r[2])["fields"]) for r, _ in g.resolve(a)) for a in c.args)
                if not (has_own and has_ev):
                    continue
                tr, fa = T.bool_split(g, c.bb)
                eq_edges = tr if c.name == "eq" else fa
                if not eq_edges or not T.reachable_only_via(g, cb.bb, eq_edges):
                    continue
                # Option-level comparison handles "no token"; a Token-level comparison needs the
                # recorded token to be tested for presence on the way
                opt_level = any("Option" in f.types[f.peel_refs(a.get("m", a.get("c"))["t"])]["s"] for a in c.args)
                if opt_level:
                    ok = True
                else:
                    for sw in T.switches_on_expr(g, lambda e: e[0] == "discr"):
                        e = g.expr(g.blocks[sw]["term"]["on"], at=sw)
                        if any(("registration" in "".join(p) or ".token" in p) for r, p in g.resolve(e[2])) and T.reachable_only_via(g, cb.bb, T.discr_edges(g, sw, 1)):
                            ok = True
            ck.verdict(ok, "5", "T4-guarded-by", g, "callback-only-if-event-token==own-token", "the callback is reachable only on the edge where the event's token equals the recorded %s (and one is recorded)" % own, "the user callback can run for an event whose token is not the one this source registered (or while it has none, i.e. after unregister/disable): events of other sub-sources, or events collected before a disable, reach the callback", site=g.where(cb.bb))

    # ---- clause 6: wrappers forward the key unchanged ---------------------------------------------------------
    n = 0
    for st, meths in sorted(common.event_source_impls(f).items()):
        b2 = meths.get("process_events")
        if b2 is None or st.split("<")[0] in ("Generic", "Timer"):
            continue
        inner = T.calls(b2, name="process_events", trait="EventSource")
        for c in inner:
            n += 1
            ck.verdict(T.resolves_to_arg(b2, c.args[1], 2) and T.resolves_to_arg(b2, c.args[2], 3), "6", "T6-provenance", b2, "forwards-own-readiness-and-token", "the inner source receives the wrapper's own readiness and token", "the wrapper hands its inner source a different readiness/token: %s / %s" % (b2.roots_str(c.args[1]), b2.roots_str(c.args[2])), site=b2.where(c.bb))
    # a wrapper calls the user back only from inside the callback it hands to its inner source, so that the
    # inner source's own checks (token guard, drain of the wake-up) always come first
    for st, meths in sorted(common.event_source_impls(f).items()):
        b2 = meths.get("process_events")
        if b2 is None or st.split("<")[0] in ("Generic", "Timer", "TransientSource", "Box", "&mut T"):
            continue
        if not T.calls(b2, name="process_events", trait="EventSource"):
            continue
        direct = T.calls(b2, name=("call_mut", "call", "call_once"), self_kind=("param",))
        ck.verdict(not direct, "6", "T3-must-precede", b2, "callback-only-inside-inner-callback", "the user callback is only invoked from the closure handed to the inner source", "the wrapper invokes the user callback outside the closure it hands to its inner source: the inner source's token guard no longer protects it (a disabled / foreign event reaches the callback)", site=b2.where(direct[0].bb) if direct else b2.where())
    import_n = common.import_results(ck, __import__("props.C05", fromlist=["x"]), "5", "Timer", "5")
    common.import_results(ck, __import__("props.C05", fromlist=["x"]), "6", "Timer", "5")
    common.import_results(ck, __import__("props.C05", fromlist=["x"]), "4", "Timer", "5")
    # a re-registration that draws a new token also programs it into the poller (no "interest unchanged" shortcut: the
    # kernel would keep reporting the old key, which by then belongs to a sibling) - shared with C16.3; and a Reregister /
    # Disable / Remove answer is applied when that source's processing ends, not at the end of the batch (C09.3)
    common.import_results(ck, __import__("props.C16", fromlist=["x"]), "3", "Generic", "5")
    common.import_results(ck, __import__("props.C09", fromlist=["x"]), "3", "dispatch_events", "5")
    ck.floor("6", "wrapper process_events forwarding sites", n, 8 if ck.has("executor") and ck.has("stream") and ck.has("signals") else 5)

    token_factory_rules(ck, "7")
    # composite wrappers: TransientSource forwards events only from its current, kept child, and a child that asked
    # to be disabled is not re-enabled behind the user's back (E3, shared with C18 / C07)
    common.import_e3(ck, "8", lambda inst: "asked to be disabled" in inst or "forwarded" in inst)
    # ---- shared clauses demonstrated by seeding round 7 (the property broken from a distant module) --------------
    from props import common as _c7
    import importlib as _il
    _m = lambda n: _il.import_module('props.' + n)
    _c7.import_results(ck, _m("C05"), "1", "Poll::poll", "5")  # timers are popped against a clock read after the wait
    # ---- shared clauses demonstrated by seeding round 8 (the property broken by added code) --------------------
    from props import common as _c8
    import importlib as _il8
    _m8 = lambda n: _il8.import_module('props.' + n)
    _c8.import_results(ck, _m8("C07"), "4", "DispatcherInner", "5")  # the dispatcher state protocol: a disabled source stays silent across update()
    # ---- shared clauses demonstrated by the twin round (seeding round 10) ------------------------------------------
    from props import common as _c10
    import importlib as _il10
    _m10 = lambda n: _il10.import_module('props.' + n)
    _c10.dispatch_infra(ck, "5")  # a source that is not busy never answers "busy": update() on a disabled source would park a Reregister that lands on another source
