"""C02 — pending readiness is always dispatched (no lost or starved events)."""
from mir import op_place, place_str
import templates as T
from core import path_descr, AnchorMissing
from props import common
from props.common import DispatchLoop

LEVEL = "other"
CONFIGS = ["full", "book", "default"]
NOT_DECIDED = [
    "kernel level/edge/one-shot semantics; 'exactly once per arming'; which sources are ready at the same time",
    "the error exits of the batch loop (reported under C15.5, known finding F-C15-2)",
    "async adapters re-arming one-shot interest on every wait (C17)",
]
EXPLANATION = (
    "Decides on the MIR: (1) inside the batch loop every event taken from the iterator reaches process_events or is a lookup miss "
    "before the next iteration; (2) Poll::poll appends every expired timer to the vector it returns and leaves that loop only "
    "when next_expired returns None, on every successful path; (3) cvt_interest copies readable/writable and the key, cvt_mode "
    "maps Edge/Level/OneShot to the same poller modes; (4) Channel and Executor re-ping themselves on every return on which the "
    "queue was not observed empty (flag stored only on the Err edge of try_recv) and their batch bound is at least 1."
)


def run(ck):
    f = ck.facts
    dl = DispatchLoop(ck, "1")
    b = dl.body
    some, none = T.option_split(b, dl.header)
    # the lookup-miss edge: None edge of the switch on the looked-up Option the receiver comes from
    miss = []
    for sw in T.switches_on_expr(b, lambda e: e[0] == "discr"):
        if sw not in dl.blocks:
            continue
        e = b.expr(b.blocks[sw]["term"]["on"], at=sw)
        if e[2]["p"]:
            continue
        if any(r == rr and p[: len(pp)] == pp for r, p in b.resolve(dl.pe.args[0]) for rr, pp in b.resolve(e[2])):
            miss += T.discr_edges(b, sw, 0)
    # .. and the Err edge of the generation-checked lookup itself (SourceList::get before process_events)
    for g in T.calls(b, name=("get", "get_mut"), path="SourceList"):
        if g.bb in dl.blocks and not b.is_cleanup(g.bb) and dl.pe.bb in b.reachable([g.to], removed_blocks=[dl.header]) and T.tainted_by_call(b, dl.pe.args[0], [g.bb]):
            o, e, _ = T.result_split(b, g.bb)
            miss += e
    bad = T.t2_all_exits(b, [x for _, x in some], [dl.pe.bb], exits={dl.header}, removed_edges=miss)
    ck.verdict(bool(some) and bad is None, "1", "T2-all-exits", b, "each-event=>process_events-or-lookup-miss", "every event taken from the batch reaches process_events, or the generation-checked lookup missed, before the next event is taken", "an event can be skipped: a path goes from taking an event to the next iteration without dispatching it and without a lookup miss", site=b.where(dl.header), path=path_descr(b, bad) if bad else None)

    # ---- clause 2: expired timers join the batch -------------------------------------------------------
    pp = ck.body("2", "Poll::poll")
    ne = T.calls(pp, name="next_expired")
    if not ne:
        ck.anchor_missing("2", "T5-loop-exit", "TimerWheel::next_expired call in Poll::poll")
    else:
        ne = ne[0]
        loops = pp.loops()
        lp = [(h, blk) for h, blk in loops.items() if ne.bb in blk]
        pushes = [cs for cs in T.calls(pp, name=("push", "extend", "push_back")) if lp and cs.bb in lp[0][1]]
        rets = [st for i, j, st in pp.statements() if st["s"] == "assign" and st["pl"]["l"] in T.ret_locals(pp) and st["rv"]["r"] == "agg" and st["rv"].get("variant") == "Ok" and not pp.is_cleanup(i)]
        if not lp:
            ck.violation("2", "T5-loop-exit", pp, "expired-timers-loop", "expired timers are not collected in a loop: at most one timer per poll is reported (timers due in the same dispatch are starved)", site=pp.where(ne.bb))
        else:
            h, blk = lp[0]
            some_e, none_e = T.option_split(pp, ne.bb)
            ex = [(a, t) for a, t, lab in T.loop_exit_edges(pp, blk) if lab != "unwind" and pp.blocks[t]["term"]["t"] != "unreachable"]
            ck.verdict(bool(none_e) and set(ex) <= set(none_e), "2", "T5-loop-exit", pp, "timer-loop-exits-only-on-None", "the loop over expired timers is left only when next_expired returns None", "the loop over expired timers can be left while expired timers remain", site=pp.where(ne.bb))
            okp = bool(pushes) and bool(rets) and all(any(r1 == r2 for r1, _ in pp.resolve(p.args[0]) for r2, _ in pp.resolve(rets[0]["rv"]["fields"][0])) for p in pushes)
            ck.verdict(okp, "2", "T6-provenance", pp, "expired-timers-pushed-to-returned-vector", "expired timers are pushed to the very vector that is returned", "expired timers are not appended to the returned batch", site=pp.where(ne.bb))
            bad = T.t2_all_exits(pp, [x for _, x in some_e], [p.bb for p in pushes], exits={h} | set(pp.return_blocks()))
            ck.verdict(bad is None, "2", "T2-all-exits", pp, "each-expired-timer=>pushed", "every popped timer is pushed", "a popped timer can be dropped without being reported", site=pp.where(ne.bb))
        # every successful return passes the timer loop
        waits = [cs for cs in pp.calls() if cs.f and cs.f["path"].startswith("polling::Poller::wait") and not pp.is_cleanup(cs.bb)]
        if waits:
            ok_e, err_e, _ = T.result_split(pp, waits[0].bb)
            okret = [i for i, j, st in pp.statements() if st["s"] == "assign" and st["pl"]["l"] in T.ret_locals(pp) and st["rv"]["r"] == "agg" and st["rv"].get("variant") == "Ok" and not pp.is_cleanup(i)]
            # "no timer is armed" (the wheel's next deadline is None / the wheel is empty) excuses the collection
            excused = []
            for c in pp.calls():
                if pp.is_cleanup(c.bb) or not c.f:
                    continue
                if c.name == "next_deadline" and "TimerWheel" in c.f["path"]:
                    s_, n_ = T.option_split(pp, c.bb)
                    excused += n_
                    for c2 in T.calls(pp, name=("is_some", "is_none")):
                        if T.resolves_to_call(pp, c2.args[0], [c.bb]) and not pp.is_cleanup(c2.bb):
                            tr_, fa_ = T.bool_split(pp, c2.bb)
                            excused += fa_ if c2.name == "is_some" else tr_
                if c.name == "is_empty" and ("TimerWheel" in c.f["path"] or (c.args and T.path_has(pp, c.args[0], ".heap"))):
                    tr_, fa_ = T.bool_split(pp, c.bb)
                    excused += tr_
            bad = T.t2_all_exits(pp, [x for _, x in ok_e] or [waits[0].to], [ne.bb], exits=okret, removed_edges=excused)
            ck.verdict(bad is None, "2", "T2-all-exits", pp, "wait-ok=>timers-collected", "every successful return of Poll::poll has gone through the expired-timer collection", "Poll::poll can return Ok without collecting expired timers (e.g. when IO events were received): an expired timer is starved while fds stay ready", site=pp.where(waits[0].bb), path=path_descr(pp, bad) if bad else None)
        else:
            ck.anchor_missing("2", "T2-all-exits", "Poller::wait call in Poll::poll")

    # every event the poller returned becomes exactly one PollEvent of the batch, with the readiness the poller reported:
    # the conversion (a closure mapped over the events, or a loop pushing into the vector) builds a PollEvent on every
    # non-error path of every iteration, and no readiness flag is written except from the poller event
    conv_bodies = [pp] + [c for c in f.closures_of(pp)]
    pe_aggs = [(b_, i, st) for b_ in conv_bodies for i, j, st in b_.statements() if st["s"] == "assign" and st["rv"]["r"] == "agg" and st["rv"].get("adt") == "sys::PollEvent" and not b_.is_cleanup(i)]
    ev_aggs = [(b_, i, st) for b_, i, st in pe_aggs if any(T.path_has(b_, x, ".key") or T.tainted_by_call(b_, x, [c.bb for c in T.calls(b_, name=("from", "into"))]) for x in st["rv"]["fields"])]
    ck.floor("2", "Poll::poll: PollEvent built from a poller event", len(ev_aggs), 1)
    for b_, i, st in ev_aggs:
        if b_ is not pp:
            # closure form: every return that is not an error has built the event
            errs = [c.bb for c in b_.calls() if c.name == "from_residual" and not b_.is_cleanup(c.bb)]
            bad = T.t2_all_exits(b_, [0], [i] + errs)
            ck.verdict(bad is None, "2", "T2-all-exits", b_, "each-poller-event=>PollEvent", "every poller event is converted into a PollEvent (or the conversion fails with an error)", "a poller event can be skipped by the conversion: its readiness is never dispatched (with edge / one-shot registrations it is lost for good)", site=b_.where(i), path=path_descr(b_, bad) if bad else None)
        else:
            lps = [(h, blk) for h, blk in pp.loops().items() if i in blk and pp.call_at(h) is not None and pp.call_at(h).name == "next"]
            for h, blk in lps:
                some_e, none_e = T.option_split(pp, h)
                pushes_ = [c.bb for c in T.calls(pp, name=("push", "push_back")) if c.bb in blk]
                bad = T.t2_all_exits(pp, [x for _, x in some_e], pushes_, exits={h})
                ck.verdict(bool(pushes_) and bad is None, "2", "T2-all-exits", pp, "each-poller-event=>PollEvent", "every poller event is pushed into the batch as a PollEvent (or poll() fails with an error)", "an iteration over the poller's events can continue without pushing a PollEvent: that event's readiness is never dispatched (with edge / one-shot registrations it is lost for good)", site=pp.where(i), path=path_descr(pp, bad) if bad else None)
    for b_ in conv_bodies:
        for fld in ("readable", "writable"):
            for i, j, st in T.stores_to_field(b_, fld):
                if b_.is_cleanup(i) or not any(isinstance(p_, dict) and p_.get("n") == "readiness" for p_ in st["pl"]["p"]):
                    continue
                okw = st["rv"]["r"] == "use" and "k" not in st["rv"]["o"] and T.path_has(b_, st["rv"]["o"], "." + fld)
                ck.verdict(okw, "2", "T6-provenance", b_, "readiness.%s:=poller-event.%s" % (fld, fld), "the readiness flag is copied from the poller event", "a readiness flag of a batched event is written with something else than the poller event's own flag (merged / invented readiness)", site=b_.where(i))

    # ---- clause 3: translation tables -----------------------------------------------------------------
    eb = common.event_builder(f)
    ci = eb[0] if eb else None
    if ci is None:
        ck.anchor_missing("3", "T9-layout", "sys::cvt_interest")
    else:
        ci, interest_arg, token_arg, token_is_inner = eb
        # `Event::new(key, readable, writable)` builds the same event as `Event::none(key)` + the two field stores
        ctor3 = [c for c in T.calls(ci, name=("new",), path="polling::Event") if len(c.args) == 3]
        for k_, fld in enumerate(("readable", "writable")):
            st_ = [(i, st) for i, j, st in T.stores_to_field(ci, fld)]
            ok = bool(st_) and all(st["rv"]["r"] == "use" and T.resolves_to_arg(ci, st["rv"]["o"], interest_arg) and T.path_has(ci, st["rv"]["o"], "." + fld) for i, st in st_)
            if not st_ and ctor3:
                ok = all(T.resolves_to_arg(ci, c.args[1 + k_], interest_arg) and T.path_has(ci, c.args[1 + k_], "." + fld) for c in ctor3)
            ck.verdict(ok, "3", "T9-layout", ci, "event.%s=interest.%s" % (fld, fld), "the poller event's %s is the interest's %s" % (fld, fld), "cvt_interest does not copy `%s` from the requested interest (that interest is never armed / the wrong one is)" % fld, site=ci.where())
        nn = T.calls(ci, name=("none", "new", "all", "readable", "writable"), path="polling::Event")
        ok = bool(nn) and all(T.tainted_by_call(ci, c.args[0], [x.bb for x in T.calls(ci, name=("into", "from"))]) or T.path_has(ci, c.args[0], ".inner") or (token_is_inner and T.resolves_to_arg(ci, c.args[0], token_arg)) for c in nn) and all(c.name == "none" or (c.name == "new" and len(c.args) == 3) for c in nn)
        conv = T.calls(ci, name=("into", "from"))
        ok = ok and all(T.resolves_to_arg(ci, c.args[0], token_arg) and (token_is_inner or T.path_has(ci, c.args[0], ".inner")) for c in conv)
        ck.verdict(ok, "3", "T9-layout", ci, "event.key=usize::from(token.inner)", "the poller key is the packed token of this registration, and the event starts from Event::none", "cvt_interest does not use the packed token as the poller key / does not start from an empty event", site=ci.where())
    # the mode translation, found by its role (Mode x bool -> polling::PollMode) rather than by its name, and decided by
    # evaluating its MIR on all six inputs (engine/bits/finite_eval.py)
    cm = common.mode_converter(f)
    if cm is None:
        ck.anchor_missing("3", "T9-layout", "sys::cvt_mode")
    else:
        import os as _os, sys as _sys

        _sys.path.insert(0, _os.path.join(_os.path.dirname(_os.path.abspath(__file__)), "..", "..", "bits"))
        import finite_eval as FE

        body_cm, mode_arg, bool_arg = cm
        want = {"Edge": "Edge", "Level": "Level", "OneShot": "Oneshot"}
        modes = f.adts["sys::Mode"]["variants"]
        seen = {}
        err = None
        for mi, mv in enumerate(modes):
            for sup in (0, 1):
                args = [None, None]
                args[mode_arg - 1] = ("enum", "sys::Mode", mi, [])
                oracles = None
                if bool_arg > 0:
                    args[bool_arg - 1] = ("int", sup)
                else:
                    # the function asks the poller itself (`poller.supports_level()`): that query is the enumerated input
                    args[-bool_arg - 1] = ("ref", FE.Cell(("opaque",)))
                    oracles = {"supports_level": ("int", sup)}
                try:
                    ev = FE.Eval(f, oracles=oracles)
                    got = ev.run(body_cm, args)
                    name = ev.variant_names.get((got[1], got[2])) if got[0] == "enum" else str(got)
                except FE.Unsupported as e:
                    err = str(e)
                    name = None
                seen.setdefault(mv["name"] if sup else "<no-modes>", set()).add(name)
        if err:
            ck.undecided("3", "T9-layout", body_cm, "mode-table", "the mode translation could not be evaluated (%s)" % err, site=body_cm.where())
        for m, w in ([] if err else want.items()):
            ck.verdict(seen.get(m) == {w}, "3", "T9-layout", body_cm, "Mode::%s->PollMode::%s" % (m, w), "Mode::%s is translated to PollMode::%s" % (m, w), "Mode::%s is translated to %s (a level-triggered source would be reported once, an edge-triggered one continuously, ...)" % (m, sorted(str(x) for x in seen.get(m, []))), site=body_cm.where())
        if not err:
          ck.verdict(seen.get("<no-modes>", {"Oneshot"}) == {"Oneshot"}, "3", "T9-layout", body_cm, "no-mode-support->Oneshot", "without poller mode support everything is Oneshot (level is emulated)", "the fallback without mode support is not Oneshot: %s" % sorted(str(x) for x in seen.get("<no-modes>", [])), site=body_cm.where())

    # ---- clause 4: bounded batches re-arm themselves ---------------------------------------------------------
    for q, feature in (("<Channel as EventSource>::process_events", None), ("<Executor as EventSource>::process_events", "executor")):
        if feature and not ck.has(feature):
            continue
        b2 = ck.opt_body(q)
        if b2 is None:
            ck.anchor_missing("4", "T2-all-exits", q)
            continue
        inner = T.calls(b2, name="process_events", trait="EventSource")
        cls = [c for cs in inner for c in T.closure_bodies_passed(b2, cs)]
        if not inner or not cls:
            ck.anchor_missing("4", "T2-all-exits", q + ": inner process_events with a drain closure")
            continue
        cl = cls[0]
        # flags: cells of the parent (bool / Option locals, or such fields of a captured struct) that the closure sets
        # and the parent tests afterwards
        cells = common.ClosureCells(b2, cl)
        pings = [cs for cs in T.calls(b2, name="ping") if T.path_has(b2, cs.args[0], ".ping")]
        ok_e, err_e, _ = T.result_split(b2, inner[0].bb)
        exempt = []
        for cell in cells.cells():
            yes, no = cells.set_edges(cell)
            exempt += yes
        starts = [x for _, x in ok_e] or [inner[0].to]
        okret = [i for i, j, st in b2.statements() if st["s"] == "assign" and st["pl"]["l"] in T.ret_locals(b2) and st["rv"]["r"] == "agg" and st["rv"].get("variant") == "Ok" and not b2.is_cleanup(i)]
        bad = T.t2_all_exits(b2, starts, [p.bb for p in pings], exits=okret, removed_edges=exempt)
        ck.verdict(bool(pings) and bad is None, "4", "T2-all-exits", b2, "not-observed-empty=>self-ping", "every successful return on which neither the 'queue observed empty' nor the 'disconnected' flag is set re-pings the source", "the source can return Ok without re-arming itself although its queue was not observed empty: the remainder of a batch larger than the per-dispatch limit is stranded until the next external wake-up", site=b2.where(inner[0].bb), path=path_descr(b2, bad) if bad else None)
        # in the closure: flags are set only on the Err edge of try_recv
        tr = T.calls(cl, name="try_recv")
        if not tr:
            ck.anchor_missing("4", "T4-guarded-by", q + ": try_recv in the drain closure")
            continue
        ok_c, err_c, _ = T.result_split(cl, tr[0].bb)
        nst = 0
        for i, cell in cells.set_stores():
            nst += 1
            n = (b2.local_name(cell[0]) or "_%d" % cell[0]) + "".join("." + x for x in cell[1])
            ck.verdict(bool(err_c) and T.reachable_only_via(cl, i, err_c), "4", "T4-guarded-by", cl, "flag:%s-set-only-on-try_recv-Err" % n, "`%s` is set only on the Err edge of try_recv (the queue was really observed empty / disconnected)" % n, "`%s` is set without try_recv having reported Empty/Disconnected: the source stops re-arming itself while messages may still be queued (or a close is never observed)" % n, site=cl.where(i))
        ck.floor("4", q + ": flag stores in the drain closure", nst, 1)
        # batch bound >= 1
        rng = [(i, st) for i, j, st in cl.statements() if st["s"] == "assign" and st["rv"]["r"] == "agg" and st["rv"].get("adt", "").endswith("ops::Range")]
        for i, st in rng:
            lo = st["rv"]["fields"][0].get("k", {}).get("v")
            lb = common.lower_bound(cl, st["rv"]["fields"][1])
            ck.verdict(lo == 0 and lb >= 1, "4", "T14-interval", cl, "batch-bound>=1", "the per-dispatch batch bound is at least %d for every capacity" % lb, "the per-dispatch batch bound can be zero (lower bound %s): the drain loop may not run at all, so an empty queue is never observed, nothing is ever delivered and the source re-pings itself on every dispatch (spin)" % lb, site=cl.where(i))

    # ---- clause 5: shared necessary conditions ---------------------------------------------------------------
    from props import C04, C17

    common.dispatch_infra(ck, "5")
    common.ping_infra(ck, "5")
    common.import_results(ck, C04, "1", None, "5")
    if ck.has("futures-io") or True:
        common.import_results(ck, C17, "2", "register_waker", "5")
        common.import_results(ck, C17, "2", "IoLoopInner", "5")
    # a failed adapt_io() must not take the fd of a healthy source out of the poller (shared with C15.4 / C16.2), and
    # the wait is really made on every poll, whatever the timers say (shared with C05.1)
    from props import C15 as _C15, C05 as _C05

    common.import_results(ck, _C15, "4", "IoLoopInner", "5")
    # a source wrapped in a TransientSource is re-armed / re-registered with its wrapper (E3: shared with C18)
    common.import_e3(ck, "5", lambda inst: True)
    common.import_results(ck, _C05, "1", "Poll::poll", "5")
    # ---- shared clauses demonstrated by seeding round 8 (the property broken by added code) --------------------
    from props import common as _c8
    import importlib as _il8
    _m8 = lambda n: _il8.import_module('props.' + n)
    _c8.import_results(ck, _m8("C16"), "3", "Poll::", "5")  # a re-registration always reaches the poller (the key of a shifted sub-source is the one the kernel reports)
    _c8.import_results(ck, _m8("C14"), "4", "dispatch_events", "5")  # the polled batch is dispatched whole (one-shot / edge readiness past a cut-off is gone for good)
