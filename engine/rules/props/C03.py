"""C03 — ping wake-ups (weak claim: counter encoding, single writer of the close marker, single drain)."""
from mir import op_place, place_str
import templates as T
from core import path_descr, AnchorMissing
from props import common

LEVEL = "other"
CONFIGS = ["full", "book", "default"]
NOT_DECIDED = [
    "every interleaving claim of the statement: atomicity of the eventfd counter, visibility of a write to a concurrent epoll_wait, clones dropped on other threads",
    "this is the larger part of C03; the check decides only that the protocol the kernel is asked to implement is the one the statement describes",
]
EXPLANATION = (
    "Decides on the MIR of sources/ping/eventfd.rs: (1) the counter encoding is consistent (the two decode masks partition u64, "
    "every multiple of INCREMENT_PING leaves the close bits zero, INCREMENT_CLOSE lies inside the close mask); (2) the close "
    "marker is written only by FlagOnDrop::drop, FlagOnDrop is not Clone and is constructed once inside Arc::new, pings are "
    "written only by Ping::ping, and Ping::ping always writes (no suppression flag); (3) the source drains the counter once per "
    "event before decoding it, calls back at most once and only on the ping bits, and returns Remove exactly on the close bit; "
    "(4) a saturated counter (EAGAIN) is not an error; (5) the eventfd is registered level-triggered for READ."
)


def close_rules(ck, C):
    """Remove is returned exactly when the close bit was decoded"""
    f = ck.facts
    pe = ck.opt_body("<PingSource as EventSource>::process_events")
    if pe is None:
        ck.anchor_missing(C, "T4-guarded-by", "<PingSource as EventSource>::process_events")
        return None
    cl = [c for cs in T.calls(pe, name="process_events", trait="EventSource") for c in T.closure_bodies_passed(pe, cs)]
    if not cl:
        ck.anchor_missing(C, "T4-guarded-by", "PingSource::process_events: decode closure")
        return None
    cl = cl[0]
    # the counter may be decoded in this closure or in the reading function it calls: analyse both as one
    cl = f.deep_view(cl, lambda cb: cb.file.endswith("ping/eventfd.rs") and cb.kind in ("Fn", "AssocFn"))
    K = f.const_value("sources::ping::eventfd::INCREMENT_CLOSE")
    rets = T.ok_returns(cl)
    rm = [i for i, v in rets if v == {("sources::PostAction", "Remove")}]
    other = [i for i, v in rets if v != {("sources::PostAction", "Remove")}]
    # the close flag: Ne(BitAnd(counter, m_close), 0) / Eq
    flags = decode_flags(cl)
    close_sw = [(sw, pol) for sw, pol, m in flags.get("switches", []) if m == "close"]
    ok = False
    if rm and close_sw:
        for sw, pol in close_sw:
            e_true = T.edges_of_value(cl, sw, pol)
            e_false = T.edges_of_value(cl, sw, not pol)
            if all(T.reachable_only_via(cl, i, e_true, frm=[sw]) for i in rm) and all(T.reachable_only_via(cl, i, e_false, frm=[sw]) for i in other if i in cl.reachable([sw])):
                ok = True
    ck.verdict(ok, C, "T4-guarded-by", cl, "Remove-iff-close-bit", "PostAction::Remove is returned exactly on the edge where the drained counter carries the close marker (a closed ping neither stays registered nor is removed early)", "the ping source does not return Remove exactly when the close marker was read: a source whose handles are all gone stays registered (its eventfd stays readable after a failed drain => permanent readiness/spin) or a live one removes itself", site=cl.where())
    return cl


def decode_flags(cl):
    """find `x = Ne/Eq(BitAnd(counter, MASK), 0)` flags in the decode closure; classify masks"""
    f = cl.facts
    K = f.const_value("sources::ping::eventfd::INCREMENT_CLOSE")
    P = f.const_value("sources::ping::eventfd::INCREMENT_PING")
    drains = T.calls(cl, name="drain_ping")
    if not drains:
        # the reading function is inlined in this view: the counter is what from_ne_bytes assembles from the bytes read
        drains = [c for c in T.calls(cl, name=("from_ne_bytes", "from_le_bytes")) if not cl.is_cleanup(c.bb)]
    out = {"masks": [], "switches": [], "drains": drains}
    flag_locals = {}
    flag_stmts = {}
    for i, j, st in cl.statements():
        if st["s"] != "assign" or st["rv"]["r"] != "bin" or st["rv"]["op"] not in ("Ne", "Eq"):
            continue
        rv = st["rv"]
        zero = T.const_value(cl, rv["b"])
        if zero != 0:
            continue
        pa = op_place(rv["a"])
        if pa is None:
            continue
        for d in cl.defs().get(pa["l"], []):
            if d[0] == "assign" and d[3]["rv"]["r"] == "bin" and d[3]["rv"]["op"] == "BitAnd":
                band = d[3]["rv"]
                for x, y in ((band["a"], band["b"]), (band["b"], band["a"])):
                    m = T.const_value(cl, y)
                    if m is not None and T.resolves_to_call(cl, x, [c.bb for c in drains]):
                        kind = "close" if (K is not None and m & K) else ("ping" if (P is not None and m & P) else "?")
                        out["masks"].append((kind, m, i))
                        flag_locals[st["pl"]["l"]] = (kind, rv["op"] == "Ne")
                        flag_stmts[(i, j)] = (kind, rv["op"] == "Ne")
    for sw, blk in enumerate(cl.blocks):
        if blk["term"]["t"] != "switch" or cl.is_cleanup(sw):
            continue
        hit = False
        for l in T.copy_chain_locals(cl, blk["term"]["on"]):
            if l in flag_locals:
                kind, ne = flag_locals[l]
                out["switches"].append((sw, ne, kind))
                hit = True
        if not hit:
            # the flag travelled through a struct / Result built around it (a reading function that returns the decoded
            # pair): the switch operand resolves to the comparison itself
            for r, p in cl.resolve(blk["term"]["on"]):
                if r[0] == "rv" and not p and (r[1], r[2]) in flag_stmts:
                    kind, ne = flag_stmts[(r[1], r[2])]
                    out["switches"].append((sw, ne, kind))
    return out


def run(ck):
    f = ck.facts
    P = f.const_value("sources::ping::eventfd::INCREMENT_PING")
    K = f.const_value("sources::ping::eventfd::INCREMENT_CLOSE")
    if P is None or K is None:
        ck.anchor_missing("1", "T14-constants", "INCREMENT_PING / INCREMENT_CLOSE")
        raise AnchorMissing("constants")
    cl = close_rules(ck, "3")
    if cl is None:
        raise AnchorMissing("closure")
    fl = decode_flags(cl)
    mc = [m for k, m, i in fl["masks"] if k == "close"]
    mp = [m for k, m, i in fl["masks"] if k == "ping"]
    M = (1 << 64) - 1
    if len(mc) != 1 or len(mp) != 1:
        ck.violation("1", "T14-constants", cl, "decode-masks", "the decode closure does not test exactly one close mask and one ping mask on the drained counter (found close=%s ping=%s)" % (mc, mp), site=cl.where())
    else:
        mc, mp = mc[0], mp[0]
        conds = [
            ("masks-partition-u64", (mc | mp) == M and (mc & mp) == 0, "m_close | m_ping = u64::MAX and m_close & m_ping = 0", "the decode masks do not partition the counter (m_close=%#x m_ping=%#x): a bit is decoded as both or as neither" % (mc, mp)),
            ("close-mask-is-a-low-mask", mc & (mc + 1) == 0 and mc != 0, "m_close = 2^k - 1", "the close mask is not a low-bit mask (%#x)" % mc),
            ("pings-never-touch-close-bits", P % (mc + 1) == 0 and P != 0, "every multiple of INCREMENT_PING (=%d) is zero on the close bits" % P, "INCREMENT_PING=%d is not a multiple of %d: accumulated pings spill into the close bits (a pinged source removes itself) " % (P, mc + 1)),
            ("close-marker-inside-close-mask", 0 < K <= mc and (K & mp) == 0, "0 < INCREMENT_CLOSE=%d <= m_close and it sets no ping bit" % K, "INCREMENT_CLOSE=%d is not confined to the close mask %#x: closing looks like a ping, or is invisible" % (K, mc)),
            ("one-close-marker-cannot-carry", K * 1 <= mc, "a single close marker cannot carry into the ping bits", "a single close marker overflows the close field"),
        ]
        for name, ok, wo, wb in conds:
            ck.verdict(ok, "1", "T14-constants", cl, name, wo, wb, site=cl.where())

    # ---- clause 2: who writes what ----------------------------------------------------------------------
    writers = {"close": set(), "ping": set(), "other": set()}
    wfn = common.eventfd_writer(f)
    for b in f.bodies.values():
        if wfn is not None and b is wfn[0]:
            continue
        for bb_, amount in common.eventfd_writes(f, b):
            v = T.const_value(b, amount)
            kind = "close" if v == K else ("ping" if v == P else "other")
            writers[kind].add(b.qual)
    ck.verdict(writers["close"] == {"<FlagOnDrop as Drop>::drop"}, "2", "T7-who-may-write", "<FlagOnDrop as Drop>::drop", "close-marker-writer", "the close marker is written only by FlagOnDrop::drop", "the close marker is written by %s (it must be written exactly once, by the drop of the last handle)" % sorted(writers["close"]), site="src/sources/ping/eventfd.rs")
    ck.verdict(writers["ping"] == {"Ping::ping"} and not writers["other"], "2", "T7-who-may-write", "Ping::ping", "ping-writer", "pings are written only by Ping::ping", "counter increments are written by %s / other values by %s" % (sorted(writers["ping"]), sorted(writers["other"])), site="src/sources/ping/eventfd.rs")
    pg = ck.opt_body("Ping::ping")
    if pg is not None:
        sp = [bb_ for bb_, amount in common.eventfd_writes(f, pg)]
        bad = T.t2_all_exits(pg, [0], sp) if sp else [0]
        ck.verdict(bad is None, "2", "T2-all-exits", pg, "ping-always-writes", "every call of ping() writes to the eventfd (no suppression state that could swallow a ping)", "Ping::ping can return without writing to the eventfd: a ping issued while a suppression flag is set is lost", site=pg.where())
    clone_impls = [i for i in f.impls if i.get("trait") == "std::clone::Clone" and "FlagOnDrop" in i["self_s"]]
    ck.verdict(not clone_impls, "2", "T9-layout", "sources::ping::eventfd::FlagOnDrop", "FlagOnDrop-not-Clone", "FlagOnDrop has no Clone impl (one drop = one close marker)", "FlagOnDrop is Clone: every clone writes its own close marker", site="src/sources/ping/eventfd.rs")
    ctor = []
    for b in f.bodies.values():
        for i, j, st in b.statements():
            if st["s"] == "assign" and st["rv"]["r"] == "agg" and st["rv"].get("adt", "").endswith("eventfd::FlagOnDrop"):
                ctor.append((b, i, st))
    ok = len(ctor) == 1
    if ok:
        b, i, st = ctor[0]
        arcs = [cs for cs in T.calls(b, name="new") if "Arc" in (cs.f["path"]) and any(r == ("agg", i, b.blocks[i]["st"].index(st)) for r, p in b.resolve(cs.args[0]))]
        ok = bool(arcs)
    ck.verdict(ok, "2", "T7-who-may-call", "sources::ping::eventfd::make_ping", "FlagOnDrop-constructed-once-inside-Arc::new", "FlagOnDrop is constructed at exactly one site, directly inside Arc::new (all Ping clones share it)", "FlagOnDrop is constructed at %d sites / not directly inside Arc::new" % len(ctor), site="src/sources/ping/eventfd.rs")
    pingadt = f.adts.get("sources::ping::eventfd::Ping")
    if pingadt:
        ft = [f.types[x["ty"]]["s"] for x in pingadt["variants"][0]["fields"]]
        ck.verdict(all("Arc<" in s for s in ft if "FlagOnDrop" in s) and any("FlagOnDrop" in s for s in ft), "2", "T9-layout", "sources::ping::eventfd::Ping", "Ping-holds-Arc<FlagOnDrop>", "Ping holds the marker behind an Arc: %s" % ft, "Ping does not hold its FlagOnDrop behind an Arc (%s): each clone would close the source" % ft, site="src/sources/ping/eventfd.rs")
    drop_impls_ping = [i for i in f.impls if i.get("trait") == "std::ops::Drop" and i["self_s"].endswith("eventfd::Ping")]
    ck.verdict(not drop_impls_ping, "2", "T9-layout", "sources::ping::eventfd::Ping", "Ping-has-no-Drop", "Ping itself has no Drop impl", "Ping has its own Drop impl (each handle drop could write a marker)", site="src/sources/ping/eventfd.rs")

    # ---- clause 3: drain, decode, at most one callback ------------------------------------------------------
    drains = fl["drains"]
    ck.verdict(len(drains) == 1 and not any(drains[0].bb in blk for blk in cl.loops().values()), "3", "T5-loop-exit", cl, "single-drain-per-event", "the counter is drained exactly once per event (not in a loop)", "the eventfd is drained %d times / in a loop per event" % len(drains), site=cl.where())
    cbs = T.calls(cl, name=("call_mut", "call", "call_once"), self_kind=("param",))
    ck.floor("3", "PingSource decode closure: callback call", len(cbs), 1)
    ping_sw = [(sw, pol) for sw, pol, m in fl["switches"] if m == "ping"]
    for cb in cbs:
        on_cycle = any(cb.bb in blk for blk in cl.loops().values())
        guarded = any(T.reachable_only_via(cl, cb.bb, T.edges_of_value(cl, sw, pol)) for sw, pol in ping_sw)
        dominated = drains and cl.dominates(drains[0].bb, cb.bb)
        ck.verdict(not on_cycle and guarded and dominated, "3", "T4-guarded-by", cl, "callback-once-and-only-if-ping-bits", "the callback runs at most once per event, after the drain, and only if the drained counter has ping bits set (pings coalesce; no callback without a ping)", "the ping callback is %s" % ("in a loop" if on_cycle else ("not guarded by the ping bits of the drained counter (a close alone, or nothing, triggers it)" if not guarded else "not preceded by the drain")), site=cl.where(cb.bb))
        # every path with the ping bit set reaches the callback
        for sw, pol in ping_sw:
            bad = T.t2_all_exits(cl, [x for _, x in T.edges_of_value(cl, sw, pol)], [cb.bb])
            ck.verdict(bad is None, "3", "T2-all-exits", cl, "ping-bits=>callback", "whenever ping bits were drained the callback is invoked", "pings can be drained without the callback being invoked (lost ping)", site=cl.where(cb.bb))

    # ---- clause 4: saturated counter ---------------------------------------------------------------------------
    sp = wfn[0] if wfn is not None else None
    if sp is None:
        ck.anchor_missing("4", "T12-error-discipline", "send_ping")
    else:
        wr = [cs for cs in sp.calls() if cs.f and cs.f["path"].startswith("rustix::io::write") and not sp.is_cleanup(cs.bb)]
        ok = False
        if wr:
            ok_e, err_e, _ = T.result_split(sp, wr[0].bb)
            oks = [i for i, j, st in sp.statements() if st["s"] == "assign" and st["pl"]["l"] in T.ret_locals(sp) and st["rv"]["r"] == "agg" and st["rv"].get("variant") == "Ok"]
            # from the Err edge of write(), the arm selected by the comparison against EAGAIN (11; stored negated in
            # rustix' linux_raw backend) reaches a `return Ok` (the arm may be shared with the success arm: `Ok(_) |
            # Err(AGAIN) => Ok(())`)
            after_err = sp.reachable([x for _, x in err_e]) if err_e else set()
            for sw in sorted(after_err):
                blk = sp.blocks[sw]
                if blk["term"]["t"] == "switch":
                    for v, tgt in blk["term"]["targets"]:
                        if v in (11, 65525, 0xFFFFFFF5) and any(i in sp.reachable([tgt]) for i in oks):
                            ok = True
            for c in T.calls(sp, name=("eq", "ne")):
                if c.bb in after_err and any("AGAIN" in (a.get("k", {}).get("s", "")) for a in c.args):
                    e, tr, fa = (None, [], [])
                    sws = [x for x, mode in sp.switches_on_call(c.bb)]
                    for x in sws:
                        e, tr, fa = sp.bool_edges(x)
                        arm = tr if c.name == "eq" else fa
                        if any(i in sp.reachable(arm) for i in oks):
                            ok = True
        ck.verdict(ok, "4", "T12-error-discipline", sp, "EAGAIN=>Ok", "a saturated counter (EAGAIN) is reported as success: earlier writes will wake the loop", "send_ping reports EAGAIN as an error", site=sp.where())
    # ---- clause 5: level-triggered READ -----------------------------------------------------------------------------
    mk = ck.opt_body("sources::ping::eventfd::make_ping")
    if mk is None:
        ck.anchor_missing("5", "T6-provenance", "make_ping")
    else:
        gn = T.calls(mk, name=("new", "new_with_error"), path="Generic")
        ck.floor("5", "make_ping: Generic::new", len(gn), 1)
        for c in gn:
            interest = T.const_name(mk, c.args[1])
            mode = T.agg_variant(mk, c.args[2])
            ck.verdict(interest.endswith("Interest::READ") and mode == {("sys::Mode", "Level")}, "5", "T6-provenance", mk, "eventfd-registered:READ+Level", "the eventfd is registered for READ, level-triggered (an undrained counter keeps being reported)", "the ping eventfd is registered with %s / %s instead of READ / Level: a wake-up whose event is dropped (e.g. by an error exit of the batch) is never reported again" % (interest, sorted(mode)), site=mk.where(c.bb))
        fl_ = T.calls(mk, name="eventfd")
        ck.verdict(bool(fl_), "5", "T6-provenance", mk, "creates-eventfd", "make_ping creates an eventfd", "make_ping does not create an eventfd", site=mk.where(), nontrivial=False)
    # the ping source keeps its registration state (Generic's token/poller) in step with the poller:
    # it is recorded only by a successful registration and never dropped by a failed one (shared with C15.4)
    from props import C15

    common.import_results(ck, C15, "4", "Generic", "5")
    # the Remove a closed ping source returns is not overridden by a deferred request (shared with C09.2)
    from props import C09

    common.import_results(ck, C09, "2", "dispatch_events", "5")
    # .. and a request parked by another source never reaches a ping source (C09.1 / C09.4)
    common.dispatch_infra(ck, "5")
    # ---- shared clauses demonstrated by seeding round 7 (the property broken from a distant module) --------------
    from props import common as _c7
    import importlib as _il
    _m = lambda n: _il.import_module('props.' + n)
    _c7.import_results(ck, _m("C05"), "1", "Poll::poll", "5")  # the wait is made on every poll; a due timer does not starve the eventfd
    _c7.import_results(ck, _m("C02"), "2", "Poll::poll", "5")
    _c7.import_results(ck, _m("C20"), "4", "increment_version", "5")  # a ping source inserted into a recycled slot keeps its own key
    # ---- shared clauses demonstrated by seeding round 8 (the property broken by added code) --------------------
    from props import common as _c8
    import importlib as _il8
    _m8 = lambda n: _il8.import_module('props.' + n)
    _c8.import_results(ck, _m8("C02"), "1", "dispatch_events", "5")  # every event of the batch reaches its source (no side list decides to skip it)
