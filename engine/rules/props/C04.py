"""C04 — channel: exactly-once in-order delivery, then exactly one Closed."""
from mir import op_place, place_str
import templates as T
from core import path_descr, AnchorMissing
from props import common

LEVEL = "other"
CONFIGS = ["full", "book", "default"]
NOT_DECIDED = [
    "exactly-once / in-order delivery under real interleavings (rests on std::sync::mpsc)",
    "liveness of a blocking SyncSender::send for bound >= 1 beyond the wake-up discipline of clause 1 (rests on std::sync::mpsc waking a parked sender when the receiver pops); bound 0 is decided by clause 6 (known finding F-C04-1)",
]
EXPLANATION = (
    "Decides on the MIR of sources/channel.rs: (1) in Sender::send, SyncSender::send and SyncSender::try_send every wake-up is "
    "issued after the corresponding mpsc send/try_send, and every successful enqueue is followed by a wake-up on all paths; (2) "
    "in Sender/SyncSender the mpsc handle field is declared (hence dropped) before the ping-on-drop field, neither has a Drop "
    "impl, and PingOnDrop::drop pings; (3) on the receiver side the Msg event carries try_recv's Ok payload, Closed is emitted "
    "exactly on the Disconnected edge, draining stops after Closed and the source returns Remove; (4) the bounded batch re-wakes "
    "itself (shared with C02.4); (6) a rendezvous (bound 0) sender either cannot exist or announces itself before parking."
)

MPSC_SENDS = ("std::sync::mpsc::Sender::<T>::send", "std::sync::mpsc::SyncSender::<T>::send", "std::sync::mpsc::SyncSender::<T>::try_send")


def pings_in(body):
    return [cs for cs in body.calls() if cs.name == "ping" and cs.f and cs.f["path"].endswith("Ping::ping") and not body.is_cleanup(cs.bb)]


def closed_rules(ck, C):
    f = ck.facts
    pe = ck.opt_body("<Channel as EventSource>::process_events")
    if pe is None:
        ck.anchor_missing(C, "T4-guarded-by", "<Channel as EventSource>::process_events")
        return None
    inner = T.calls(pe, name="process_events", trait="EventSource")
    cls = [c for cs in inner for c in T.closure_bodies_passed(pe, cs)]
    if not cls:
        ck.anchor_missing(C, "T4-guarded-by", "Channel::process_events: drain closure")
        return None
    cl = cls[0]
    caps = common.closure_captures(pe, cl)
    tr = T.calls(cl, name="try_recv")
    cbs = T.calls(cl, name=("call_mut", "call", "call_once"), self_kind=("param",))
    closed_cb = []
    msg_cb = []
    for cb in cbs:
        ev = set()
        for r, p in cl.resolve(cb.args[1]):
            if r[0] == "agg":
                ev |= T.agg_variant(cl, cl.agg_at(r[1], r[2])["fields"][0])
        if any(v[1] == "Closed" for v in ev):
            closed_cb.append(cb)
        if any(v[1] == "Msg" for v in ev):
            msg_cb.append(cb)
    if not tr or not closed_cb:
        ck.violation(C, "T4-guarded-by", cl, "Closed-on-Disconnected", "the drain closure never emits Event::Closed", site=cl.where())
        return cl
    ok_e, err_e, _ = T.result_split(cl, tr[0].bb)
    # the Disconnected edge: discriminant of the Err payload == Disconnected
    tre = None
    for sw in T.switches_on_expr(cl, lambda e: e[0] == "discr"):
        e = cl.expr(cl.blocks[sw]["term"]["on"], at=sw)
        if any(r == ("call", tr[0].bb) and p == (" as Err", ".0") for r, p in cl.resolve(e[2])):
            tre = sw
    disc_edges = T.discr_edges(cl, tre, 1) if tre is not None else []  # TryRecvError::Disconnected = 1
    for cb in closed_cb:
        ck.verdict(bool(disc_edges) and T.reachable_only_via(cl, cb.bb, disc_edges), C, "T4-guarded-by", cl, "Closed-only-on-Disconnected", "Event::Closed is emitted only on the Disconnected edge of try_recv", "Event::Closed can be emitted although the channel is not disconnected (e.g. on Empty)", site=cl.where(cb.bb))
    if disc_edges:
        bad = T.t2_all_exits(cl, [x for _, x in disc_edges], [cb.bb for cb in closed_cb])
        ck.verdict(bad is None, C, "T2-all-exits", cl, "Disconnected=>Closed", "every path from the Disconnected edge emits Closed", "a disconnected channel can be observed without Closed being delivered", site=cl.where(tr[0].bb))
    # after Closed: no further try_recv, flag set, loop left
    for cb in closed_cb:
        again = cl.find_path([cb.to], [tr[0].bb])
        ck.verdict(again is None, C, "T5-loop-exit", cl, "no-drain-after-Closed", "after Closed the drain loop is left without another try_recv (nothing is delivered after Closed, Closed is delivered once)", "the drain loop continues after Event::Closed: Closed can be delivered again or followed by messages", site=cl.where(cb.bb))
        cells = common.ClosureCells(pe, cl)
        set_after = [i for i, c in cells.set_stores() if i in cl.reachable([cb.to])]
        bad = T.t2_all_exits(cl, [cb.to], set_after) if set_after else [0]
        ck.verdict(bad is None, C, "T2-all-exits", cl, "Closed=>disconnected-flag", "the 'disconnected' flag is set on every path after Closed", "Closed can be delivered without the source remembering it (it would not remove itself)", site=cl.where(cb.bb))
    # parent: flag => Remove
    rets = T.ok_returns(pe)
    rm = [i for i, v in rets if v == {("sources::PostAction", "Remove")}]
    # which cell is set after Closed? the one whose store follows the Closed callback
    cells = common.ClosureCells(pe, cl)
    disc_cells = {c for i, c in cells.set_stores() if any(i in cl.reachable([cb.to]) for cb in closed_cb)}
    ok = False
    if disc_cells and rm:
        for cell in disc_cells:
            # the value(s) stored after Closed (an enum-valued cell may record other outcomes of the drain as well)
            dvals = {v for i, c, v in cells.set_stores_valued() if c == cell and any(i in cl.reachable([cb.to]) for cb in closed_cb)}
            yes, no = cells.set_edges(cell, values=dvals)
            if not yes:
                continue
            others = [i for i, v in rets if i not in rm]
            ok_e2, _, _ = T.result_split(pe, inner[0].bb)
            starts2 = [x for _, x in ok_e2] or [inner[0].to]
            # with the flag set (the 'not set' edges of its test removed) no successful return other than Remove is reachable
            if pe.find_path(starts2, others, removed_edges=no) is None and all(pe.find_path([t for _, t in yes], [i]) for i in rm):
                ok = True
    ck.verdict(ok, C, "T4-guarded-by", pe, "disconnected=>Remove", "once Closed was delivered the source returns PostAction::Remove (it never keeps the loop spinning on a dead channel)", "after Closed the channel source does not return Remove: it stays registered with a permanently readable eventfd / delivers Closed again", site=pe.where())
    return cl


def run(ck):
    f = ck.facts
    # ---- clause 1: enqueue first, wake second --------------------------------------------------------------
    n1 = 0
    units = []
    for q, pth in (("Sender::send", "sources::channel::Sender::<T>::send"), ("SyncSender::send", "sources::channel::SyncSender::<T>::send"), ("SyncSender::try_send", "sources::channel::SyncSender::<T>::try_send")):
        b = ck.body_by_path(pth)
        if b is None:
            ck.anchor_missing("1", "T3-must-precede", q)
            continue
        units.append((q, b))
        # a closure of the function that itself enqueues (e.g. the fallback handed to Result::or_else) is a unit
        # of its own: the same pairing must hold inside it
        for c in f.closures_of(b):
            if any(cs.f and cs.f["path"] in MPSC_SENDS and not c.is_cleanup(cs.bb) for cs in c.calls()):
                units.append((q + "::closure", c))
    for q, b in units:
        sends = [cs for cs in b.calls() if cs.f and cs.f["path"] in MPSC_SENDS and not b.is_cleanup(cs.bb)]
        # local callees that themselves enqueue-and-ping (SyncSender::send -> self.try_send)
        local_sends = [cs for cs in b.calls() if cs.callee_body() is not None and cs.callee_body().path in ("sources::channel::SyncSender::<T>::try_send", "sources::channel::Sender::<T>::send") and not b.is_cleanup(cs.bb)]
        ping_sites = []  # (bb, kind, send it is tied to)
        for p in pings_in(b):
            ping_sites.append((p.bb, "direct", None))
        for cs in b.calls():
            if b.is_cleanup(cs.bb) or cs.name not in ("map", "and_then", "inspect"):
                continue
            for cb in T.closure_bodies_passed(b, cs):
                pp = pings_in(cb)
                if pp and T.t2_all_exits(cb, [0], [x.bb for x in pp]) is None:
                    tied = [s for s in sends if T.resolves_to_call(b, cs.args[0], [s.bb])]
                    ping_sites.append((cs.bb, "on-Ok-of", tied[0] if tied else None))
        if not sends and not local_sends:
            ck.anchor_missing("1", "T3-must-precede", q + ": mpsc send")
            continue
        for bb, kind, tied in ping_sites:
            n1 += 1
            if kind == "on-Ok-of":
                ck.verdict(tied is not None, "1", "T3-must-precede", b, "wake-after-enqueue@%s" % kind, "the wake-up runs inside Result::map on the result of the mpsc send: only after, and only if, the message was enqueued", "the wake-up closure is not applied to the result of the mpsc send", site=b.where(bb))
            else:
                dom = [s.bb for s in sends + local_sends]
                ck.verdict(T.t3_dominated_by_any(b, bb, dom), "1", "T3-must-precede", b, "wake-after-enqueue@direct", "the wake-up is dominated by the enqueue", "a wake-up is issued before (or without) the enqueue: the loop can drain an empty queue, go back to sleep, and never see the message", site=b.where(bb))
        # completeness: every successful enqueue is followed by a wake-up
        for s in sends:
            n1 += 1
            ok_e, err_e, direct = T.result_split(b, s.bb)
            sites = [bb for bb, kind, tied in ping_sites if kind == "direct" or tied is s]
            if ok_e:
                # Err(Full) also needs the wake (try_send): only the Disconnected edge may skip it
                bad = T.t2_all_exits(b, [x for _, x in ok_e], sites)
            else:
                bad = T.t2_all_exits(b, [s.to], sites)
            ck.verdict(bad is None, "1", "T2-all-exits", b, "enqueue=>wake:%s" % s.name, "every path from a successful enqueue reaches a wake-up", "a message can be enqueued without a wake-up being issued afterwards: it stays queued until something else wakes the loop", site=b.where(s.bb), path=path_descr(b, bad) if bad else None)
        for s in local_sends:
            cbd = s.callee_body()
            ck.ok("1", "T2-all-exits", b, "enqueue=>wake:via-%s" % cbd.qual, "delegates to %s, which is checked itself" % cbd.qual, site=b.where(s.bb), nontrivial=False)
    # a blocking send is preceded by a wake-up (the loop must be draining for a rendezvous / full channel to make
    # progress), and a Full answer of try_send still wakes the loop
    ss = ck.body_by_path("sources::channel::SyncSender::<T>::send")
    if ss is not None:
        blocking = [(ss, cs, None) for cs in ss.calls() if cs.f and cs.f["path"] == "std::sync::mpsc::SyncSender::<T>::send" and not ss.is_cleanup(cs.bb)]
        for c in f.closures_of(ss):
            # the blocking send sits in a closure handed to a combinator: the combinator call is the site
            holders = [h.bb for h in ss.calls() if not ss.is_cleanup(h.bb) and c in T.closure_bodies_passed(ss, h)]
            blocking += [(c, cs, holders) for cs in c.calls() if cs.f and cs.f["path"] == "std::sync::mpsc::SyncSender::<T>::send" and not c.is_cleanup(cs.bb)]
        wake_before = [cs.bb for cs in pings_in(ss)] + [cs.bb for cs in ss.calls() if cs.callee_body() is not None and cs.callee_body().path == "sources::channel::SyncSender::<T>::try_send"]
        for owner, cs, holders in blocking:
            if holders is None:
                dom = T.t3_dominated_by_any(ss, cs.bb, wake_before)
            else:
                dom = bool(holders) and all(T.t3_dominated_by_any(ss, h, wake_before) for h in holders) or T.t3_dominated_by_any(owner, cs.bb, [p.bb for p in pings_in(owner)])
            ck.verdict(dom, "1", "T3-must-precede", ss, "wake-before-blocking-send", "the blocking send is preceded by a wake-up of the loop (through try_send, which pings when the queue is full)", "SyncSender::send can block without having woken the loop first: with sync_channel(0) the sender and the loop wait for each other for ever", site=owner.where(cs.bb))
    ts = ck.body_by_path("sources::channel::SyncSender::<T>::try_send")
    if ts is not None:
        m = [cs for cs in ts.calls() if cs.f and cs.f["path"] == "std::sync::mpsc::SyncSender::<T>::try_send" and not ts.is_cleanup(cs.bb)]
        pg = pings_in(ts)
        for cs in m:
            ok_e, err_e, _ = T.result_split(ts, cs.bb)
            full = []
            for sw in T.switches_on_expr(ts, lambda e: e[0] == "discr"):
                e = ts.expr(ts.blocks[sw]["term"]["on"], at=sw)
                if any(r == ("call", cs.bb) and p == (" as Err", ".0") for r, p in ts.resolve(e[2])):
                    full += T.discr_edges(ts, sw, 0)  # TrySendError::Full = 0
            bad = T.t2_all_exits(ts, [x for _, x in full], [p.bb for p in pg]) if full and pg else ([0] if not pg else None)
            ck.verdict(bool(full) and bad is None, "1", "T2-all-exits", ts, "Full=>wake", "a full queue still wakes the loop (so that it drains and the sender can make progress)", "try_send does not wake the loop when the queue is full", site=ts.where(cs.bb))
    ck.floor("1", "channel sender wake/enqueue instances", n1, 6)

    # ---- clause 2: drop order -----------------------------------------------------------------------------------
    for adt_path in ("sources::channel::Sender", "sources::channel::SyncSender"):
        a = f.adts.get(adt_path)
        if a is None:
            ck.anchor_missing("2", "T9-layout", adt_path)
            continue
        flds = a["variants"][0]["fields"]
        idx_q = [i for i, x in enumerate(flds) if "mpsc::" in f.types[x["ty"]]["s"] or "mpmc" in f.types[x["ty"]]["s"]]
        idx_p = [i for i, x in enumerate(flds) if "PingOnDrop" in f.types[x["ty"]]["s"]]
        ok = bool(idx_q) and bool(idx_p) and max(idx_q) < min(idx_p) and not a["has_drop"]
        ck.verdict(ok, "2", "T9-layout", adt_path, "queue-handle-declared-before-ping-on-drop", "fields are dropped in declaration order: the mpsc handle (disconnect) first, then the ping-on-drop guard, so the wake-up that follows the last sender's drop always observes Disconnected", "the ping-on-drop guard is dropped before the mpsc handle (or the type has a Drop impl): the loop can observe Empty after the final ping, sleep, and never deliver Closed", site="%s:%d" % (a["span"]["file"], a["span"]["line"]))
    pod = ck.opt_body("<PingOnDrop as Drop>::drop")
    if pod is None:
        ck.anchor_missing("2", "T2-all-exits", "<PingOnDrop as Drop>::drop")
    else:
        pp = pings_in(pod)
        ck.verdict(bool(pp) and T.t2_all_exits(pod, [0], [x.bb for x in pp]) is None, "2", "T2-all-exits", pod, "drop=>ping", "dropping the guard always pings", "PingOnDrop::drop does not ping", site=pod.where())

    # ---- clause 3: receiver side ----------------------------------------------------------------------------------
    cl = closed_rules(ck, "3")
    if cl is not None:
        tr = T.calls(cl, name="try_recv")
        for cb in T.calls(cl, name=("call_mut", "call", "call_once"), self_kind=("param",)):
            for r, p in cl.resolve(cb.args[1]):
                if r[0] == "agg":
                    rv = cl.agg_at(r[1], r[2])
                    for r2, p2 in cl.resolve(rv["fields"][0]):
                        if r2[0] == "agg" and cl.agg_at(r2[1], r2[2]).get("variant") == "Msg":
                            val = cl.agg_at(r2[1], r2[2])["fields"][0]
                            ck.verdict(any(rr == ("call", tr[0].bb) and pp == (" as Ok", ".0") for rr, pp in cl.resolve(val)) if tr else False, "3", "T6-provenance", cl, "Msg-carries-try_recv-payload", "Event::Msg carries exactly the value popped by try_recv", "Event::Msg does not carry the value returned by try_recv", site=cl.where(cb.bb))
        ck.verdict(len(tr) == 1, "3", "T7-who-may-call", cl, "single-try_recv-site", "the queue is popped at one site", "the queue is popped at %d sites" % len(tr), site=cl.where(), nontrivial=False)
    # ---- clause 4: shared with C02.4 -----------------------------------------------------------------------------------
    from props import C02

    common.import_results(ck, C02, "4", "Channel", "4")

    # ---- clause 6: a blocking send on a rendezvous channel (bound 0) -------------------------------------------------
    # The receiver only ever try_recv()s, in response to pings. A rendezvous try_recv succeeds only while a sender is
    # parked in send(); try_send on it never succeeds. So a sender that parks after its last wake-up was consumed is never
    # served: "a blocking synchronous send completes as long as the loop keeps dispatching" needs, for bound 0, either that
    # bound 0 never reaches mpsc::sync_channel, or that the sender announces itself (an atomic the receiver reads on its
    # Empty edge and keeps polling for) before it parks.
    sc = ck.opt_body("sources::channel::sync_channel")
    ss = ck.opt_body("SyncSender::send")
    if sc is None or ss is None:
        ck.anchor_missing("6", "T3-must-precede", "sources::channel::sync_channel / SyncSender::send")
    else:
        mk = [c for c in sc.calls() if c.f and c.f["path"].startswith("std::sync::mpsc::sync_channel") and not sc.is_cleanup(c.bb)]
        raw_bound = bool(mk) and any(T.resolves_to_arg(sc, c.args[0], 1) and all(r_[0] == "arg" for r_, p_ in sc.resolve(c.args[0])) for c in mk)
        parks = [c for c in ss.calls() if c.f and c.f["path"] == "std::sync::mpsc::SyncSender::<T>::send" and not ss.is_cleanup(c.bb)]
        announced = False
        rmw = [c for c in ss.calls() if c.f and "atomic::Atomic" in c.f["path"] and c.name in ("fetch_add", "store", "swap", "fetch_or") and not ss.is_cleanup(c.bb)]
        if cl is not None and parks and rmw and all(any(ss.dominates(w.bb, p_.bb) for w in rmw) for p_ in parks):
            announced = any(c.f and "atomic::Atomic" in c.f["path"] and c.name == "load" for v_ in [cl] + list(f.closures_of(cl)) for c in v_.calls())
        if not mk or not parks:
            ck.anchor_missing("6", "T3-must-precede", "mpsc::sync_channel in sync_channel / the blocking mpsc send in SyncSender::send")
        else:
            ck.verdict((not raw_bound) or announced, "6", "T3-must-precede", ss, "rendezvous-sender-parks-after-its-last-wake-up", "bound 0 never reaches the mpsc channel, or a sender announces itself before parking and the receiver keeps polling while one is announced", "sync_channel(0) builds a rendezvous channel and SyncSender::send parks in the blocking mpsc send after the only wake-up it issues beforehand (try_send's ping): if the loop consumes that ping and finds the queue Empty before the sender has parked, nothing wakes the channel source again and the send never completes although the loop keeps dispatching", site=ss.where(parks[0].bb))

    # ---- clause 5: shared necessary conditions of a ping-backed, loop-dispatched source -------------------------
    common.ping_infra(ck, "5")
    common.dispatch_infra(ck, "5")
    # ---- shared clauses demonstrated by seeding round 7 (the property broken from a distant module) --------------
    from props import common as _c7
    import importlib as _il
    _m = lambda n: _il.import_module('props.' + n)
    _c7.import_results(ck, _m("C05"), "1", "Poll::poll", "5")
    _c7.import_results(ck, _m("C02"), "2", "Poll::poll", "5")
    _c7.import_results(ck, _m("C01"), "4", None, "5")  # slot generations: a stale token never aliases the channel
    _m("C01").token_factory_rules(ck, "5")  # sub-tokens of a composite of channels stay distinct across re-registration

