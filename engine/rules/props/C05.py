"""C05 — timers: never early, deadline order, exactly once per arming, cancel is final."""
from mir import op_place, place_str
import templates as T
from core import path_descr, AnchorMissing

LEVEL = "other"
CONFIGS = ["full", "book", "default"]
NOT_DECIDED = [
    "wall-clock relation between callback time and deadline beyond the comparison; 'fires in the first dispatch that polls at or after the deadline'",
    "loss of already-popped timers when another source's processing fails (structural part reported under C15.5, known finding)",
]
EXPLANATION = (
    "Decides on the MIR: (1) TimerWheel::next_expired pops only on the edge where now >= deadline (direction of the comparison "
    "and which edge guards the pop); (2) TimeoutData's order is the reverse of Instant's order on the two deadlines and "
    "partial_cmp forwards to it; (3) the callback receives self.deadline; (4) Timer::unregister cancels its counter on every path "
    "on which it was armed, and cancel physically removes every heap entry with that counter; (5) insert returns the counter it "
    "stored and advances it on every path; a reschedule re-inserts under the same counter/token with the deadline it records; "
    "Drop and an unrepresentable duration return Remove; reregister = unregister then register; (6) the callback is "
    "control-dependent on a check that ties the expiry event to the current arming (registration.counter)."
)

EXPIRED_TRUE = {("ge", "now", "deadline"), ("gt", "now", "deadline"), ("le", "deadline", "now"), ("lt", "deadline", "now")}
EXPIRED_FALSE = {("lt", "now", "deadline"), ("le", "now", "deadline"), ("gt", "deadline", "now"), ("ge", "deadline", "now")}
STRICT_OK = {("ge", "now", "deadline"), ("le", "deadline", "now"), ("lt", "now", "deadline"), ("gt", "deadline", "now")}


def role(body, op, now_pred):
    if T.path_has(body, op, ".deadline"):
        return "deadline"
    if now_pred(op):
        return "now"
    return "?"


def whole_heap_scan(b):
    """the function's boolean answer derives from `self.heap.iter()` consumed by any / find / position / all /
    filter / a `for` loop, with a predicate comparing the entry's `counter` with the function's parameter"""
    f = b.facts
    iters = [c.bb for c in T.calls(b, name=("iter", "into_iter", "iter_mut", "drain", "into_sorted_vec", "into_vec", "as_slice")) if T.path_has(b, c.args[0], ".heap") and not b.is_cleanup(c.bb)]
    if not iters:
        return False
    ok = False
    for c in T.calls(b, name=("any", "find", "position", "all", "filter", "find_map", "contains")):
        if b.is_cleanup(c.bb) or not T.tainted_by_call(b, c.args[0], iters):
            continue
        for cb in T.closure_bodies_passed(b, c):
            for i, j, st in cb.statements():
                if st["s"] == "assign" and st["rv"]["r"] == "bin" and st["rv"]["op"] in ("Eq", "Ne"):
                    fc = T.field_cmp(cb, st["rv"])
                    if fc and "counter" in (fc[1], fc[3]):
                        ok = True
    # an explicit loop over the iterator
    for h, blk in b.loops().items():
        hc = b.call_at(h)
        if hc is None or hc.name != "next" or not T.tainted_by_call(b, hc.args[0], iters):
            continue
        for i, j, st in b.statements():
            if i in blk and st["s"] == "assign" and st["rv"]["r"] == "bin" and st["rv"]["op"] in ("Eq", "Ne"):
                fc = T.field_cmp(b, st["rv"])
                if fc and "counter" in (fc[1], fc[3]):
                    ok = True
    # the returned value must come from that scan
    return ok and T.tainted_by_call(b, {"c": {"l": 0, "p": [], "t": 0}}, iters)


def cancel_rules(ck, C):
    f = ck.facts
    tu = ck.body(C, "<Timer as EventSource>::unregister")
    takes = [cs for cs in T.calls(tu, name=("take", "replace", "as_ref", "as_mut")) if T.path_has(tu, cs.args[0], ".registration")]
    cancels = T.calls(tu, name="cancel", path="TimerWheel")
    if not cancels:
        ck.violation(C, "T2-all-exits", tu, "armed=>cancel", "Timer::unregister never cancels its heap entry: a disabled/removed/re-armed timer still fires and its entries accumulate", site=tu.where())
    else:
        some = []
        for tk in takes:
            s_, n_ = T.option_split(tu, tk.bb)
            some += s_
        if not some:
            # field tested directly
            for sw in T.switches_on_expr(tu, lambda e: e[0] == "discr"):
                e = tu.expr(tu.blocks[sw]["term"]["on"], at=sw)
                if any(".registration" in p for r, p in tu.resolve(e[2])):
                    some += T.discr_edges(tu, sw, 1)
        bad = T.t2_all_exits(tu, [x for _, x in some], [c.bb for c in cancels]) if some else [0]
        ck.verdict(bad is None, C, "T2-all-exits", tu, "armed=>cancel", "every path on which a registration was present cancels it in the wheel", "a path through Timer::unregister leaves the armed entry in the wheel", site=tu.where(cancels[0].bb))
        for c in cancels:
            ck.verdict(T.path_has(tu, c.args[1], ".counter"), C, "T6-provenance", tu, "cancel(registration.counter)", "the cancelled counter is the registration's own", "cancel is not given the registration's counter", site=tu.where(c.bb))
    cn = ck.body(C, "TimerWheel::cancel")
    removers = [cs for cs in T.calls(cn, name=("retain", "pop", "remove", "drain", "clear", "retain_mut")) if T.path_has(cn, cs.args[0], ".heap")]
    ret = [cs for cs in removers if cs.name in ("retain", "retain_mut")]
    ck.verdict(bool(removers), C, "T7-who-may-call", cn, "cancel-removes-from-heap", "cancel physically removes entries from the heap", "TimerWheel::cancel does not remove the entry from the heap (lazy cancellation): next_deadline() keeps reporting the cancelled deadline, so dispatch() wakes up early for nothing and residue accumulates", site=cn.where())
    for cs in ret:
        ok = False
        for cb in T.closure_bodies_passed(cn, cs):
            for i, j, st in cb.statements():
                if st["s"] == "assign" and st["pl"]["l"] == 0 and st["rv"]["r"] == "bin":
                    fc = T.field_cmp(cb, st["rv"])
                    if fc and fc[0] == "Ne" and fc[1] == "counter" and fc[3] == "counter":
                        ok = True
        ck.verdict(ok, C, "T6-provenance", cn, "retain-keeps-iff-counter-differs", "retain keeps exactly the entries whose counter differs", "the retain predicate of cancel is not `entry.counter != counter` (it would remove the wrong timers)", site=cn.where(cs.bb))
    pops = [cs for cs in removers if cs.name == "pop"]
    for cs in pops:
        ok = False
        for c2 in cn.calls():
            for cb in T.closure_bodies_passed(cn, c2):
                for i, j, st in cb.statements():
                    if st["s"] == "assign" and st["pl"]["l"] == 0 and st["rv"]["r"] == "bin":
                        fc = T.field_cmp(cb, st["rv"])
                        if fc and fc[0] == "Eq" and fc[1] == "counter" and fc[3] == "counter":
                            # the pop must be on the true edge of the chain built from this closure
                            for sw, blk in enumerate(cn.blocks):
                                if blk["term"]["t"] == "switch" and T.tainted_by_call(cn, blk["term"]["on"], [c2.bb]):
                                    if T.reachable_only_via(cn, cs.bb, T.edges_of_value(cn, sw, True)):
                                        ok = True
        # the same test written in the function itself (`matches!(self.heap.peek(), Some(n) if n.counter == counter)`)
        peeks = [c.bb for c in T.calls(cn, name="peek") if T.path_has(cn, c.args[0], ".heap")]
        for i, j, st in cn.statements():
            if st["s"] == "assign" and st["rv"]["r"] == "bin" and not st["pl"]["p"] and not cn.is_cleanup(i):
                fc = T.field_cmp(cn, st["rv"])
                if not (fc and fc[0] == "Eq" and fc[1] == "counter" and (fc[2] == ("arg", 2) or fc[4] == ("arg", 2))):
                    continue
                if not any(T.resolves_to_call(cn, x, peeks) for x in (st["rv"]["a"], st["rv"]["b"])):
                    continue
                for sw, blk in enumerate(cn.blocks):
                    if blk["term"]["t"] == "switch" and (st["pl"]["l"] in T.copy_chain_locals(cn, blk["term"]["on"]) or any(r == ("rv", i, j) and not p for r, p in cn.resolve(blk["term"]["on"]))):
                        if T.reachable_only_via(cn, cs.bb, T.edges_of_value(cn, sw, True)):
                            ok = True
        ck.verdict(ok, C, "T4-guarded-by", cn, "fast-path-pop-only-if-head-has-this-counter", "the fast path pops the head only when its counter matches", "cancel pops the head of the heap without it carrying the cancelled counter", site=cn.where(cs.bb))
    # every path through cancel performs a removal on the heap
    bad = T.t2_all_exits(cn, [0], [c.bb for c in removers]) if removers else [0]
    ck.verdict(bad is None, C, "T2-all-exits", cn, "every-path-removes-from-heap", "every path through cancel removes from the heap", "a path through TimerWheel::cancel leaves the entry in the heap (lazy cancellation): next_deadline() keeps reporting a cancelled deadline, so dispatch() wakes up early for nothing and residue accumulates", site=cn.where(), path=path_descr(cn, bad) if bad else None)
    # Timer::unregister forgets its registration (a later expiry event / re-arm cannot reuse a cancelled arming)
    forget = [cs.bb for cs in T.calls(tu, name=("take", "replace")) if T.path_has(tu, cs.args[0], ".registration")] + [i for i, j, st in T.stores_to_field(tu, "registration") if st["rv"]["r"] == "use" and any(v[1] == "None" for v in T.agg_variant(tu, st["rv"]["o"]))]
    bad = T.t2_all_exits(tu, [0], forget) if forget else [0]
    ck.verdict(bad is None, C, "T2-all-exits", tu, "unregister=>registration-forgotten", "Timer::unregister leaves registration = None on every path", "Timer::unregister keeps its registration: an expiry already collected in this dispatch still fires the cancelled arming, and a reschedule re-inserts an entry for a disabled timer", site=tu.where())


def run(ck):
    f = ck.facts
    # ---- clause 1: never early, at the wheel ------------------------------------------------------------
    ne = ck.body("1", "TimerWheel::next_expired")
    pops = [cs for cs in T.calls(ne, name=("pop", "remove")) if T.path_has(ne, cs.args[0], ".heap")]
    # `PeekMut::pop(guard)` on a guard obtained from `heap.peek_mut()` pops the same (greatest) element
    pms = [c.bb for c in T.calls(ne, name="peek_mut") if T.path_has(ne, c.args[0], ".heap")]
    pops += [cs for cs in T.calls(ne, name="pop") if cs.f and "PeekMut" in (cs.f.get("path") or "") and (T.resolves_to_call(ne, cs.args[0], pms) or T.tainted_by_call(ne, cs.args[0], pms))]
    ck.floor("1", "next_expired: heap pop", len(pops), 1)
    cmps = []
    for body in [ne] + f.closures_of(ne):
        for cs in T.calls(body, name=("ge", "gt", "le", "lt"), trait="PartialOrd"):
            if body is ne:
                now_pred = lambda op, body=body: T.resolves_to_arg(body, op, 2)
            else:
                now_pred = lambda op, body=body: T.path_has(body, op, ".now") or (T.resolves_to_arg(body, op, 1) and not T.path_has(body, op, ".deadline"))
            cmps.append((body, cs, (cs.name, role(body, cs.args[0], now_pred), role(body, cs.args[1], now_pred))))
    if not cmps:
        ck.anchor_missing("1", "T4-guarded-by", "comparison of now with a deadline in next_expired")
    for body, cs, shape in cmps:
        if shape in EXPIRED_TRUE:
            pol = True
        elif shape in EXPIRED_FALSE:
            pol = False
        else:
            ck.undecided("1", "T4-guarded-by", body, "expiry-comparison", "comparison %s not recognised as now-vs-deadline; counted as undecided" % (shape,), site=body.where(cs.bb))
            continue
        for p in pops:
            if body is ne:
                tr, fa = T.bool_split(ne, cs.bb)
                edges = tr if pol else fa
                ok = bool(edges) and T.reachable_only_via(ne, p.bb, edges)
            else:
                # a filter closure: returns the comparison; keep == expired must mean "true"
                ret_is_cmp = cs.dest["l"] == 0
                neg = False
                if not ret_is_cmp:
                    for i, j, st in body.statements():
                        if st["s"] == "assign" and st["pl"]["l"] == 0 and st["rv"]["r"] == "un" and st["rv"]["op"] == "Not" and T.resolves_to_call(body, st["rv"]["a"], [cs.bb]):
                            ret_is_cmp, neg = True, True
                keep_means_expired = ret_is_cmp and (pol != neg)
                filt = [c for c in T.calls(ne, name=("filter", "is_some_and", "map_or", "take_if")) if body in T.closure_bodies_passed(ne, c)]
                ok = False
                for fc in filt:
                    some, none = T.option_split(ne, fc.bb)
                    if some and T.reachable_only_via(ne, p.bb, some) and keep_means_expired:
                        ok = True
            ck.verdict(ok, "1", "T4-guarded-by", ne, "pop-only-if-now>=deadline", "a timer is popped only on the edge where %s holds" % ("now >= deadline" if shape in STRICT_OK else "now > deadline"), "TimerWheel::next_expired pops a timer on the edge where its deadline has NOT been reached (comparison %s): timers fire early" % (shape,), site=ne.where(p.bb))
    # the clock handed to next_expired is sampled after the wait returned
    pp = ck.opt_body("Poll::poll")
    if pp is None:
        ck.anchor_missing("1", "T6-provenance", "Poll::poll")
    else:
        nes = T.calls(pp, name="next_expired")
        waits = [cs for cs in pp.calls() if cs.f and cs.f["path"].startswith("polling::Poller::wait") and not pp.is_cleanup(cs.bb)]
        nows = [cs for cs in pp.calls() if cs.f and cs.f["path"] == "std::time::Instant::now"]
        for n in nes:
            ok = False
            for r, p in pp.resolve(n.args[1]):
                if r[0] == "call" and not p:
                    c = pp.call_at(r[1])
                    if c.f["path"] == "std::time::Instant::now" and waits and pp.dominates(waits[0].bb, c.bb):
                        ok = True
            only = all(r[0] == "call" and pp.call_at(r[1]).f["path"] == "std::time::Instant::now" and not p for r, p in pp.resolve(n.args[1]))
            ck.verdict(ok and only, "1", "T6-provenance", pp, "expiry-clock=Instant::now()-after-wait", "timers are tested against Instant::now() sampled after the wait returned", "the clock used to expire timers is not Instant::now() taken after the wait (%s): a wait cut short by a wake-up would fire timers before their deadline" % pp.roots_str(n.args[1]), site=pp.where(n.bb))
    # ---- clause 2: deadline order --------------------------------------------------------------------------
    oc = ck.opt_body("<TimeoutData as Ord>::cmp")
    if oc is None:
        ck.anchor_missing("2", "T6-provenance", "<TimeoutData as Ord>::cmp")
    else:
        inner = [cs for cs in T.calls(oc, name=("cmp", "partial_cmp")) if T.path_has(oc, cs.args[0], ".deadline") and T.path_has(oc, cs.args[1], ".deadline")]
        rev = T.calls(oc, name="reverse")
        ok = False
        if len(inner) == 1:
            c = inner[0]
            straight = T.resolves_to_arg(oc, c.args[0], 1) and T.resolves_to_arg(oc, c.args[1], 2)
            swapped = T.resolves_to_arg(oc, c.args[0], 2) and T.resolves_to_arg(oc, c.args[1], 1)
            nrev = len([r for r in rev if T.tainted_by_call(oc, r.args[0], [c.bb])])
            returned = T.tainted_by_call(oc, {"c": {"l": 0, "p": [], "t": 0}}, [c.bb]) or any(T.tainted_by_call(oc, st["rv"].get("o", {}), [c.bb]) for i, j, st in oc.statements() if st["pl"]["l"] == 0 and st["s"] == "assign" and "o" in st["rv"]) or c.dest["l"] == 0 or any(r.dest["l"] == 0 for r in rev)
            ok = returned and ((straight and nrev % 2 == 1) or (swapped and nrev % 2 == 0))
        ck.verdict(ok, "2", "T6-provenance", oc, "order=reverse(deadline-order)", "TimeoutData is ordered by deadline, reversed (BinaryHeap is a max-heap, so the earliest deadline is on top)", "TimeoutData::cmp is not the reverse of the deadline order: the heap no longer yields the earliest deadline first (later timers fire first, next_deadline is wrong)", site=oc.where())
        pc = ck.opt_body("<TimeoutData as PartialOrd>::partial_cmp")
        if pc is not None:
            fw = [cs for cs in T.calls(pc, name="cmp") if T.resolves_to_arg(pc, cs.args[0], 1) and T.resolves_to_arg(pc, cs.args[1], 2)]
            ck.verdict(bool(fw), "2", "T8-sibling-agreement", pc, "partial_cmp-forwards-to-cmp", "partial_cmp is Some(self.cmp(other))", "partial_cmp does not forward to cmp(self, other)", site=pc.where())

    # ---- clause 3 / 5b / 6 in Timer::process_events ----------------------------------------------------------
    pe = ck.body("3", "<Timer as EventSource>::process_events")
    cbs = T.calls(pe, name=("call_mut", "call", "call_once"), self_kind=("param",))
    ck.floor("3", "Timer::process_events: callback call", len(cbs), 1)
    for cb in cbs:
        tup = cb.args[1]
        ok = False
        for r, p in pe.resolve(tup):
            if r[0] == "agg":
                rv = pe.agg_at(r[1], r[2])
                ok = T.path_has(pe, rv["fields"][0], ".deadline") and T.resolves_to_arg(pe, rv["fields"][0], 1)
        ck.verdict(ok, "3", "T6-provenance", pe, "event=self.deadline", "the callback receives the timer's recorded deadline", "the timer callback is not given the recorded deadline: %s" % pe.roots_str(tup), site=pe.where(cb.bb))
        # clause 6: arming identity
        ok6 = False
        for q in pe.calls():
            if not (q.f and q.f["path"].startswith("sources::timer::TimerWheel::")) or q.name in ("insert", "insert_reuse", "cancel", "new"):
                continue
            if not any(T.path_has(pe, a, ".counter") for a in q.args[1:]):
                continue
            tr, fa = T.bool_split(pe, q.bb)
            if (tr and T.reachable_only_via(pe, cb.bb, tr)) or (fa and T.reachable_only_via(pe, cb.bb, fa)):
                ok6 = True
        for i, j, st in pe.statements():
            if st["s"] == "assign" and st["rv"]["r"] == "bin" and st["rv"]["op"] in ("Eq", "Ne"):
                fc = T.field_cmp(pe, st["rv"])
                if fc and "counter" in (fc[1], fc[3]):
                    for sw, blk in enumerate(pe.blocks):
                        on = op_place(blk["term"]["on"]) if blk["term"]["t"] == "switch" else None
                        if on is not None and on["l"] == st["pl"]["l"]:
                            if T.reachable_only_via(pe, cb.bb, T.edges_of_value(pe, sw, st["rv"]["op"] == "Eq")):
                                ok6 = True
        # the wheel predicates that guard is built on must look at the *whole* heap: the re-armed entry is in general
        # not the earliest one
        for q in pe.calls():
            cbq = q.callee_body()
            if cbq is None or not cbq.path.startswith("sources::timer::TimerWheel::") or q.name in ("insert", "insert_reuse", "cancel", "new"):
                continue
            if not any(T.path_has(pe, a, ".counter") for a in q.args[1:]):
                continue
            whole = whole_heap_scan(cbq)
            ck.verdict(whole, "6", "T6-provenance", cbq, "arming-lookup-scans-whole-heap", "the answer is computed from an iteration over every entry of the heap, comparing each entry's counter with the asked one", "%s does not scan the whole heap for the asked counter (it looks at the head only, or at nothing): when another timer has an earlier deadline the pending re-armed entry is not seen, and the stale expiry of the previous arming fires the callback" % cbq.qual, site=cbq.where())
        ck.verdict(ok6, "6", "T4-guarded-by", pe, "callback-only-for-current-arming", "the callback is control-dependent on a check involving registration.counter: an expiry event of an earlier arming (same token, already re-armed from another callback in the batch) is ignored", "the only guard of the timer callback is the token, which is identical for every arming of the timer: after set_deadline()+update() from another source's callback in the batch in which it expired, the stale expiry event fires the callback before the new deadline (and a reschedule then leaves two entries in the heap)", site=pe.where(cb.bb))
    # a ToDuration(d) reschedule counts from *now* (sampled after the callback returned), not from the deadline that
    # just fired: counted from the old deadline the new arming is early by however late the old one was served
    cbs_pe = T.calls(pe, name=("call_mut", "call", "call_once"), self_kind=("param",))
    adds = [c for c in pe.calls() if not pe.is_cleanup(c.bb) and c.name in ("checked_add", "add", "saturating_add") and c.f and "Instant" in (c.f.get("full") or c.f["path"])]
    for a in adds:
        from_cb = any(T.tainted_by_call(pe, x, [c.bb for c in cbs_pe]) for x in a.args[1:])
        if not from_cb:
            continue
        nows = [c.bb for c in pe.calls() if c.f and c.f["path"] == "std::time::Instant::now" and not pe.is_cleanup(c.bb) and any(pe.dominates(cb.bb, c.bb) for cb in cbs_pe)]
        base_ok = bool(nows) and T.resolves_to_call(pe, a.args[0], nows)
        ck.verdict(base_ok, "3", "T6-provenance", pe, "ToDuration-counts-from-now-after-callback", "the duration returned by the callback is added to Instant::now() sampled after the callback", "the duration returned by the callback is not added to an Instant::now() sampled after the callback (%s): the next arming fires earlier than `duration` after the callback returned" % pe.roots_str(a.args[0]), site=pe.where(a.bb))
    ir = T.calls(pe, name="insert_reuse")
    ck.floor("5", "Timer::process_events: insert_reuse", len(ir), 1)
    for c in ir:
        okc = T.path_has(pe, c.args[1], ".counter") and T.path_has(pe, c.args[3], ".token")
        dl_stores = [(i, st) for i, j, st in T.stores_to_field(pe, "deadline") if st["rv"]["r"] == "use" and any(v[1] == "Some" for v in T.agg_variant(pe, st["rv"]["o"]))]
        same = False
        for i, st in dl_stores:
            for r, p in pe.resolve(st["rv"]["o"]):
                if r[0] == "agg":
                    fld = pe.agg_at(r[1], r[2])["fields"][0]
                    if T.copy_chain_locals(pe, fld) & T.copy_chain_locals(pe, c.args[2]):
                        same = True
        ck.verdict(okc and same, "5", "T6-provenance", pe, "re-arm:same-counter,same-token,recorded-deadline", "a reschedule re-inserts under the registration's counter and token with the deadline it records in self.deadline", "a reschedule does not re-insert under the same counter/token with the deadline it records (residue in the wheel, or the callback later reports a different deadline)", site=pe.where(c.bb))
        bad = T.t2_all_exits(pe, [c.to], [i for i, st in dl_stores])
        ck.verdict(bad is None, "5", "T2-all-exits", pe, "re-arm=>deadline-recorded", "every reschedule records its new deadline", "a reschedule can return without recording the new deadline", site=pe.where(c.bb))
    # Drop / unrepresentable => Remove
    for cb in cbs:
        sws = [sw for sw, mode in T.call_result_switches(pe, cb.bb) if mode == "discr"]
        ta = f.adts.get("sources::timer::TimeoutAction")
        if sws and ta:
            dsc = {v["name"]: v["discr"] for v in ta["variants"]}
            drop_e = T.discr_edges(pe, sws[0], dsc["Drop"])
            rets = []
            for i, j, st in pe.statements():
                if st["s"] == "assign" and st["pl"]["l"] in T.ret_locals(pe) and st["rv"]["r"] == "agg" and st["rv"].get("variant") == "Ok":
                    rets.append((i, T.agg_variant(pe, st["rv"]["fields"][0])))
            rm = [i for i, v in rets if v == {("sources::PostAction", "Remove")}]
            others = [i for i, v in rets if v != {("sources::PostAction", "Remove")}]
            bad = pe.find_path([x for _, x in drop_e], others, removed_blocks=rm)
            ck.verdict(bool(rm) and bad is None, "5", "T4-guarded-by", pe, "TimeoutAction::Drop=>Remove", "TimeoutAction::Drop returns PostAction::Remove", "TimeoutAction::Drop does not lead to PostAction::Remove", site=pe.where(cb.bb))
    rr = ck.opt_body("<Timer as EventSource>::reregister")
    if rr is not None:
        # (.. through the methods, or - helpers inlined - directly: the old registration is taken out (its cancel is the
        # subject of `reregister-retires-old-arming`) before anything is inserted)
        u = [cs for cs in rr.calls() if (cs.name == "unregister" or (cs.name in ("take", "replace") and cs.args and T.path_has(rr, cs.args[0], ".registration"))) and not rr.is_cleanup(cs.bb)]
        r_ = [cs for cs in rr.calls() if (cs.name == "register" or (cs.name in ("insert", "insert_reuse") and cs.f and "TimerWheel" in (cs.f.get("path") or ""))) and not rr.is_cleanup(cs.bb)]
        ck.verdict(bool(u) and bool(r_) and all(rr.dominates(u[0].bb, x.bb) for x in r_), "5", "T3-must-precede", rr, "reregister=unregister-then-register", "re-arming first cancels the previous arming", "Timer::reregister does not cancel the previous arming before registering again (two live entries for one timer)", site=rr.where())
        # .. and it always arms: the only way around the (re)registration is the timer having no deadline at all (a timer
        # that holds no registration - its deadline was unrepresentable, or it was never armed - is armed by
        # set_deadline + update like any other)
        nodl = []
        for sw_ in T.switches_on_expr(rr, lambda e: e[0] == "discr"):
            e_ = rr.expr(rr.blocks[sw_]["term"]["on"], at=sw_)
            if any(str(x).endswith(".deadline") or ".deadline" in [y for y in p_] for r0, p_ in rr.resolve(e_[2]) for x in p_[-2:]):
                nodl += T.discr_edges(rr, sw_, 0)
        okr = [i_ for i_, j_, st_ in rr.statements() if st_["s"] == "assign" and st_["pl"]["l"] in T.ret_locals(rr) and st_["rv"]["r"] == "agg" and st_["rv"].get("variant") == "Ok" and not rr.is_cleanup(i_)]
        # (error exits - `?` on the cancellation - are not successful paths)
        errx = [c.bb for c in rr.calls() if c.name == "from_residual" and not rr.is_cleanup(c.bb)]
        erre = []
        for c in rr.calls():
            if c.name in ("unregister", "cancel") and not rr.is_cleanup(c.bb):
                ok_e_, err_e_, _d = T.result_split(rr, c.bb)
                erre += list(err_e_)
        bad_ = T.t2_all_exits(rr, [0], [x.bb for x in r_], removed_edges=nodl + erre, also_removed=errx) if r_ else [0]
        ck.verdict(bad_ is None, "5", "T2-all-exits", rr, "reregister=>armed-unless-no-deadline", "every successful path through reregister (re)arms the timer, except when it has no deadline", "Timer::reregister can succeed without arming a timer that has a deadline (e.g. it only re-arms a timer that currently holds a registration): an arming made by set_deadline + update on a timer that was not armed never fires", site=rr.where(), path=path_descr(rr, bad_) if bad_ and bad_ != [0] else None)

    # every registration of a timer that has a deadline arms it in the wheel of the loop it is registered with: the only
    # way around the insert is "no deadline" (a stored registration proves nothing - it may point into the wheel of a
    # loop that no longer exists, or of another loop)
    rg = ck.opt_body("<Timer as EventSource>::register")
    if rg is None:
        ck.anchor_missing("5", "T2-all-exits", "<Timer as EventSource>::register")
    else:
        ins_ = [cs.bb for cs in rg.calls() if cs.name in ("insert", "insert_reuse") and cs.f and "TimerWheel" in cs.f["path"] and not rg.is_cleanup(cs.bb)]
        none_e = []
        for sw in T.switches_on_expr(rg, lambda e: e[0] == "discr"):
            e = rg.expr(rg.blocks[sw]["term"]["on"], at=sw)
            if any(".deadline" in p_ for r_, p_ in rg.resolve(e[2])):
                none_e += T.discr_edges(rg, sw, 0)
        bad = T.t2_all_exits(rg, [0], ins_, removed_edges=none_e) if ins_ else [0]
        ck.verdict(bad is None, "5", "T2-all-exits", rg, "deadline=>armed-in-this-wheel", "a timer with a deadline is inserted into the wheel on every path through register()", "Timer::register can return Ok without arming a timer that has a deadline (e.g. because it still holds a registration from an earlier insertion, possibly into another loop): the timer never fires", site=rg.where(), path=path_descr(rg, bad) if bad else None)

    # ---- clause 4: cancel is final -----------------------------------------------------------------------------
    cancel_rules(ck, "4")

    # ---- clause 5a: fresh identity per arming --------------------------------------------------------------------
    ins = ck.body("5", "TimerWheel::insert")
    pushes = [cs for cs in T.calls(ins, name="push") if T.path_has(ins, cs.args[0], ".heap")]
    # .. or through the sibling that pushes under a given counter, given the wheel's current one
    pushes += [cs for cs in T.calls(ins, name="insert_reuse") if cs.callee_body() is not None and not ins.is_cleanup(cs.bb) and T.path_has(ins, cs.args[1], ".counter")]
    ctr_stores = [(i, st) for i, j, st in T.stores_to_field(ins, "counter") if f.adt_path(f.peel_refs(ins.local_ty(st["pl"]["l"]))) == "sources::timer::TimerWheel"]
    ok = bool(pushes) and bool(ctr_stores)
    if ok:
        ret_ok = any(st["pl"]["l"] == 0 and st["s"] == "assign" and st["rv"]["r"] == "use" and T.path_has(ins, st["rv"]["o"], ".counter") for i, j, st in ins.statements())
        bad = T.t2_all_exits(ins, [0], [i for i, st in ctr_stores])
        adv = False
        for i, st in ctr_stores:
            for r, p in ins.resolve(st["rv"]["o"]):
                if r[0] == "rv":
                    rv = ins.blocks[r[1]]["st"][r[2]]["rv"]
                    if rv["r"] == "bin" and rv["op"].startswith("Add") and T.path_has(ins, rv["a"], ".counter") and rv["b"].get("k", {}).get("v") == 1:
                        adv = True
        ok = ret_ok and bad is None and adv
    ck.verdict(ok, "5", "T6-provenance", ins, "insert:returns-stored-counter,advances-it", "insert stores the current counter in the heap entry, returns it and advances the wheel's counter by one on every path", "TimerWheel::insert does not hand out a fresh counter per arming (cancel by counter would hit the wrong timer)", site=ins.where())

    # ---- clause 7: the post-action plumbing a timer's Drop / reschedule relies on -----------------------------
    # (a deferred Disable/Reregister parked by another source must never reach a timer: shared with C09.1)
    from props import C09
    from props.common import DispatchLoop

    try:
        dl7 = DispatchLoop(ck, "7")
        C09.take_and_reset(ck, "7", dl7)
        # .. and a timer that disables / updates itself from its own callback gets exactly that action ("cancel is final")
        C09.who_may_defer(ck, "7", dl7.body)
    except AnchorMissing:
        pass
    from props import common as _common

    _common.import_results(ck, C09, "2", "dispatch_events", "7")
    # ---- shared clauses demonstrated by seeding round 7 (the property broken from a distant module) --------------
    from props import common as _c7
    import importlib as _il
    _m = lambda n: _il.import_module('props.' + n)
    _c7.import_e3(ck, "7", lambda inst: True)  # a timer inside a TransientSource is re-armed by the wrapper's (re)registration
    _c7.import_results(ck, _m("C07"), "4", "DispatcherInner", "7")  # a disable() after disable()+update() still reaches the timer
    _c7.import_results(ck, _m("C07"), "4", "LoopHandle", "7")
    # ---- shared clauses demonstrated by seeding round 8 (the property broken by added code) --------------------
    from props import common as _c8
    import importlib as _il8
    _m8 = lambda n: _il8.import_module('props.' + n)
    _c8.import_results(ck, _m8("C02"), "2", "Poll::poll", "7")  # every due timer is popped in the poll that finds it due
