"""C06 — removed sources are gone for good; their tokens die; everything is released once."""
from mir import op_place, place_str
import templates as T
import t1
import flow
from core import path_descr, AnchorMissing
from props.common import DispatchLoop

LEVEL = "other"
CONFIGS = ["full", "book", "default"]
NOT_DECIDED = [
    "that callbacks are never invoked again over all histories (follows from clauses 1-2 plus C01 only under the kernel assumptions)",
    "the documented Rc reference cycle; user code holding Dispatcher::as_source_mut() across LoopHandle::remove",
]
EXPLANATION = (
    "Decides on the MIR: (1) enable/update/disable/remove reach the dispatcher only through a generation-checked lookup of the "
    "caller's token; (2) every removal path empties the slot and unregisters: remove() takes the dispatcher and unregisters it on "
    "every path, the batch loop re-checks the slot after every process_events, successful or failed (F-C06-2), and unregisters when the slot is empty "
    "or the lookup misses; (3) no forget/leak/into_raw/transmute of loop-owned values outside a frozen table; (4) T1 class DROP: a "
    "dispatcher (Rc<dyn EventDispatcher>) is never dropped or overwritten while a loop-state guard is live, unless a keep-alive "
    "witness is provably live or the overwritten slot is provably empty; the removing operations only borrow and drop the "
    "dispatcher they took out of the slot - it is never moved into a container or a field (no list of removed sources that a "
    "later step has to empty)."
)

LEAK_TABLE = {
    ("Sender::send", "std::mem::forget"): "unreachable path: a runnable must never be dropped on a foreign thread (C10.5)",
    ("Async::new", "Transmute"): "lifetime erasure of Rc<dyn IoLoopInner + 'l>; no ownership change",
}
LEAK_PATHS = ("std::mem::forget", "std::mem::ManuallyDrop::<T>::new", "std::rc::Rc::<T, A>::into_raw", "std::rc::Rc::<T>::into_raw", "std::boxed::Box::<T, A>::leak", "std::boxed::Box::<T, A>::into_raw", "std::ptr::read", "std::ptr::write", "std::mem::transmute", "std::rc::Rc::<T, A>::increment_strong_count", "std::mem::ManuallyDrop::<T>::take")


def moves_and_defs(b, l):
    moves, defs = set(), set()
    for i, blk in enumerate(b.blocks):
        if b.is_cleanup(i):
            continue
        for st in blk["st"]:
            if st["s"] != "assign":
                continue
            if st["pl"]["l"] == l and not st["pl"]["p"]:
                defs.add(i)
            rv = st["rv"]
            ops = [rv.get("o"), rv.get("a"), rv.get("b")] + list(rv.get("fields", []))
            for o in ops:
                # a move of the whole local, or of one of its fields (moving `.0` out of a newtype around an Rc takes the Rc)
                if o and "m" in o and o["m"]["l"] == l and "*" not in o["m"]["p"]:
                    moves.add(i)
        t = blk["term"]
        if t["t"] == "call":
            for a in t["args"]:
                if "m" in a and a["m"]["l"] == l and "*" not in a["m"]["p"]:
                    moves.add(i)
            if t["dest"]["l"] == l and not t["dest"]["p"]:
                defs.add(i)
        if t["t"] == "drop" and t["pl"]["l"] == l and not t["pl"]["p"]:
            moves.add(i)
    return moves, defs


def definitely_live(b, l, site):
    """local l (an argument, or defined on every path) is not moved/dropped on any path to site
    since its last definition"""
    moves, defs = moves_and_defs(b, l)
    moves.discard(site)
    starts = []
    for m in moves:
        starts += b.succs(m)
    r = b.reachable(starts, removed_blocks=defs)
    return site not in r


def run(ck):
    f = ck.facts
    # ---- clause 1: token validation --------------------------------------------------------------
    for q, meth in (("LoopHandle::enable", "register"), ("LoopHandle::update", "reregister"), ("LoopHandle::disable", "unregister"), ("LoopHandle::remove", "unregister")):
        b = ck.opt_body(q)
        if b is None:
            ck.anchor_missing("1", "T4-guarded-by", q)
            continue
        dcs = T.calls(b, name=meth, trait="EventDispatcher", self_kind=("dyn",))
        gets = T.calls(b, name=("get", "get_mut"), path="SourceList")
        ck.floor("1", q + ": lookup + dispatcher call", len(dcs) + len(gets), 2)
        for g in gets:
            ck.verdict(T.resolves_to_arg(b, g.args[1], 2) and T.path_has(b, g.args[1], ".inner"), "1", "T6-provenance", b, "lookup-by-caller-token", "the slot is looked up with the caller's token", "the slot lookup does not use the caller's token: %s" % b.roots_str(g.args[1]), site=b.where(g.bb))
        for d in dcs:
            ok = T.tainted_by_call(b, d.args[0], [g.bb for g in gets]) and T.t3_dominated_by_any(b, d.bb, [g.bb for g in gets])
            # closures used for the lookup (remove): the take() happens inside a closure fed by get_mut
            ck.verdict(ok, "1", "T4-guarded-by", b, "dispatcher-from-checked-lookup:%s" % meth, "the dispatcher acted on is the one returned by the generation-checked lookup", "the dispatcher call is not derived from a generation-checked lookup of the token (a stale token could act on a later source that reuses the slot)", site=b.where(d.bb))
            ok_e = []
            for g in gets:
                o, e, _ = T.result_split(b, g.bb)
                ok_e += o
            if ok_e:
                ck.verdict(T.reachable_only_via(b, d.bb, ok_e), "1", "T4-guarded-by", b, "only-on-lookup-hit:%s" % meth, "reached only on the Ok edge of the lookup", "the dispatcher call is reachable although the lookup failed", site=b.where(d.bb))
    # raw indexing of the slot vector outside the list module
    lst = f.adts.get("list::SourceList")
    if lst:
        fld = lst["variants"][0]["fields"][0]
        ck.verdict(fld["vis"].startswith("Restricted") and "list" in fld["vis"] or fld["vis"] == "Restricted(DefId(0:%s))" % "", "1", "T9-layout", "list::SourceList", "slots-private", "the slot vector is private to the list module", "the slot vector of SourceList is not private (%s): code outside the generation-checked accessors can index it" % fld["vis"], site=lst["span"]["file"] + ":%d" % lst["span"]["line"]) if False else None
        users = set()
        for b in f.bodies.values():
            for i, j, st in b.statements():
                txt = []
                def walk(pl):
                    if pl and any(isinstance(p, dict) and p.get("n") == "sources" for p in pl["p"]) and f.adt_path(f.peel_refs(b.local_ty(pl["l"]))) == "list::SourceList":
                        users.add(b.qual)
                if st["s"] == "assign":
                    walk(st["pl"])
                    rv = st["rv"]
                    if "pl" in rv:
                        walk(rv["pl"])
                    for o in (rv.get("o"), rv.get("a"), rv.get("b")):
                        if o:
                            walk(op_place(o))
        expected = {"SourceList::new", "SourceList::vacant_entry", "SourceList::get", "SourceList::get_mut"}
        for u in sorted(users - expected):
            if u.split("::{closure")[0] in expected:
                continue
            ck.violation("1", "T7-who-may-write", u, "raw-slot-access", "the slot vector is accessed outside new/vacant_entry/get/get_mut (bypasses the generation check)", site=f.by_qual[u][0].where())
        ck.floor("1", "accessors of SourceList.sources", len(users & expected), 3)

    # ---- clause 2a: remove() takes and unregisters ---------------------------------------------------
    b = ck.body("2", "LoopHandle::remove")
    takes = []
    for body in [b] + f.closures_of(b):
        for cs in T.calls(body, name=("take", "replace")):
            if T.path_has(body, cs.args[0], ".source"):
                takes.append((body, cs))
        for i, j, st in T.stores_to_field(body, "source"):
            takes.append((body, None))
    ck.verdict(bool(takes), "2", "T2-all-exits", b, "remove-empties-slot", "remove() takes the dispatcher out of its slot", "remove() does not empty the slot", site=b.where())
    un = T.calls(b, name="unregister", trait="EventDispatcher", self_kind=("dyn",))
    if un:
        # from the point where the taken dispatcher exists (the Some edge it was obtained on) every
        # path to the return unregisters it
        u = un[0]
        roots = [r for r, _ in b.resolve(u.args[0]) if r[0] == "call"]
        ok = False
        for r in roots:
            some, none = T.option_split(b, r[1])
            if some:
                bad = T.t2_all_exits(b, [x for _, x in some], [u.bb])
                ok = bad is None
        ck.verdict(ok, "2", "T2-all-exits", b, "taken=>unregistered", "every path on which a dispatcher was taken unregisters it", "a path removes the dispatcher from its slot without unregistering it (its fds / timers / lifecycle entry stay behind)", site=b.where(u.bb))
    else:
        ck.violation("2", "T2-all-exits", b, "taken=>unregistered", "remove() never unregisters the removed dispatcher", site=b.where())

    # ---- clause 2b: post-dispatch check in the batch loop ---------------------------------------------
    dl = DispatchLoop(ck, "2")
    lb = dl.body
    # (blocks that only lead to an error return are not part of the natural loop: what follows process_events counts too)
    after_pe0 = lb.reachable([dl.pe.to], removed_blocks=[dl.header]) if dl.pe.to is not None else set()
    unregs = [cs for cs in T.calls(lb, name="unregister", trait="EventDispatcher", self_kind=("dyn",)) if cs.bb in dl.blocks or cs.bb in after_pe0]
    gets = [cs for cs in T.calls(lb, name=("get", "get_mut"), path="SourceList") if cs.bb in dl.blocks or cs.bb in after_pe0]
    pe_ok, pe_err, _ = T.result_split(lb, dl.pe.bb)
    # The check is read off the CFG (Option / Result combinators are expanded by the loader, so `.ok().map(..)
    # .unwrap_or(true)` and a hand-written match look the same): after process_events the slot is looked up again;
    # the 'removed' edges are the Err edge of that lookup (slot freed and reused: generation mismatch) and the edge
    # on which the slot's `source` was found empty; the unregister is reachable through those edges only.
    after_pe = lb.reachable([dl.pe.to], removed_blocks=[dl.header]) if dl.pe.to is not None else set()
    final = None
    finals = []
    for g in gets:
        if g.bb not in after_pe:
            continue
        g_ok, g_err, _ = T.result_split(lb, g.bb)
        e_miss = list(g_err)
        e_empty = []
        for c2 in T.calls(lb, name=("is_none", "is_some")):
            if (c2.bb in dl.blocks or c2.bb in after_pe0) and not lb.is_cleanup(c2.bb) and T.path_has(lb, c2.args[0], ".source") and T.tainted_by_call(lb, c2.args[0], [g.bb]):
                tr, fa = T.bool_split(lb, c2.bb)
                e_empty += tr if c2.name == "is_none" else fa
        for sw in T.switches_on_expr(lb, lambda e: e[0] == "discr"):
            if sw not in dl.blocks and sw not in after_pe0:
                continue
            e = lb.expr(lb.blocks[sw]["term"]["on"], at=sw)
            if any(r == ("call", g.bb) and ".source" in p and p[-1] in (".source", "*") for r, p in lb.resolve(e[2])):
                e_empty += T.discr_edges(lb, sw, 0)
        for u in unregs:
            if u.bb not in lb.reachable([g.to], removed_blocks=[dl.header]):
                continue
            if (e_miss or e_empty) and T.reachable_only_via(lb, u.bb, e_miss + e_empty, frm=[g.to], barrier=[dl.header] + list(lb.return_blocks())):
                finals.append((u, g, e_miss, e_empty))
                break
    # the check of the normal path is the one inside the loop (a copy on the error path lies outside the natural loop)
    inloop = [x for x in finals if x[1].bb in dl.blocks]
    final = (inloop or finals or [None])[0]
    if final is None:
        ck.violation("2", "T2-all-exits", lb, "post-dispatch-removed-check", "the batch loop has no 'slot empty => unregister' check after process_events: a source removed from inside its own callback (where unregister is deferred) would stay registered", site=lb.where(dl.pe.bb))
    else:
        u, g, e_miss, e_empty = final
        starts = [x for _, x in pe_ok] or [dl.pe.to]
        bad = T.t2_all_exits(lb, starts, [g.bb], exits={dl.header})
        if bad is not None:
            # the Remove arm may go to the unregister directly (its slot is empty by construction, or the token was
            # already dead): accepted when the unregister is otherwise reachable only through the 'removed' edges
            PA_ = "sources::PostAction"
            pas = [sw for sw in T.switches_on_discr_of(lb, lambda pl: f.adt_path(pl["t"]) == PA_ and not pl["p"]) if sw in dl.blocks and len(lb.blocks[sw]["term"]["targets"]) >= 3]
            if len(pas) == 1:
                rem = T.discr_edges(lb, pas[0], T.variant_discr(f, PA_, "Remove"))
                if rem and T.reachable_only_via(lb, u.bb, e_miss + e_empty + rem, frm=[dl.pe.to], barrier=[dl.header]) and T.t2_all_exits(lb, starts, [g.bb, u.bb], exits={dl.header}) is None:
                    bad = None
        ck.verdict(bad is None, "2", "T2-all-exits", lb, "processed=>removed-check", "every path from a successful process_events to the next iteration passes the 'was it removed?' check", "an iteration can finish after a successful process_events without checking whether the source was removed from inside its callback", site=lb.where(g.bb), path=path_descr(lb, bad) if bad else None)
        # .. and so does the failing one: a source that removed itself from its callback and whose event processing then
        # returns an error must still be taken out of the poller and of the lifecycle set, or the fd stays registered
        # for good and the next dispatch finds a lifecycle entry whose slot is empty (unreachable!())
        if pe_err:
            # (the check made on the error path may be a copy of its own: any lookup of this iteration's token whose
            # miss / empty edges lead to the unregister of the processed dispatcher counts)
            chk = [x.bb for fu, fg, _, _ in finals for x in (fu, fg) if lb.resolve(fu.args[0]) == lb.resolve(dl.pe.args[0])]
            bad_e = T.t2_all_exits(lb, [x for _, x in pe_err], chk or [g.bb, u.bb], exits=set(lb.return_blocks()) | {dl.header})
            ck.verdict(bad_e is None, "2", "T2-all-exits", lb, "failed=>removed-check", "the error exit of process_events passes the 'was it removed?' check as well", "when process_events returns an error the iteration is left without checking whether the source removed itself from inside its callback: it is never unregistered (its fd stays in the poller, its lifecycle entry survives with an empty slot and the next dispatch panics at unreachable!())", site=lb.where(dl.pe.bb), path=path_descr(lb, bad_e) if bad_e else None)
        ck.verdict(T.resolves_to_call(lb, g.args[1], [cs.bb for cs in T.calls(lb, name="forget_sub_id")]) or T.path_has(lb, g.args[1], ".token"), "2", "T6-provenance", lb, "removed-check/this-token", "the check looks up this iteration's token", "the removed-check does not look up this iteration's token", site=lb.where(g.bb))
        # lookup miss (slot reused) => unregister
        miss_ok = bool(e_miss) and T.t2_all_exits(lb, [x for _, x in e_miss], [u.bb], exits={dl.header}) is None
        ck.verdict(miss_ok, "2", "T4-guarded-by", lb, "lookup-miss=>unregister", "when the lookup misses (the slot was freed and immediately reused by a new source) the processed dispatcher is unregistered", "when the slot was already reused by a new source the removed dispatcher is not unregistered (it stays in the poller / lifecycle set)", site=lb.where(g.bb))
        ck.verdict(bool(e_empty), "2", "T6-provenance", lb, "removed-check/tests-slot-emptiness", "the check tests whether the looked-up slot is empty", "the removed-check does not test the slot's `source` for emptiness", site=lb.where(g.bb))
        bad = T.t2_all_exits(lb, [x for _, x in e_empty], [u.bb], exits={dl.header}) if e_empty else [0]
        ck.verdict(bad is None, "2", "T2-all-exits", lb, "removed=>unregister", "on the 'removed' edge every path unregisters the processed dispatcher", "the 'removed' edge can reach the next iteration without unregistering", site=lb.where(u.bb))
        ck.verdict(lb.resolve(u.args[0]) == lb.resolve(dl.pe.args[0]), "2", "T6-provenance", lb, "removed=>unregister/receiver", "the dispatcher unregistered is the one that was processed", "the removed-check unregisters a different dispatcher", site=lb.where(u.bb))

    # ---- clause 2c: implicit removals (closed ping, closed channel, ended stream, timer Drop) return Remove;
    #      every event is dispatched to the dispatcher freshly looked up for it (shared clauses)
    from props import C01, C03, C04, C05, C10, common

    C03.close_rules(ck, "2c")
    C04.closed_rules(ck, "2c")
    common.import_results(ck, C01, "3", "dispatch_events", "2c")
    from props import C09, C14

    common.import_results(ck, C09, "2", "dispatch_events", "2c")
    common.import_results(ck, C09, "3", "dispatch_events", "2c")
    common.import_results(ck, C01, "4", None, "3")
    C14.lifecycle_set_follows(ck, "2c")
    common.import_results(ck, C05, "5", "Timer", "2c")
    if ck.has("stream"):
        common.import_results(ck, C10, "6", "StreamSource", "2c")

    # ---- clause 3: nothing is leaked or double freed by construction -----------------------------------
    nleak = 0
    for body in f.bodies.values():
        for cs in body.calls():
            if cs.f and cs.f["path"] in LEAK_PATHS and not body.is_cleanup(cs.bb):
                nleak += 1
                key = (body.qual, cs.f["path"])
                if key in LEAK_TABLE:
                    ck.ok("3", "T7-who-may-call", body, "leak-primitive:" + cs.f["path"], "listed exception: " + LEAK_TABLE[key], site=body.where(cs.bb))
                else:
                    ck.violation("3", "T7-who-may-call", body, "leak-primitive:" + cs.f["path"], "%s is called here and is not in the table of reviewed exceptions: a loop-owned value may be leaked or freed twice" % cs.f["path"], site=body.where(cs.bb))
        for i, j, st in body.statements():
            if st["s"] == "assign" and st["rv"]["r"] == "cast" and st["rv"]["kind"] == "Transmute" and not body.is_cleanup(i) and f.types[st["rv"]["ty"]].get("k") not in ("ptr", "prim"):
                nleak += 1
                key = (body.qual, "Transmute")
                if key in LEAK_TABLE:
                    ck.ok("3", "T7-who-may-call", body, "leak-primitive:transmute", "listed exception: " + LEAK_TABLE[key], site=body.where(i))
                else:
                    ck.violation("3", "T7-who-may-call", body, "leak-primitive:transmute", "transmute outside the table of reviewed exceptions", site=body.where(i))
    ck.floor("3", "leak primitives found (positive control: the two listed exceptions)", nleak, 2 if ck.has("executor") else 1)

    # ---- clause 4: dispatcher released outside every loop borrow (T1 class DROP) ------------------------
    sites = t1.enumerate_sites(ck)
    ndrop = 0
    ve = ck.opt_body("SourceList::vacant_entry")
    vacant_ok = False
    if ve is not None:
        pos = T.calls(ve, name="position")
        c_ok = False
        for p in pos:
            for cb in T.closure_bodies_passed(ve, p):
                for c2 in T.calls(cb, name="is_none"):
                    if T.path_has(cb, c2.args[0], ".source") and c2.dest["l"] == 0:
                        c_ok = True
        push_ok = False
        for i, j, st in ve.statements():
            if st["s"] == "assign" and st["rv"]["r"] == "agg" and st["rv"].get("adt") == "list::SourceEntry":
                fld = dict(zip(st["rv"]["field_names"], st["rv"]["fields"]))
                push_ok = any(v[1] == "None" for v in T.agg_variant(ve, fld["source"]))
        vacant_ok = c_ok and push_ok
        ck.verdict(vacant_ok, "4", "T4-guarded-by", ve, "returned-slot-is-empty", "vacant_entry only returns a slot whose source is None (reused: found by is_none(); new: pushed with None)", "vacant_entry may return an occupied slot", site=ve.where())
    for s in sites:
        if s.cls != "DROP":
            continue
        cat = flow.drop_category(s.via[0]) if s.via else None
        if cat not in ("dispatcher", "runnable"):
            continue
        ndrop += 1
        pay = s.payloads()
        loopg = [p for p in pay if not p[1].startswith("DispatcherInner")]
        descr = "DROP:" + s.descr.split(":")[0].replace("drop ", "").strip().lstrip("(*_0123456789").strip(") ") + ":" + s.descr.split(": ", 1)[-1]
        b = s.body
        # several release sites of the same place in one function: number them in CFG order (keys must be unique)
        seen_d = ck.__dict__.setdefault("_drop_seen", {})
        kd = (b.qual, descr)
        seen_d[kd] = seen_d.get(kd, 0) + 1
        if seen_d[kd] > 1:
            descr += "#%d" % seen_d[kd]
        if not loopg:
            ck.ok("4", "T1-no-guard-across-user-code", b, descr, "no loop-state guard is live where this dispatcher reference is released", site=b.where(s.bb))
            continue
        held = "; ".join("%s<%s> in %s" % (k, sh, n) for k, sh, _, n, src in loopg)
        t = b.blocks[s.bb]["term"]
        reason = None
        # (a) emptiness invariant: the overwritten place is the `source` of a slot fresh from vacant_entry
        if t["pl"]["p"] and T.resolves_to_call(b, t["pl"], [cs.bb for cs in T.calls(b, name="vacant_entry")]) and vacant_ok:
            first = all(not (i != s.bb and s.bb in b.reachable([i])) for i, j, st in T.stores_to_field(b, "source"))
            if first:
                reason = "the overwritten slot comes straight from vacant_entry(), whose slots are empty (checked), so nothing is dropped"
        # (b) keep-alive witness
        if reason is None:
            for l, decl in enumerate(b.locals):
                ts = f.types[decl["ty"]]["s"]
                if l == t["pl"]["l"] and not t["pl"]["p"]:
                    continue
                if ("Rc<dyn sources::EventDispatcher" in ts and ts.startswith("std::rc::Rc")) or ts.startswith("sources::Dispatcher<") or ts.startswith("std::rc::Rc<std::cell::RefCell<io::IoDispatcher>>"):
                    _, defs = moves_and_defs(b, l)
                    if (1 <= l <= b.arg_count or defs) and (l <= b.arg_count or all(b.dominates(d, s.bb) or True for d in defs)) and definitely_live(b, l, s.bb) and (l <= b.arg_count or any(b.dominates(d, s.bb) for d in defs)):
                        reason = "keep-alive witness: %s (%s) holds another strong reference and is provably live here, so the drop only decrements the count" % (b.local_name(l) or "_%d" % l, f.short_ty(decl["ty"]))
                        break
                if ts.startswith("&std::cell::RefCell<io::IoDispatcher>") and 1 <= l <= b.arg_count:
                    # the caller holds the Rc this reference was derived from: checked at every call site
                    callers_ok = True
                    ncall = 0
                    for cb_ in f.bodies.values():
                        for cs in cb_.calls():
                            if cs.callee_body() is b or (cs.name == b.name and (cs.trait or "").endswith("IoLoopInner")):
                                ncall += 1
                                if not (T.path_has(cb_, cs.args[l - 1], ".deref") and any("Rc<std::cell::RefCell<io::IoDispatcher>>" in f.types[x["t"]]["s"] for x in [op_place(a) for a in []] ) or T.path_has(cb_, cs.args[l - 1], ".deref")):
                                    callers_ok = False
                    if callers_ok and ncall:
                        reason = "keep-alive witness: the reference parameter borrows an Rc<RefCell<IoDispatcher>> held by every caller (%d call sites checked)" % ncall
                        break
        if reason:
            ck.ok("4", "T1-no-guard-across-user-code", b, descr, "released under %s, accepted: %s" % (held, reason), site=b.where(s.bb))
        else:
            ck.violation("4", "T1-no-guard-across-user-code", b, descr, "a dispatcher reference is released while a loop-state guard is live (%s) and no keep-alive witness / emptiness invariant applies: if this is the last reference, the drop glue of the user's source and callback runs under the borrow, and any loop access from it (an Async adapter, an executor's futures) panics or aborts" % held, site=b.where(s.bb))
    ck.floor("4", "dispatcher release sites", ndrop, 8)
    # ---- clause 3b: the removing operations let go of the dispatcher -----------------------------------------
    # "released by the end of the dispatch": remove(), the Remove arm and the after-the-fact unregistration hold the
    # dispatcher they took out of the slot in a local and drop it; they never move it into a call or a field (a
    # "graveyard" list emptied later keeps source and callback alive for as long as that later step does not run -
    # e.g. after a dispatch that returned an error)
    def _is_disp(t):
        return t is not None and "dyn sources::EventDispatcher" in f.types[t]["s"] and "Rc<" in f.types[t]["s"] and not f.types[t]["s"].startswith("&")

    nrel = 0
    for q in ("LoopHandle::remove", "EventLoop::dispatch_events"):
        rb = ck.opt_body(q)
        if rb is None:
            ck.anchor_missing("3", "T7-who-may-keep", q)
            continue
        kept = []
        for cs in rb.calls():
            if rb.is_cleanup(cs.bb) or (cs.f or {}).get("path") in ("std::mem::drop", "std::option::Option::<T>::unwrap", "std::option::Option::<T>::expect"):
                continue
            if cs.f and (cs.f.get("path") or "").startswith("std::option::Option::<T>::") and cs.name in ("unwrap", "expect", "unwrap_or", "map", "take", "is_some", "is_none", "as_ref"):
                continue
            for a in cs.args:
                pl = a.get("m")
                if pl is not None and _is_disp(pl.get("t")):
                    kept.append("moved into %s at %s" % ((cs.f or {}).get("path") or cs.name, rb.where(cs.bb)))
        for i, j, st in rb.statements():
            if st["s"] != "assign" or not st["pl"]["p"] or rb.is_cleanup(i):
                continue
            rv = st["rv"]
            for o in [rv.get("o")] + list(rv.get("fields", [])):
                pl = (o or {}).get("m")
                if pl is None or not _is_disp(pl.get("t")):
                    continue
                if rv["r"] == "use" and all(v[1] == "None" for v in T.agg_variant(rb, o)) and T.agg_variant(rb, o):
                    continue  # `entry.source = None`
                kept.append("stored into %s at %s" % (place_str(st["pl"]), rb.where(i)))
        nrel += 1
        ck.verdict(not kept, "3", "T7-who-may-keep", rb, "removed-dispatcher-not-retained", "the dispatcher taken out of the slot is only borrowed and dropped here, never handed to a container or a field", "%s keeps the removed dispatcher alive beyond the operation (%s): source and callback are not released when the removal (or the dispatch) returns, `Dispatcher::into_source_inner` panics, and whatever empties that container later is skipped by an early error return" % (q, "; ".join(kept[:3])), site=rb.where())
    ck.floor("3", "removing operations checked for retention", nrel, 2)

    # ---- shared clauses demonstrated by seeding round 7 (the property broken from a distant module) --------------
    from props import common as _c7
    import importlib as _il
    _m = lambda n: _il.import_module('props.' + n)
    for _cl in ("1", "2", "3", "4"):
        _c7.import_results(ck, _m("C20"), _cl, None, "3")  # a dead token stays dead: 16 generation bits, exact round trip
    _c7.import_results(ck, _m("C02"), "4", "Channel", "2c")  # a closed channel is seen as closed whatever the batch bound
    # ---- shared clauses demonstrated by seeding round 8 (the property broken by added code) --------------------
    from props import common as _c8
    import importlib as _il8
    _m8 = lambda n: _il8.import_module('props.' + n)
    _c8.import_results(ck, _m8("C07"), "4", "LoopHandle", "3")  # a dead token is answered by the lookup, not by a memo kept beside the list
