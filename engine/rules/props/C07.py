"""C07 — disable() silences a source until enable(); readiness survives the gap."""
from mir import op_place, place_str
import templates as T
from core import path_descr, AnchorMissing
from props import common, C09
from props.common import DispatchLoop

LEVEL = "other"
CONFIGS = ["full", "book", "default"]
NOT_DECIDED = ["persistence of kernel-side readiness (eventfd counter, socket buffers) across the gap", "delivery 'after enable()' as a history property"]
EXPLANATION = (
    "Decides on the MIR: (1) disable() unregisters the looked-up dispatcher and defers PostAction::Disable exactly when the "
    "dispatcher answers false; (2) Generic and Timer forget their key when unregistered, on every successful path (with C01.5 an "
    "event collected before the disable is then ignored); (3) every wrapper source forwards unregister->unregister and "
    "register->register; (4) Timer::unregister does not touch the deadline, Timer::register arms from it, enable() registers "
    "under the slot's own token; enable/disable/update always ask the dispatcher, and the dispatcher follows a state protocol: "
    "register and unregister always ask the source, reregister asks it only on the 'registered' edge of a flag that register "
    "sets (after the source registered), unregister clears and nothing else writes - update() on a disabled source cannot "
    "re-arm it (F-C07-1)."
)


def run(ck):
    f = ck.facts
    dl = DispatchLoop(ck, "1")
    C09.who_may_defer(ck, "1", dl.body)
    # a deferred Disable is consumed by the source that asked for it and never reaches another one
    C09.take_and_reset(ck, "1", dl)
    # ---- clause 2 ----------------------------------------------------------------------------------
    g = ck.body("2", "<Generic as EventSource>::unregister")
    pu = [cs for cs in T.calls(g, name="unregister") if cs.f["path"] == "sys::Poll::unregister"]
    tok_none = [i for i, j, st in T.stores_to_field(g, "token") if st["rv"]["r"] == "use" and any(v[1] == "None" for v in T.agg_variant(g, st["rv"]["o"]))] + [cs.bb for cs in T.calls(g, name="take") if T.path_has(g, cs.args[0], ".token")]
    if not pu:
        ck.anchor_missing("2", "T2-all-exits", "Poll::unregister in Generic::unregister")
    else:
        ok_e, err_e, _ = T.result_split(g, pu[0].bb)
        okret = [i for i, j, st in g.statements() if st["s"] == "assign" and st["pl"]["l"] in T.ret_locals(g) and st["rv"]["r"] == "agg" and st["rv"].get("variant") == "Ok" and not g.is_cleanup(i)]
        bad = T.t2_all_exits(g, [x for _, x in ok_e] or [pu[0].to], tok_none, exits=okret or None)
        ck.verdict(bool(tok_none) and bad is None, "2", "T2-all-exits", g, "unregistered=>token-forgotten", "every successful unregister clears the recorded token (events collected before a disable are then ignored)", "Generic::unregister can succeed while keeping its token: an event collected before disable() still reaches the callback", site=g.where(pu[0].bb), path=path_descr(g, bad) if bad else None)
        # .. and the recorded poller: Drop / unwrap delete the fd from whatever poller is recorded, so a source that keeps
        # it after a successful unregister deletes, when it is dropped later, a registration that is no longer its own
        # (the same fd registered again by its replacement)
        pol_none = [i for i, j, st in T.stores_to_field(g, "poller") if st["rv"]["r"] == "use" and any(v[1] == "None" for v in T.agg_variant(g, st["rv"]["o"]))] + [cs.bb for cs in T.calls(g, name="take") if T.path_has(g, cs.args[0], ".poller")]
        has_poller_field = any(fl.get("name") == "poller" for v_ in (f.adts.get("sources::generic::Generic") or {}).get("variants", []) for fl in v_.get("fields", []))
        if has_poller_field:
            badp = T.t2_all_exits(g, [x for _, x in ok_e] or [pu[0].to], pol_none, exits=okret or None) if pol_none else [0]
            ck.verdict(bool(pol_none) and badp is None, "2", "T2-all-exits", g, "unregistered=>poller-forgotten", "every successful unregister clears the recorded poller (a later Drop/unwrap deletes nothing)", "Generic::unregister can succeed while keeping its reference to the poller: when that source is dropped or unwrapped later it deletes the fd from the poller again - by then possibly the registration of the source that replaced it", site=g.where(pu[0].bb), path=path_descr(g, badp) if badp and badp != [0] else None)
    t = ck.body("2", "<Timer as EventSource>::unregister")
    forget = [cs.bb for cs in T.calls(t, name=("take", "replace")) if T.path_has(t, cs.args[0], ".registration")] + [i for i, j, st in T.stores_to_field(t, "registration") if st["rv"]["r"] == "use" and any(v[1] == "None" for v in T.agg_variant(t, st["rv"]["o"]))]
    bad = T.t2_all_exits(t, [0], forget) if forget else [0]
    ck.verdict(bool(forget) and bad is None, "2", "T2-all-exits", t, "unregistered=>registration-forgotten", "Timer::unregister drops its registration (token and counter) on every path", "Timer::unregister keeps its registration: the timer still believes it is armed, so an expiry collected before a disable fires the callback and a repeating timer re-arms itself while disabled", site=t.where(), path=path_descr(t, bad) if bad else None)

    # ---- clause 3 ----------------------------------------------------------------------------------------
    n = common.wrapper_forwarding(ck, "3", methods=("register", "unregister"))
    ck.floor("3", "wrapper (impl, method) forwarding instances", n, 8 if ck.has("executor") else 6)

    # ---- clause 4 ----------------------------------------------------------------------------------------
    writers = set()
    for b in f.bodies.values():
        if b.impl_self is not None and f.short_ty(b.impl_self) not in ("Timer",):
            continue
        for i, j, st in T.stores_to_field(b, "deadline"):
            if f.adt_path(f.peel_refs(b.local_ty(st["pl"]["l"]))) == "sources::timer::Timer":
                writers.add(b.qual)
    ck.verdict("<Timer as EventSource>::unregister" not in writers and "<Timer as EventSource>::reregister" not in writers, "4", "T7-who-may-write", "<Timer as EventSource>::unregister", "deadline-survives-disable", "unregister does not touch the deadline (writers: %s)" % sorted(writers), "Timer::unregister/reregister overwrite the deadline: a disabled timer loses its expiry", site=t.where())
    tr = ck.body("4", "<Timer as EventSource>::register")
    ins = T.calls(tr, name=("insert", "insert_reuse"), path="TimerWheel")
    ck.verdict(bool(ins) and all(T.path_has(tr, T.arg_by_type(tr, c, "std::time::Instant", 1 if c.name == "insert" else 2), ".deadline") for c in ins), "4", "T6-provenance", tr, "arms-from-self.deadline", "register arms the wheel with the timer's own deadline", "Timer::register does not arm from self.deadline", site=tr.where())
    en = ck.body("4", "LoopHandle::enable")
    tf = T.calls(en, name="new", path="TokenFactory::new")
    gets = T.calls(en, name=("get", "get_mut"), path="SourceList")
    ck.verdict(bool(tf) and all(T.resolves_to_call(en, c.args[0], [g_.bb for g_ in gets]) and T.path_has(en, c.args[0], ".token") for c in tf), "4", "T6-provenance", en, "registers-under-slot-token", "enable() registers under the token stored in the slot (same generation, sub-ids from 0)", "enable() does not register under the slot's own token", site=en.where())
    reg = T.calls(en, name=("register", "reregister", "unregister"), trait="EventDispatcher", self_kind=("dyn",))
    ck.verdict(bool(reg) and all(c.name == "register" for c in reg), "4", "T8-sibling-agreement", en, "enable-calls-register", "enable() calls register", "enable() calls %s" % sorted({c.name for c in reg}), site=en.where())
    di = ck.body("4", "LoopHandle::disable")
    reg = T.calls(di, name=("register", "reregister", "unregister"), trait="EventDispatcher", self_kind=("dyn",))
    ck.verdict(bool(reg) and all(c.name == "unregister" for c in reg), "4", "T8-sibling-agreement", di, "disable-calls-unregister", "disable() calls unregister", "disable() calls %s" % sorted({c.name for c in reg}), site=di.where())

    # every successful enable()/disable()/update() has really asked the dispatcher: no "already in that state, nothing to
    # do" shortcut decided from a flag the loop keeps on the side (such a flag goes stale as soon as one path - a deferred
    # request that is later superseded, a Reregister post-action, a TransientSource - changes the registration without it)
    for q, meth in (("LoopHandle::enable", "register"), ("LoopHandle::disable", "unregister"), ("LoopHandle::update", "reregister")):
        hb = ck.opt_body(q)
        if hb is None:
            ck.anchor_missing("4", "T2-all-exits", q)
            continue
        dc = [c.bb for c in T.calls(hb, name=meth, trait="EventDispatcher", self_kind=("dyn",)) if not hb.is_cleanup(c.bb)]
        okr = [i for i, j, st in hb.statements() if st["s"] == "assign" and st["pl"]["l"] in T.ret_locals(hb) and st["rv"]["r"] == "agg" and st["rv"].get("variant") == "Ok" and not hb.is_cleanup(i)]
        bad = T.t2_all_exits(hb, [0], dc, exits=okr) if dc and okr else ([0] if not dc else None)
        ck.verdict(bad is None, "4", "T2-all-exits", hb, "Ok=>dispatcher-asked", "every Ok return of %s has called the dispatcher's %s" % (q, meth), "%s can return Ok without calling the dispatcher's %s (a shortcut taken from bookkeeping kept beside the dispatcher): when that bookkeeping is stale the call silently does nothing - the fd stays in (or out of) the poller" % (q, meth), site=hb.where(), path=path_descr(hb, bad) if bad else None)

    dispatcher_state_protocol(ck, "4")

    # ---- clause 5: shared necessary conditions ---------------------------------------------------------------
    from props import C14, C15, C01

    common.import_results(ck, C15, "4", "Generic", "2")
    common.import_results(ck, C14, "1", None, "5")
    common.import_results(ck, C14, "2", None, "5")
    common.import_results(ck, C01, "6", None, "3")
    common.import_results(ck, C01, "5", None, "3")
    # a child of a TransientSource that answered Disable stays silent across re-registrations of the wrapper (E3)
    common.import_e3(ck, "6", lambda inst: "asked to be disabled" in inst or "forwarded" in inst)
    # ---- shared clauses demonstrated by seeding round 7 (the property broken from a distant module) --------------
    from props import common as _c7
    import importlib as _il
    _m = lambda n: _il.import_module('props.' + n)
    _c7.import_results(ck, _m("C05"), "5", "Timer", "3")  # a repeating timer re-arms itself (its self-disable is not swallowed by a returned Reregister)




class _StateFlags:
    """the fields of DispatcherInner that record "the source is registered": a bool (true / false) or a private
    field-less two-variant enum (one variant stored by register, the other by unregister)"""

    Q = "<RefCell<DispatcherInner> as EventDispatcher>::"

    def __init__(self, ck):
        f = self.f = ck.facts
        self.rg, self.ur = ck.opt_body(self.Q + "register"), ck.opt_body(self.Q + "unregister")
        self.flags = {}  # field -> (registered value, unregistered value); values: ("bool", 0/1) | ("variant", idx)
        if self.rg is None or self.ur is None:
            return
        adt = next((a for pth, a in f.adts.items() if pth.endswith("::DispatcherInner") or pth == "sources::DispatcherInner"), None)
        for v in (adt or {}).get("variants", []):
            for fl in v.get("fields", []):
                if fl.get("ty") is None:
                    continue
                ty = f.types[fl["ty"]]
                if ty["s"] == "bool":
                    if self.stores(self.rg, fl["name"], ("bool", 1)) and self.stores(self.ur, fl["name"], ("bool", 0)):
                        self.flags[fl["name"]] = (("bool", 1), ("bool", 0))
                    continue
                ea = f.adts.get(ty.get("path")) if ty.get("k") == "adt" else None
                if ea is not None and str(ea.get("kind", "")).lower() == "enum" and len(ea["variants"]) == 2 and all(not x.get("fields") for x in ea["variants"]):
                    for a_, b_ in ((0, 1), (1, 0)):
                        if self.stores(self.rg, fl["name"], ("variant", a_)) and self.stores(self.ur, fl["name"], ("variant", b_)) and not self.stores(self.rg, fl["name"], ("variant", b_)) and not self.stores(self.ur, fl["name"], ("variant", a_)):
                            self.flags[fl["name"]] = (("variant", a_), ("variant", b_))

    def _value(self, db, rv):
        if rv["r"] == "use":
            c = T.const_value(db, rv["o"], 8)
            if c is not None and rv["o"].get("k") is not None or c in (0, 1):
                ty = (rv["o"].get("k") or {}).get("ty")
                if ty is None or self.f.types[ty]["s"] == "bool":
                    return ("bool", c)
            av = T.agg_variant(db, rv["o"])
            if av and len({x[2] if len(x) > 2 else x[1] for x in av}) == 1:
                for r_, p_ in db.resolve(rv["o"]):
                    if r_[0] == "agg":
                        return ("variant", db.agg_at(r_[1], r_[2]).get("variant_idx"))
            return None
        if rv["r"] == "agg" and rv.get("kind") == "adt" and not rv.get("fields"):
            return ("variant", rv.get("variant_idx"))
        return None

    def stores(self, db, fld, val):
        return [i for i, j, st in T.stores_to_field(db, fld) if not db.is_cleanup(i) and self._value(db, st["rv"]) == val]

    def all_stores(self, db, fld):
        return [(i, self._value(db, st["rv"])) for i, j, st in T.stores_to_field(db, fld) if not db.is_cleanup(i)]

    def edges(self, db, want):
        """edges of db taken when a state flag says registered (want=True) / not registered (want=False)"""
        out = []
        for sw in T.switches_on_expr(db, lambda e: e[0] in ("place", "call", "discr")):
            kind, aps = T.switch_reads(db, sw)
            names = {x[1:] for root, path in aps for x in path[-1:] if isinstance(x, str) and x.startswith(".")}
            for fl in names & set(self.flags):
                reg, unreg = self.flags[fl]
                if reg[0] == "bool" and kind == "place":
                    out += T.edges_of_value(db, sw, want)
                elif reg[0] == "variant" and kind == "discr":
                    out += T.discr_edges(db, sw, reg[1] if want else unreg[1])
        return out


def dispatcher_state_protocol(ck, C):
    """DispatcherInner::{register, reregister, unregister} against the source they wrap.

    register / unregister always ask the source (once the cell could be borrowed). reregister asks it *exactly when the
    source is registered*: `update()` on a disabled source must not reach a source's reregister, because for a timer, a
    TransientSource or any source written as `unregister; register` that call arms it - the disabled source fires. So the
    dispatcher has to know whether it is registered: a bool field that register sets (only after the source's register
    succeeded), unregister clears (on every path that asked the source), nothing else writes, and that guards the
    source call of reregister. The same exactness is what makes a skip sound: a `registered` flag that one of the three
    methods forgets goes stale and a later disable() / update() silently does nothing."""
    f = ck.facts
    Q = "<RefCell<DispatcherInner> as EventDispatcher>::"
    bodies = {}
    for meth in ("register", "reregister", "unregister"):
        db = ck.opt_body(Q + meth)
        if db is None:
            ck.anchor_missing(C, "T2-all-exits", Q + meth)
            return
        bodies[meth] = db

    def source_calls(db, meth):
        return [c for c in T.calls(db, name=meth, trait="EventSource", self_kind=("param", "alias")) if not db.is_cleanup(c.bb)]

    def borrowed_starts(db):
        starts = []
        for t_ in T.calls(db, name=("try_borrow_mut", "borrow_mut"), path="RefCell"):
            ok_e, err_e, _d = T.result_split(db, t_.bb)
            starts += [x for _, x in ok_e] if ok_e else [t_.to]
        return starts or [0]

    SF = _StateFlags(ck)
    flags = sorted(SF.flags)

    def const_stores(db, fld, val):
        return SF.stores(db, fld, SF.flags[fld][0] if val == 1 else SF.flags[fld][1])

    def flag_edges(db, want):
        return SF.edges(db, want)

    for meth in ("register", "reregister", "unregister"):
        db = bodies[meth]
        sc = source_calls(db, meth)
        starts = borrowed_starts(db)
        if not sc:
            ck.verdict(False, C, "T2-all-exits", db, "dispatcher-asked=>source-asked", "", "%s%s never calls the source's %s" % (Q, meth, meth), site=db.where())
            continue
        bad = T.t2_all_exits(db, starts, [c.bb for c in sc])
        skip_ok = False
        if bad is not None and meth != "register" and flags:
            # the only way around the source is the 'not registered' edge of the state flag
            bad2 = T.t2_all_exits(db, starts, [c.bb for c in sc], removed_edges=flag_edges(db, False))
            skip_ok = bad2 is None
        ck.verdict(bad is None or skip_ok, C, "T2-all-exits", db, "dispatcher-asked=>source-asked", "every path on which the dispatcher could be borrowed calls the source's %s%s" % (meth, " (or leaves on the 'not registered' edge of its state flag)" if skip_ok else ""), "%s%s can return without calling the source's %s although the dispatcher was not busy%s: the request is silently dropped (a disabled-then-updated timer keeps firing after the next disable())" % (Q, meth, meth, "" if meth == "register" or not flags else " and the way around it is not the 'not registered' edge of a state flag"), site=db.where(), path=path_descr(db, bad) if bad and bad != [0] else None)

    # reregister only when registered
    rr = bodies["reregister"]
    sc = source_calls(rr, "reregister")
    if sc:
        tr_e = flag_edges(rr, True) if flags else []
        guarded = bool(tr_e) and all(T.reachable_only_via(rr, c.bb, tr_e) for c in sc)
        ck.verdict(guarded, C, "T4-state-guard", rr, "reregister-only-when-registered", "the source's reregister is reached only on the 'registered' edge of the dispatcher's state flag (%s)" % ", ".join(flags), "update() (and a Reregister post-action) reaches the source's reregister whether or not the source is registered: a disabled timer - or any source whose reregister is `unregister; register`, or a TransientSource holding one - is armed again by update() and its callback runs although the source is disabled", site=rr.where(sc[0].bb))
    if not flags:
        return
    # the flag is exact
    rg, ur = bodies["register"], bodies["unregister"]
    for fl in flags:
        sc = source_calls(rg, "register")
        ok_edges = []
        for c in sc:
            ok_e, err_e, _d = T.result_split(rg, c.bb)
            ok_edges += ok_e
        tstores = const_stores(rg, fl, 1)
        only_after_success = bool(ok_edges) and all(T.reachable_only_via(rg, i, ok_edges) for i in tstores)
        okr = [i for i, j, st in rg.statements() if st["s"] == "assign" and st["pl"]["l"] in T.ret_locals(rg) and st["rv"]["r"] == "agg" and st["rv"].get("variant") == "Ok" and not rg.is_cleanup(i)]
        bad = T.t2_all_exits(rg, [x for _, x in ok_edges], tstores, exits=okr or None) if ok_edges else [0]
        ck.verdict(only_after_success and bad is None, C, "T4-state-guard", rg, "registered:=true<=>source-registered:" + fl, "`%s` is set on every successful path of register and only after the source's register succeeded" % fl, "DispatcherInner::register does not set `%s` exactly when the source's register succeeded: the flag that guards update() is wrong (an enabled source ignores update(), or a source whose registration failed is treated as registered)" % fl, site=rg.where(), path=path_descr(rg, bad) if bad and bad != [0] else None)
        sc = source_calls(ur, "unregister")
        fstores = const_stores(ur, fl, 0)
        bad = T.t2_all_exits(ur, borrowed_starts(ur), fstores, removed_edges=flag_edges(ur, False))
        ck.verdict(bad is None, C, "T4-state-guard", ur, "unregistered=>registered:=false:" + fl, "`%s` is cleared on every path of unregister on which the dispatcher could be borrowed" % fl, "DispatcherInner::unregister can ask the source to unregister without clearing `%s`: a later update() re-arms the disabled source" % fl, site=ur.where(), path=path_descr(ur, bad) if bad else None)
        others = []
        for b in f.bodies.values():
            for i, j, st in T.stores_to_field(b, fl):
                if b.is_cleanup(i):
                    continue
                if f.adt_path(f.peel_refs(b.local_ty(st["pl"]["l"]))) not in (None,) and "DispatcherInner" not in str(f.adt_path(f.peel_refs(b.local_ty(st["pl"]["l"])))):
                    continue
                if b.qual == rg.qual and i in tstores:
                    continue
                if b.qual == ur.qual and i in fstores:
                    continue
                others.append("%s (%s)" % (b.qual, b.where(i)))
        ck.verdict(not others, C, "T7-who-may-write", rg, "state-flag-written-only-by-register/unregister:" + fl, "`%s` is written by register (true) and unregister (false) only" % fl, "`%s` is also written in %s: the state that guards update() no longer follows the registration" % (fl, others), site=rg.where())



def reregister_runs_only_when_registered(ck):
    """True when the dispatcher's state protocol holds on this tree: reregister reaches the source only while it is
    registered, and the flag that says so is exact (used by rules whose obligation only exists for an unregistered
    source reaching reregister)"""
    cache = ck.facts.__dict__.setdefault("_c07_state_protocol", {})
    if "v" not in cache:
        sub = type(ck)(ck.prop, ck.facts, ck.config, ck.tier)
        sub.nested = True
        sub._summaries = ck._summaries
        sub._flows = ck._flows
        try:
            dispatcher_state_protocol(sub, "x")
            rel = [r for r in sub.results if any(r["instance"].startswith(p_) for p_ in ("reregister-only-when-registered", "registered:=true<=>", "unregistered=>registered:=false", "state-flag-written-only"))]
            import core as _core

            cache["v"] = len(rel) >= 4 and all(r["verdict"] == _core.OK for r in rel)
        except Exception:
            cache["v"] = False
    return cache["v"]



def state_flag_edges(ck, db, want):
    """edges of `db` taken when the dispatcher's exact 'registered' flag has the value `want`"""
    return _StateFlags(ck).edges(db, want)
