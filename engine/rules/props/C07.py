"""C07 — disable() silences a source until enable(); readiness survives the gap."""
from mir import op_place, place_str
import templates as T
from core import path_descr, AnchorMissing
from props import common, C09
from props.common import DispatchLoop

LEVEL = "other"
CONFIGS = ["full", "book", "default"]
NOT_DECIDED = ["persistence of kernel-side readiness (eventfd counter, socket buffers) across the gap", "delivery 'after enable()' as a history property"]
EXPLANATION = (
    "Decides on the MIR: (1) disable() unregisters the looked-up dispatcher and defers PostAction::Disable exactly when the "
    "dispatcher answers false; (2) Generic and Timer forget their key when unregistered, on every successful path (with C01.5 an "
    "event collected before the disable is then ignored); (3) every wrapper source forwards unregister->unregister and "
    "register->register; (4) Timer::unregister does not touch the deadline, Timer::register arms from it, enable() registers "
    "under the slot's own token."
)


def run(ck):
    f = ck.facts
    dl = DispatchLoop(ck, "1")
    C09.who_may_defer(ck, "1", dl.body)
    # a deferred Disable is consumed by the source that asked for it and never reaches another one
    C09.take_and_reset(ck, "1", dl)
    # ---- clause 2 ----------------------------------------------------------------------------------
    g = ck.body("2", "<Generic as EventSource>::unregister")
    pu = [cs for cs in T.calls(g, name="unregister") if cs.f["path"] == "sys::Poll::unregister"]
    tok_none = [i for i, j, st in T.stores_to_field(g, "token") if st["rv"]["r"] == "use" and any(v[1] == "None" for v in T.agg_variant(g, st["rv"]["o"]))] + [cs.bb for cs in T.calls(g, name="take") if T.path_has(g, cs.args[0], ".token")]
    if not pu:
        ck.anchor_missing("2", "T2-all-exits", "Poll::unregister in Generic::unregister")
    else:
        ok_e, err_e, _ = T.result_split(g, pu[0].bb)
        okret = [i for i, j, st in g.statements() if st["s"] == "assign" and st["pl"]["l"] in T.ret_locals(g) and st["rv"]["r"] == "agg" and st["rv"].get("variant") == "Ok" and not g.is_cleanup(i)]
        bad = T.t2_all_exits(g, [x for _, x in ok_e] or [pu[0].to], tok_none, exits=okret or None)
        ck.verdict(bool(tok_none) and bad is None, "2", "T2-all-exits", g, "unregistered=>token-forgotten", "every successful unregister clears the recorded token (events collected before a disable are then ignored)", "Generic::unregister can succeed while keeping its token: an event collected before disable() still reaches the callback", site=g.where(pu[0].bb), path=path_descr(g, bad) if bad else None)
        # .. and the recorded poller: Drop / unwrap delete the fd from whatever poller is recorded, so a source that keeps
        # it after a successful unregister deletes, when it is dropped later, a registration that is no longer its own
        # (the same fd registered again by its replacement)
        pol_none = [i for i, j, st in T.stores_to_field(g, "poller") if st["rv"]["r"] == "use" and any(v[1] == "None" for v in T.agg_variant(g, st["rv"]["o"]))] + [cs.bb for cs in T.calls(g, name="take") if T.path_has(g, cs.args[0], ".poller")]
        has_poller_field = any(fl.get("name") == "poller" for v_ in (f.adts.get("sources::generic::Generic") or {}).get("variants", []) for fl in v_.get("fields", []))
        if has_poller_field:
            badp = T.t2_all_exits(g, [x for _, x in ok_e] or [pu[0].to], pol_none, exits=okret or None) if pol_none else [0]
            ck.verdict(bool(pol_none) and badp is None, "2", "T2-all-exits", g, "unregistered=>poller-forgotten", "every successful unregister clears the recorded poller (a later Drop/unwrap deletes nothing)", "Generic::unregister can succeed while keeping its reference to the poller: when that source is dropped or unwrapped later it deletes the fd from the poller again - by then possibly the registration of the source that replaced it", site=g.where(pu[0].bb), path=path_descr(g, badp) if badp and badp != [0] else None)
    t = ck.body("2", "<Timer as EventSource>::unregister")
    forget = [cs.bb for cs in T.calls(t, name=("take", "replace")) if T.path_has(t, cs.args[0], ".registration")] + [i for i, j, st in T.stores_to_field(t, "registration") if st["rv"]["r"] == "use" and any(v[1] == "None" for v in T.agg_variant(t, st["rv"]["o"]))]
    bad = T.t2_all_exits(t, [0], forget) if forget else [0]
    ck.verdict(bool(forget) and bad is None, "2", "T2-all-exits", t, "unregistered=>registration-forgotten", "Timer::unregister drops its registration (token and counter) on every path", "Timer::unregister keeps its registration: the timer still believes it is armed, so an expiry collected before a disable fires the callback and a repeating timer re-arms itself while disabled", site=t.where(), path=path_descr(t, bad) if bad else None)

    # ---- clause 3 ----------------------------------------------------------------------------------------
    n = common.wrapper_forwarding(ck, "3", methods=("register", "unregister"))
    ck.floor("3", "wrapper (impl, method) forwarding instances", n, 8 if ck.has("executor") else 6)

    # ---- clause 4 ----------------------------------------------------------------------------------------
    writers = set()
    for b in f.bodies.values():
        if b.impl_self is not None and f.short_ty(b.impl_self) not in ("Timer",):
            continue
        for i, j, st in T.stores_to_field(b, "deadline"):
            if f.adt_path(f.peel_refs(b.local_ty(st["pl"]["l"]))) == "sources::timer::Timer":
                writers.add(b.qual)
    ck.verdict("<Timer as EventSource>::unregister" not in writers and "<Timer as EventSource>::reregister" not in writers, "4", "T7-who-may-write", "<Timer as EventSource>::unregister", "deadline-survives-disable", "unregister does not touch the deadline (writers: %s)" % sorted(writers), "Timer::unregister/reregister overwrite the deadline: a disabled timer loses its expiry", site=t.where())
    tr = ck.body("4", "<Timer as EventSource>::register")
    ins = T.calls(tr, name=("insert", "insert_reuse"), path="TimerWheel")
    ck.verdict(bool(ins) and all(T.path_has(tr, T.arg_by_type(tr, c, "std::time::Instant", 1 if c.name == "insert" else 2), ".deadline") for c in ins), "4", "T6-provenance", tr, "arms-from-self.deadline", "register arms the wheel with the timer's own deadline", "Timer::register does not arm from self.deadline", site=tr.where())
    en = ck.body("4", "LoopHandle::enable")
    tf = T.calls(en, name="new", path="TokenFactory::new")
    gets = T.calls(en, name=("get", "get_mut"), path="SourceList")
    ck.verdict(bool(tf) and all(T.resolves_to_call(en, c.args[0], [g_.bb for g_ in gets]) and T.path_has(en, c.args[0], ".token") for c in tf), "4", "T6-provenance", en, "registers-under-slot-token", "enable() registers under the token stored in the slot (same generation, sub-ids from 0)", "enable() does not register under the slot's own token", site=en.where())
    reg = T.calls(en, name=("register", "reregister", "unregister"), trait="EventDispatcher", self_kind=("dyn",))
    ck.verdict(bool(reg) and all(c.name == "register" for c in reg), "4", "T8-sibling-agreement", en, "enable-calls-register", "enable() calls register", "enable() calls %s" % sorted({c.name for c in reg}), site=en.where())
    di = ck.body("4", "LoopHandle::disable")
    reg = T.calls(di, name=("register", "reregister", "unregister"), trait="EventDispatcher", self_kind=("dyn",))
    ck.verdict(bool(reg) and all(c.name == "unregister" for c in reg), "4", "T8-sibling-agreement", di, "disable-calls-unregister", "disable() calls unregister", "disable() calls %s" % sorted({c.name for c in reg}), site=di.where())

    # every successful enable()/disable()/update() has really asked the dispatcher: no "already in that state, nothing to
    # do" shortcut decided from a flag the loop keeps on the side (such a flag goes stale as soon as one path - a deferred
    # request that is later superseded, a Reregister post-action, a TransientSource - changes the registration without it)
    for q, meth in (("LoopHandle::enable", "register"), ("LoopHandle::disable", "unregister"), ("LoopHandle::update", "reregister")):
        hb = ck.opt_body(q)
        if hb is None:
            ck.anchor_missing("4", "T2-all-exits", q)
            continue
        dc = [c.bb for c in T.calls(hb, name=meth, trait="EventDispatcher", self_kind=("dyn",)) if not hb.is_cleanup(c.bb)]
        okr = [i for i, j, st in hb.statements() if st["s"] == "assign" and st["pl"]["l"] in T.ret_locals(hb) and st["rv"]["r"] == "agg" and st["rv"].get("variant") == "Ok" and not hb.is_cleanup(i)]
        bad = T.t2_all_exits(hb, [0], dc, exits=okr) if dc and okr else ([0] if not dc else None)
        ck.verdict(bad is None, "4", "T2-all-exits", hb, "Ok=>dispatcher-asked", "every Ok return of %s has called the dispatcher's %s" % (q, meth), "%s can return Ok without calling the dispatcher's %s (a shortcut taken from bookkeeping kept beside the dispatcher): when that bookkeeping is stale the call silently does nothing - the fd stays in (or out of) the poller" % (q, meth), site=hb.where(), path=path_descr(hb, bad) if bad else None)

    # .. and the dispatcher really asks the source: once its cell could be borrowed, every path through
    # DispatcherInner::{register, reregister, unregister} calls the source's method of the same name (no "registered"
    # flag kept beside the source decides to skip it: reregister() of a timer, a TransientSource or a composite source
    # effectively registers, so such a flag goes stale and a later disable() silently does nothing)
    for meth in ("register", "reregister", "unregister"):
        q = "<RefCell<DispatcherInner> as EventDispatcher>::" + meth
        db = ck.opt_body(q)
        if db is None:
            ck.anchor_missing("4", "T2-all-exits", q)
            continue
        sc_ = [c.bb for c in T.calls(db, name=meth, trait="EventSource", self_kind=("param", "alias")) if not db.is_cleanup(c.bb)]
        tb_ = T.calls(db, name=("try_borrow_mut", "borrow_mut"), path="RefCell")
        starts = []
        for t_ in tb_:
            ok_e, err_e, _d = T.result_split(db, t_.bb)
            starts += [x for _, x in ok_e] if ok_e else [t_.to]
        bad = T.t2_all_exits(db, starts or [0], sc_) if sc_ else [0]
        ck.verdict(bad is None, "4", "T2-all-exits", db, "dispatcher-asked=>source-asked", "every path on which the dispatcher could be borrowed calls the source's %s" % meth, "%s can return without calling the source's %s although the dispatcher was not busy: the request is silently dropped (a disabled-then-updated timer keeps firing after the next disable())" % (q, meth), site=db.where(), path=path_descr(db, bad) if bad and bad != [0] else None)

    # ---- clause 5: shared necessary conditions ---------------------------------------------------------------
    from props import C14, C15, C01

    common.import_results(ck, C15, "4", "Generic", "2")
    common.import_results(ck, C14, "1", None, "5")
    common.import_results(ck, C14, "2", None, "5")
    common.import_results(ck, C01, "6", None, "3")
    common.import_results(ck, C01, "5", None, "3")
    # a child of a TransientSource that answered Disable stays silent across re-registrations of the wrapper (E3)
    common.import_e3(ck, "6", lambda inst: "asked to be disabled" in inst or "forwarded" in inst)
    # ---- shared clauses demonstrated by seeding round 7 (the property broken from a distant module) --------------
    from props import common as _c7
    import importlib as _il
    _m = lambda n: _il.import_module('props.' + n)
    _c7.import_results(ck, _m("C05"), "5", "Timer", "3")  # a repeating timer re-arms itself (its self-disable is not swallowed by a returned Reregister)

