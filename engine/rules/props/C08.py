"""C08 — loop and source handles are safely re-entrant from inside callbacks."""
import templates as T
import t1
import flow
from core import path_descr, AnchorMissing

LEVEL = "other"
CONFIGS = ["full", "book", "default"]
NOT_DECIDED = [
    "'has the effect it would have outside a dispatch' (behavioural); user-written sources that hold their own RefCells",
    "SRC sites (EventSource::register/.. and the lifecycle hooks) run source-implementation code under the poll/lifecycle guards by contract; WAKE sites run wakers: both are enumerated in the evidence, not armed",
]
EXPLANATION = (
    "T1 over the whole crate: at every program point where user code may run (generic Fn/FnMut/FnOnce calls on a type parameter, "
    "dyn EventDispatcher::process_events, dyn IdleDispatcher::dispatch, EventSource::process_events on a parameter, Runnable::run, "
    "Future::poll/Stream::poll_next on a parameter, and calls of local functions/closures that reach one), the set of live RefCell "
    "guards (forward may-analysis over MIR with drop flags, plus the guards held by the caller of a closure) must be within the "
    "allowed set {the running dispatcher's own cell, the running idle's own cell}. Plus: DispatcherInner::{reregister,unregister} "
    "never block on their own cell; no function returns while holding a loop-state guard; no nested incompatible borrow of the same "
    "loop cell through a resolved local callee."
)

# payload type (short) -> (where it is allowed, reason)
ALLOWED = {
    "DispatcherInner": "the running dispatcher's own cell (documented: as_source_ref/as_source_mut on the running source are excluded)",
    "dyn IdleDispatcher": "the running idle callback's own cell",
}

LOOP_CELLS = ("Poll", "SourceList", "AdditionalLifecycleEventsSet", "TimerWheel", "IoDispatcher", "Events", "HashMap", "Vec<Rc<RefCell<dyn IdleDispatcher>", "Option<Slab<Active>>")


def is_allowed(short):
    for k in ALLOWED:
        if short == k or short.startswith(k + "<"):
            return k
    return None


def busy_answer_rules(ck, C):
    """the dispatcher's own cell is only try-borrowed, and Ok(false) is answered exactly when that fails (shared
    with C09.4: LoopHandle::disable/update read Ok(false) as 'called from inside the running callback')"""
    if any(r["clause"] == C and r["instance"] == "busy=>Ok(false)" for r in ck.results):
        return
    for q in ("<RefCell<DispatcherInner> as EventDispatcher>::reregister", "<RefCell<DispatcherInner> as EventDispatcher>::unregister"):
        b = ck.opt_body(q)
        if b is None:
            ck.anchor_missing(C, "T7-who-may-call", q)
            continue
        blocking = [cs for cs in T.calls(b, name=("borrow_mut", "borrow"), path="std::cell::RefCell") if T.resolves_to_arg(b, cs.args[0], 1)]
        trying = [cs for cs in T.calls(b, name=("try_borrow_mut", "try_borrow"), path="std::cell::RefCell") if T.resolves_to_arg(b, cs.args[0], 1)]
        ck.verdict(not blocking and bool(trying), C, "T7-who-may-call", b, "own-cell:try_borrow-only", "the dispatcher's own cell is only try-borrowed (a call from inside the running callback answers false instead of panicking)", "the dispatcher's own cell is borrowed with a panicking borrow: update()/disable()/remove() aimed at the running source from its own callback would panic", site=b.where(blocking[0].bb) if blocking else b.where())
        # the failed try-borrow answers Ok(false)
        for t in trying:
            ok_e, err_e, _ = T.result_split(b, t.bb)
            ok = False
            stray = []
            for i, j, st in b.statements():
                if st["s"] == "assign" and st["pl"]["l"] in T.ret_locals(b) and st["rv"]["r"] == "agg" and st["rv"].get("variant") == "Ok" and not b.is_cleanup(i):
                    v = st["rv"]["fields"][0]
                    from props import common as _cm

                    bv = _cm.busy_value(ck.facts, q.rsplit("::", 1)[1])
                    pv = _cm.payload_value(b, v)
                    if (bv is not None and pv == bv) or (bv is None and T.const_value(b, v, 8) == 0):
                        if err_e and T.reachable_only_via(b, i, err_e):
                            ok = True
                        else:
                            stray.append(i)
            ck.verdict(ok and not stray, C, "T4-guarded-by", b, "busy=>Ok(false)", "a busy dispatcher answers Ok(false) exactly on the failed try-borrow edge (Ok(false) means 'called from inside the running callback: defer it' to LoopHandle::disable/update)", "%s: the caller reads Ok(false) as 'I am inside this source's callback' and parks a deferred action in the loop-wide cell, which the next unrelated source then picks up" % ("Ok(false) is also answered when the dispatcher was not busy (%s)" % ", ".join(b.where(i) for i in stray) if stray else "the busy answer Ok(false) is not tied to the failed try-borrow"), site=b.where(stray[0]) if stray else b.where(t.bb))



def run(ck):
    f = ck.facts
    sites = t1.enumerate_sites(ck)
    ck._t1_sites = sites
    n = 0
    for s in sites:
        if s.cls not in ("CB", "FUT"):
            continue
        n += 1
        bad = []
        held = []
        own = set()
        cs_ = s.body.call_at(s.bb)
        if s.cls == "CB" and cs_ is not None and cs_.args and cs_.trait in flow.FN_TRAITS:
            # the guard the callback itself is borrowed out of (`slot.as_mut()` -> `callback(data)`): the callback's own
            # cell, necessarily borrowed while it runs — not loop state
            for l, kind, p_ in s.live:
                if T.derives_from_local(s.body, cs_.args[0], l) and not any(x in f.types[p_]["s"] for x in LOOP_CELLS + ("DispatcherInner", "LoopInner")):
                    own.add(s.body.local_name(l) or "_%d" % l)
        for kind, short, tdesc, name, src in s.payloads():
            held.append("%s<%s> %s" % (kind, short, name))
            if not is_allowed(short) and not (src is None and name in own):
                bad.append("%s<%s> held in %s%s" % (kind, short, name, " by " + src if src else ""))
        descr = "%s:%s" % (s.cls, s.descr)
        if bad:
            ck.violation("1", "T1-no-guard-across-user-code", s.body, descr, "user code (%s) can run while a RefCell guard of loop state is live: %s — any re-entrant handle operation borrowing that cell from the callback panics (or, for a shared guard, a mutable re-borrow does)" % (s.cls, "; ".join(bad)), site=s.body.where(s.bb), path=s.via)
        else:
            ck.ok("1", "T1-no-guard-across-user-code", s.body, descr, "live guards at this user-code site: %s" % (held or "none"), site=s.body.where(s.bb))
    # floor: the number of *functions* (closures counted with their parent) in which user code is reached, counted
    # on the reference tree: full 26, book (executor, futures-io) 23, default 21. (The number of sites inside one
    # function is not a floor: merging three replace_state calls into one is a legitimate refactoring.)
    fns = {s.body.qual.split("::{closure")[0] for s in sites if s.cls in ("CB", "FUT")}
    fl = 21 + (2 if ck.has("executor") else 0) + (1 if ck.has("stream") else 0) + (1 if ck.has("signals") else 0) + (1 if ck.has("block_on") else 0)
    # a function may legitimately stop reaching user code (TransientSource::remove written without replace_state): the
    # floor guards against a vacuous enumeration, so it is set three below the reference count
    fl -= 3
    ck.floor("1", "functions reaching user code (CB/FUT sites, direct and through local callees)", len(fns), fl)
    for s in sites:
        if s.cls in ("SRC", "WAKE") and s.payloads():
            ck.info("1", "T1-enumerated", s.body, "%s:%s" % (s.cls, s.descr), "source-implementation code / waker runs under %s (by contract; not covered by the statement)" % [p[1] for p in s.payloads()], site=s.body.where(s.bb))

    # ---- clause 2: try_borrow only in DispatcherInner::{reregister, unregister} ---------------------
    busy_answer_rules(ck, "2")

    # a self-directed disable()/update() is parked and applied when the source's processing finishes, to
    # that source only (shared with C09.1/C09.4); a disable() aimed at another source from a callback
    # silences events already collected for it (shared with C01.5)
    from props import C09, C01, common
    from props.common import DispatchLoop

    try:
        dl = DispatchLoop(ck, "2")
        C09.take_and_reset(ck, "2", dl)
        C09.who_may_defer(ck, "2", dl.body)
    except AnchorMissing:
        pass
    common.import_results(ck, C01, "5", None, "2")
    from props import C06, C07, C05

    common.import_results(ck, C06, "2", "dispatch_events", "2")
    # no dispatcher reference is released (possibly the last one: the user's Drop runs) under a loop borrow (C06.4)
    common.import_results(ck, C06, "4", None, "3")
    common.import_results(ck, C01, "4", None, "3")
    common.import_results(ck, C06, "1", "LoopHandle::remove", "2")
    common.import_results(ck, C07, "2", None, "2")
    common.import_results(ck, C05, "5", "Timer", "2")
    common.import_results(ck, C05, "6", "Timer", "2")
    # insert_idle from inside an idle callback: the new idle survives the round that is being run (shared with C13.2)
    from props import C13

    common.import_results(ck, C13, "2", "dispatch_idles", "2")
    # adapt_io() from inside a callback that fails must leave the registrations of the other sources alone (C15.4, C16.2)
    from props import C15 as _C15, C16 as _C16

    common.import_results(ck, _C15, "4", "IoLoopInner", "2")
    common.import_results(ck, _C16, "2", None, "2")
    # a ping sent to a source from inside its own callback is really written (no "already pending" shortcut): C03.2
    common.ping_infra(ck, "2")

    # ---- clause 3: nobody returns holding a guard; no nested incompatible borrow -----------------------
    nret = 0
    for b in f.bodies.values():
        gf = ck.guardflow(b)
        if not gf.guard_locals:
            continue
        for rb in b.return_blocks():
            live = [x for x in gf.live_payloads(rb) if x[0] != 0]
            nret += 1
            if live:
                ck.violation("3", "T1-escape", b, "returns-holding-guard", "the function can return while a guard is still alive: %s" % [(f.short_ty(p), b.local_name(l)) for l, k, p in live], site=b.where(rb))
    ck.ok("3", "T1-escape", "<crate>", "no-return-while-holding-guard", "%d return points of guard-using functions inspected" % nret, site="") if nret else None
    # borrow summaries
    borrows = {}
    for b in f.bodies.values():
        s_ = set()
        for cs in T.calls(b, name=("borrow", "borrow_mut"), path="std::cell::RefCell"):
            if cs.f["path"] in ("std::cell::RefCell::<T>::borrow", "std::cell::RefCell::<T>::borrow_mut"):
                pay = cs.targs()[0] if cs.targs() else None
                if pay is not None:
                    s_.add((f.short_ty(pay), cs.name == "borrow_mut"))
        borrows[b.key] = s_
    changed = True
    while changed:
        changed = False
        for b in f.bodies.values():
            for cs in b.calls():
                cb = cs.callee_body()
                if cb is not None and not borrows[cb.key] <= borrows[b.key]:
                    borrows[b.key] |= borrows[cb.key]
                    changed = True
    nn = 0
    for b in f.bodies.values():
        gf = ck.guardflow(b)
        if not gf.guard_locals:
            continue
        for cs in b.calls():
            if b.is_cleanup(cs.bb):
                continue
            live = gf.live_payloads(cs.bb)
            if not live:
                continue
            cb = cs.callee_body()
            inner = set(borrows[cb.key]) if cb is not None else set()
            if cs.f and cs.f["path"] in ("std::cell::RefCell::<T>::borrow", "std::cell::RefCell::<T>::borrow_mut") and cs.targs():
                inner = {(f.short_ty(cs.targs()[0]), cs.name == "borrow_mut")}
            for l, kind, p in live:
                sp = f.short_ty(p)
                if not any(sp.startswith(c) for c in LOOP_CELLS) or sp.startswith("IoDispatcher"):
                    continue
                nn += 1
                for ip, imut in inner:
                    if ip == sp and (imut or kind == "RefMut"):
                        ck.violation("3", "T1b-nested-borrow", b, "reborrow:%s@%s" % (sp, cs.describe()), "RefCell<%s> is borrowed again (%s) while %s<%s> is still alive in %s: this panics at run time" % (sp, "mutably" if imut else "shared", kind, sp, b.local_name(l) or "_%d" % l), site=b.where(cs.bb))
    ck.ok("3", "T1b-nested-borrow", "<crate>", "no-nested-incompatible-borrow", "%d (call site, live loop-cell guard) pairs inspected against the callee's transitive borrow summary" % nn, site="") if nn else None
