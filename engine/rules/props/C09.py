"""C09 — a post-action is applied once, to the source that asked for it, and to no other."""
from mir import op_place, place_str
import templates as T
from core import path_descr, AnchorMissing
from props.common import DispatchLoop

LEVEL = "other"
CONFIGS = ["full", "book", "default"]
NOT_DECIDED = [
    "a deferred request left behind by user code that holds as_source_mut() while calling disable() outside any dispatch",
    "history-level 'exactly once' beyond the structural take-and-reset / switch shape",
]
EXPLANATION = (
    "Decides the structural necessary conditions of C09 on the MIR of EventLoop::dispatch_events, LoopHandle::update/disable "
    "and the PostAction BitOr impls: (1) the deferred-action cell is consumed on every exit after process_events, including the "
    "error exit; (2) it is merged only over Continue; (3) each arm of the post-action switch acts on the processed dispatcher "
    "with this iteration's token; (4) the set of writers of the cell and their guards; (5) the combination law of | and |=."
)

PA = "sources::PostAction"


def is_pending_cell(body, op):
    return T.path_has(body, op, ".pending_action")


def take_and_reset(ck, C, dl):
    f = ck.facts
    b = dl.body
    # ---- clause 1: take-and-reset on every exit ----------------------------------------------
    resets = [cs for cs in T.calls(b, name=("replace", "set", "take"), path="std::cell::Cell") if is_pending_cell(b, cs.args[0])]
    # (blocks that only lead to an error return are not part of the natural loop: a reset on the error arm counts too)
    after_pe = b.reachable([dl.pe.to], removed_blocks=[dl.header]) if dl.pe.to is not None else set()
    resets_in_loop = [cs for cs in resets if cs.bb in dl.blocks or cs.bb in after_pe]
    if not resets_in_loop:
        ck.anchor_missing(C, "T2-all-exits", "reset of the deferred-action cell in the batch loop")
        raise AnchorMissing("reset")
    bad = T.t2_all_exits(b, [dl.pe.to], [cs.bb for cs in resets_in_loop], exits=dl.exits)
    descr = "after:dyn EventDispatcher::process_events/pass:Cell<PostAction>::replace|set|take(pending_action)"
    if bad is None:
        ck.ok(C, "T2-all-exits", b, descr, "every path from the return of process_events to a return or to the next iteration consumes the deferred-action cell (error exit included)", site=b.where(dl.pe.bb))
    else:
        ck.violation(C, "T2-all-exits", b, descr, "a path leaves the iteration after process_events without resetting pending_action (a deferred Disable/Reregister would be applied to a later, unrelated source)", site=b.where(dl.pe.bb), path=path_descr(b, bad))
    # the value written by the reset is Continue
    for cs in resets_in_loop:
        if cs.name in ("replace", "set"):
            v = T.agg_variant(b, cs.args[1])
            ck.verdict(v == {(PA, "Continue")}, C, "T6-provenance", b, "reset-value@" + cs.name, "the cell is reset to PostAction::Continue", "the cell is reset to %s, not to Continue" % sorted(v), site=b.where(cs.bb))

    return resets, resets_in_loop


def who_may_defer(ck, C, b):
    f = ck.facts
    from props import C08

    C08.busy_answer_rules(ck, C)
    # ---- clause 4: who may defer ---------------------------------------------------------------
    writers = {}
    for body in f.bodies.values():
        for cs in T.calls(body, name=("set", "replace", "take", "swap"), path="std::cell::Cell"):
            if is_pending_cell(body, cs.args[0]):
                writers.setdefault(body.qual, []).append(cs)
        for i, j, st in body.statements():
            if st["s"] == "assign" and st["rv"]["r"] == "agg" and st["rv"].get("adt") == "loop_logic::LoopInner":
                writers.setdefault(body.qual, []).append(("init", i, j, st))
    expected = {"EventLoop::try_new", "LoopHandle::update", "LoopHandle::disable", b.qual}
    for q in sorted(set(writers) - expected):
        ck.violation(C, "T7-who-may-write", q, "writer-of:pending_action", "unexpected writer of the deferred-action cell (only try_new, update, disable and the dispatch loop may write it)", site=f.by_qual[q][0].where())
    for q in sorted(expected):
        if q in writers:
            ck.ok(C, "T7-who-may-write", q, "writer-of:pending_action", "expected writer of the deferred-action cell", nontrivial=False)
    ck.floor(C, "writers of pending_action", len(set(writers) & expected), 4)
    for q, want, meth in (("LoopHandle::update", "Reregister", "reregister"), ("LoopHandle::disable", "Disable", "unregister")):
        body = f.body(q)
        if body is None or q not in writers:
            ck.anchor_missing(C, "T4-guarded-by", q + " stores the deferred request")
            continue
        dcs = T.calls(body, name=meth, trait="EventDispatcher", self_kind=("dyn",))
        for cs in writers[q]:
            if isinstance(cs, tuple):
                continue
            v = T.agg_variant(body, cs.args[1]) if len(cs.args) > 1 else set()
            # .. and nothing else: a value computed from what the cell already held (`earlier | action`: Reregister |
            # Disable is Reregister, so an update() followed by a disable() in one callback would lose the disable) is
            # not "the last request wins"
            computed = sorted({r[0] + (":" + (body.call_at(r[1]).name or "?") if r[0] == "call" else "") for r, p_ in body.resolve(cs.args[1]) if r[0] not in ("agg", "const")}) if len(cs.args) > 1 else []
            ck.verdict(v == {(PA, want)} and not computed, C, "T6-provenance", body, "deferred-value", "%s defers PostAction::%s" % (q, want), "%s defers %s%s instead of %s" % (q, sorted(v), (" or a value computed from " + ", ".join(computed)) if computed else "", want), site=body.where(cs.bb))
            ok = False
            from props import common as _cm

            bv = _cm.busy_value(f, meth) or ("const", 0)
            for d in dcs:
                ed = _cm.value_test_edges(body, d.bb, bv)
                if ed and T.reachable_only_via(body, cs.bb, ed):
                    ok = True
            ck.verdict(ok, C, "T4-guarded-by", body, "defer-only-if:%s-answered-false" % meth, "the request is deferred only when the dispatcher answered false (it is being dispatched)", "the deferred request is stored although the dispatcher did not answer false (it would be applied to whatever source is dispatched next)", site=body.where(cs.bb))
        # and the false answer must lead to the store (the request may not be dropped)
        for d in dcs:
            from props import common as _cm

            ed = _cm.value_test_edges(body, d.bb, _cm.busy_value(f, meth) or ("const", 0))
            if ed:
                s2 = ed[0][0]
                starts = [t for _, t in ed]
                bad = T.t2_all_exits(body, starts, [cs.bb for cs in writers[q] if not isinstance(cs, tuple)])
                ck.verdict(bad is None, C, "T2-all-exits", body, "false-answer-must-defer", "every path from the false answer stores the deferred request", "the false answer of the dispatcher can return without storing the deferred request (a self-directed %s would be lost)" % q.split("::")[-1], site=body.where(d.bb), path=path_descr(body, bad) if bad else None)



def run(ck):
    f = ck.facts
    dl = DispatchLoop(ck, "1")
    b = dl.body
    resets, resets_in_loop = take_and_reset(ck, "1", dl)

    # ---- clause 2: merge only over Continue ---------------------------------------------------
    takes = [cs for cs in resets_in_loop if cs.name in ("replace", "take")]
    merges = []
    for i, j, st in b.statements():
        if i not in dl.blocks or st["s"] != "assign" or st["rv"]["r"] != "use":
            continue
        if st["pl"]["p"]:
            continue
        take_dests = {cs.dest["l"] for cs in takes if not cs.dest["p"]}
        org = T.place_origin(b, st["rv"]["o"])  # .. also through the environment of a closure expanded in place
        if ((T.copy_chain_locals(b, st["rv"]["o"]) & take_dests) or (org is not None and org[0] in take_dests and all(x == "*" for x in org[1]))) and f.adt_path(st["pl"]["t"]) == PA:
            # skip the copy chain temporaries: keep stores into a local that is later switched on
            merges.append((i, j, st))
    # the merged variable is the one the post-action switch looks at
    pa_switches = [sw for sw in T.switches_on_discr_of(b, lambda pl: f.adt_path(pl["t"]) == PA and not pl["p"]) if sw in dl.blocks and len(b.blocks[sw]["term"]["targets"]) >= 3]
    if len(pa_switches) != 1:
        ck.anchor_missing("3", "T9-switch", "post-action switch", "expected one switch over a PostAction with >=3 arms in the batch loop, found %d" % len(pa_switches))
        raise AnchorMissing("post-action switch")
    sw = pa_switches[0]
    ret_local = b.expr(b.blocks[sw]["term"]["on"], at=sw)[2]["l"]
    # the switched-on value may be a copy of the variable the merge writes (argument of an inlined helper)
    ret_locals = T.copy_chain_locals(b, b.expr(b.blocks[sw]["term"]["on"], at=sw)[2]) | {ret_local}
    # .. on any of its definitions (the return value of an inlined helper has one definition per `return`)
    grew = True
    while grew:
        grew = False
        for l_ in list(ret_locals):
            for d_ in b.defs().get(l_, []):
                if d_[0] == "assign" and d_[3]["rv"]["r"] == "use":
                    pl_ = op_place(d_[3]["rv"]["o"])
                    if pl_ is not None and not pl_["p"] and pl_["l"] not in ret_locals and f.adt_path(b.local_ty(pl_["l"])) == PA and len(b.defs().get(pl_["l"], [])) >= 2:
                        ret_locals.add(pl_["l"])
                        grew = True
    merged = [m for m in merges if m[2]["pl"]["l"] in ret_locals]
    if merged:
        ret_local = merged[0][2]["pl"]["l"]
    merges = merged
    cont = T.variant_discr(f, PA, "Continue")
    if not merges:
        ck.violation("2", "T4-guarded-by", b, "merge:ret=pending", "the deferred action is never merged into the post-action that is applied (a self-directed disable()/update() from a callback would be lost)", site=b.where(sw))
    for i, j, st in merges:
        guards = [g for g in T.switches_on_discr_of(b, lambda pl: pl["l"] == ret_local and not pl["p"]) if g != sw and g in dl.blocks]
        # .. or the test is made on the payload of process_events' own result (`match result { Ok(Continue) => pending, .. }`)
        # (a projection of the result, or a local it was moved into - the parameter of an inlined helper)
        guards += [g for g in T.switches_on_discr_of(b, lambda pl: f.adt_path(pl["t"]) == PA and bool(b.resolve(pl)) and all(r == ("call", dl.pe.bb) for r, p_ in b.resolve(pl))) if g != sw and g in dl.blocks and g not in guards]
        eq_guards = []
        for cs in T.calls(b, name=("eq", "ne"), trait="PartialEq"):
            if cs.bb in dl.blocks and any(T.refers_to_local(b, a, ret_local) for a in cs.args):
                eq_guards.append(cs)
        ok = False
        for g in guards:
            if T.reachable_only_via(b, i, T.discr_edges(b, g, cont), frm=[dl.pe.to], barrier=[dl.header]):
                ok = True
        for cs in eq_guards:
            for s2, mode in T.call_result_switches(b, cs.bb):
                want = cs.name == "eq"
                consts = T.agg_variant(b, cs.args[1]) | T.agg_variant(b, cs.args[0])
                is_cont = (PA, "Continue") in consts or any(v[0] == "const" and "Continue" in str(v[1]) for v in consts) or any("Continue" in (a.get("k", {}).get("s", "")) for a in cs.args)
                if not is_cont:
                    # promoted constant `&PostAction::Continue`
                    for a in cs.args:
                        for r_, p_ in b.resolve(a):
                            if r_[0] == "const" and "promoted" in str(r_[1]):
                                is_cont = True
                if is_cont and T.reachable_only_via(b, i, T.edges_of_value(b, s2, want), frm=[dl.pe.to], barrier=[dl.header]):
                    ok = True
        ck.verdict(ok, "2", "T4-guarded-by", b, "merge:ret=pending/guard:ret==Continue", "the deferred action overrides the returned one only on the edge where the source returned Continue", "the deferred action is merged without the returned action being tested for Continue (an explicit non-Continue return must take precedence)", site=b.where(i))

    # ---- clause 3: the switch applies the action to the processed source ----------------------
    disp_roots = b.resolve(dl.pe.args[0])
    token_calls = [cs.bb for cs in T.calls(b, name="forget_sub_id") if cs.bb in dl.blocks]
    ev_tok_ok = lambda op: T.resolves_to_call(b, op, token_calls) or T.path_has(b, op, ".token")
    arms = {v["name"]: T.discr_edges(b, sw, v["discr"]) for v in f.adts[PA]["variants"]}
    rereg = [cs for cs in T.calls(b, name="reregister", trait="EventDispatcher", self_kind=("dyn",)) if cs.bb in dl.blocks]
    unreg = [cs for cs in T.calls(b, name="unregister", trait="EventDispatcher", self_kind=("dyn",)) if cs.bb in dl.blocks]
    src_stores = [(i, j, st) for i, j, st in T.stores_to_field(b, "source") if i in dl.blocks]

    # a later test of the same action value (`if ret == PostAction::Remove`, `matches!(ret, ..)`) guards an effect just
    # as the arm of the switch does
    def later_tests(arm):
        out = []
        for cs in T.calls(b, name=("eq", "ne"), trait="PartialEq"):
            if cs.bb not in dl.blocks or b.is_cleanup(cs.bb) or len(cs.args) != 2:
                continue
            pv = [T.promoted_variant(b, a) for a in cs.args]
            if not any(p_ and p_[0] == PA and p_[1] == arm for p_ in pv):
                continue
            other = [a for a, p_ in zip(cs.args, pv) if not p_]
            if len(other) != 1 or not any(T.refers_to_local(b, other[0], l) for l in ret_locals):
                continue
            for s2, mode in T.call_result_switches(b, cs.bb):
                out += T.edges_of_value(b, s2, cs.name == "eq")
        for g in T.switches_on_discr_of(b, lambda pl: pl["l"] in ret_locals and not pl["p"]):
            if g != sw and g in dl.blocks and g in b.reachable([sw], removed_blocks=[dl.header]):
                out += T.discr_edges(b, g, T.variant_discr(f, PA, arm))
        return out

    arms_ext = {a: list(es) + later_tests(a) for a, es in arms.items()}

    def only_via(bb, arm):
        return T.reachable_only_via(b, bb, arms_ext[arm], frm=[sw], barrier=[dl.header])

    unreg_disable = [cs for cs in unreg if only_via(cs.bb, "Disable")]
    checks = [("Reregister", rereg, "reregister"), ("Disable", unreg_disable, "unregister")]
    for arm, sites, what in checks:
        if not sites:
            ck.violation("3", "T9-switch", b, "arm:%s/calls:%s" % (arm, what), "no %s call on the %s arm of the post-action switch" % (what, arm), site=b.where(sw))
            continue
        for cs in sites:
            ck.verdict(only_via(cs.bb, arm), "3", "T4-guarded-by", b, "arm:%s/site:%s" % (arm, what), "%s is applied only on the %s arm" % (what, arm), "%s is reachable from the post-action switch outside the %s arm" % (what, arm), site=b.where(cs.bb))
            ck.verdict(b.resolve(cs.args[0]) == disp_roots, "3", "T6-provenance", b, "arm:%s/receiver" % arm, "the receiver is the dispatcher whose events were just processed", "the receiver is not the dispatcher that was just processed: %s" % b.roots_str(cs.args[0]), site=b.where(cs.bb))
        bad = T.t2_all_exits(b, [e + (T.variant_discr(f, PA, arm),) for e in arms[arm]], [cs.bb for cs in sites], exits=dl.exits, removed_edges=[e for e in [x for a, es in arms.items() if a != arm for x in es]])
        ck.verdict(bad is None, "3", "T2-all-exits", b, "arm:%s/must-apply" % arm, "every path through the %s arm performs the %s" % (arm, what), "a path through the %s arm skips the %s" % (arm, what), site=b.where(sw), path=path_descr(b, bad) if bad else None)
    # tokens handed to reregister/unregister derive from this iteration's event token
    for cs in T.calls(b, name="new", path="TokenFactory::new") + T.calls(b, name="new", path="RegistrationToken::new"):
        if cs.bb in dl.blocks:
            is_reg = cs.path.split("::")[-2] == "RegistrationToken"
            okt = T.resolves_to_call(b, cs.args[0], token_calls) if is_reg else ev_tok_ok(cs.args[0])
            ck.verdict(okt, "3", "T6-provenance", b, "token@%s" % cs.path.split("::")[-2], "the token derives from the event of this iteration%s" % (" with its sub-id cleared" if is_reg else ""), "the token does not derive from this iteration's event%s: %s" % (" with the sub-id cleared (the Disable/Remove is then applied under a token the lifecycle set does not know: the source keeps receiving its hooks / the next dispatch panics)" if is_reg else "", b.roots_str(cs.args[0])), site=b.where(cs.bb))
    # Remove arm: the slot of this iteration's token is cleared
    rem_stores = [(i, j, st) for i, j, st in src_stores if only_via(i, "Remove")]
    if not rem_stores:
        ck.violation("3", "T9-switch", b, "arm:Remove/clears-slot", "the Remove arm does not clear the source slot", site=b.where(sw))
    for i, j, st in rem_stores:
        v = T.agg_variant(b, st["rv"]["o"])
        ck.verdict(any(x[1] == "None" for x in v), "3", "T6-provenance", b, "arm:Remove/store-None", "the slot is emptied", "the Remove arm stores %s into the slot" % sorted(v), site=b.where(i))
        gm = [cs for cs in T.calls(b, name=("get_mut", "get"), path="SourceList") if cs.bb in dl.blocks and T.resolves_to_call(b, st["pl"], [cs.bb])]
        ck.verdict(bool(gm) and all(ev_tok_ok(cs.args[1]) for cs in gm), "3", "T6-provenance", b, "arm:Remove/slot-of-this-token", "the cleared slot was looked up with this iteration's token", "the cleared slot is not the one looked up with this iteration's token", site=b.where(i))
    bad = T.t2_all_exits(b, [e + (T.variant_discr(f, PA, "Remove"),) for e in arms["Remove"]], [i for i, _, _ in rem_stores] + [cs.bb for cs in T.calls(b, name=("get_mut",), path="SourceList") if cs.bb in dl.blocks and False], exits=dl.exits, removed_edges=[x for a, es in arms.items() if a != "Remove" for x in es])
    if bad is not None:
        # acceptable only if the bypass is the lookup-miss edge of the generation-checked get_mut
        gm_bbs = [cs.bb for cs in T.calls(b, name="get_mut", path="SourceList") if cs.bb in dl.blocks and only_via(cs.bb, "Remove")]
        through_lookup = any(x in gm_bbs for x in bad)
        if not through_lookup:
            # the lookup whose slot the store clears, placed after the arms joined: the avoiding path must take its
            # lookup-miss (Err) edge
            pairs = set(zip(bad, bad[1:]))
            for cs in T.calls(b, name="get_mut", path="SourceList"):
                if cs.bb in dl.blocks and cs.bb in bad and any(T.resolves_to_call(b, st_["pl"], [cs.bb]) for _, _, st_ in rem_stores):
                    ok_e, err_e, _ = T.result_split(b, cs.bb)
                    if err_e and set(err_e) & pairs:
                        through_lookup = True
        ck.verdict(through_lookup, "3", "T2-all-exits", b, "arm:Remove/must-clear", "the only way through the Remove arm that does not clear the slot is the lookup-miss edge (slot already gone or reused)", "a path through the Remove arm neither clears the slot nor is a lookup miss", site=b.where(sw), path=path_descr(b, bad))
    else:
        ck.ok("3", "T2-all-exits", b, "arm:Remove/must-clear", "every path through the Remove arm clears the slot", site=b.where(sw))
    ck.floor("3", "post-action arms with an effect", len(rereg) + len(unreg_disable) + len(rem_stores), 3)

    who_may_defer(ck, "4", b)
    from props import C06 as _C06x, common as _cmx

    _cmx.import_results(ck, _C06x, "2", "dispatch_events", "3")
    # each event is dispatched to the dispatcher freshly looked up for it: one kept from the previous event of the batch
    # would be handed events after its Remove was applied (shared with C01.3)
    from props import C01 as _C01x

    _cmx.import_results(ck, _C01x, "3", "dispatch_events", "3")
    # a Disable that reaches the dispatcher reaches the source and the lifecycle set (no "not registered, nothing to do"
    # shortcut from a flag that reregister does not maintain): shared with C14.2
    from props import C14 as _C14x

    _C14x.lifecycle_set_follows(ck, "3")

    # ---- clause 5: combination law --------------------------------------------------------------
    # decided by evaluating the MIR of `|` and `|=` on all 16 pairs of PostAction values (engine/bits/finite_eval.py):
    # the result is independent of how the functions are spelled. The structural rules below are the fallback when the
    # evaluator meets a construct outside its fragment.
    import os as _os, sys as _sys

    _sys.path.insert(0, _os.path.join(_os.path.dirname(_os.path.abspath(__file__)), "..", "..", "bits"))
    import finite_eval as FE

    names = [v["name"] for v in f.adts[PA]["variants"]] if PA in f.adts else []
    decided = {}
    for q, kind in (("<PostAction as BitOr>::bitor", "value"), ("<PostAction as BitOrAssign>::bitor_assign", "assign")):
        fb = f.body(q)
        if fb is None or not names:
            continue
        wrong = []
        try:
            for a in range(len(names)):
                for b_ in range(len(names)):
                    ev = FE.Eval(f)
                    want = a if a == b_ else names.index("Reregister")
                    if kind == "value":
                        got = ev.run(fb, [("enum", PA, a, []), ("enum", PA, b_, [])])
                    else:
                        cell = FE.Cell(("enum", PA, a, []))
                        ev.run(fb, [("ref", cell), ("enum", PA, b_, [])])
                        got = cell.v
                    if got[0] != "enum" or got[2] != want:
                        wrong.append("%s | %s = %s (expected %s)" % (names[a], names[b_], names[got[2]] if got[0] == "enum" else got, names[want]))
            decided[q] = wrong
        except FE.Unsupported as e:
            ck.info("5", "T14-finite-evaluation", fb, "outside-fragment", "exhaustive evaluation not possible (%s); structural rule used instead" % e, site=fb.where())
    for q, wrong in decided.items():
        fb = f.body(q)
        ck.verdict(not wrong, "5", "T14-finite-evaluation", fb, "combination-law(16 pairs)", "evaluated on all 16 pairs: the common value when both operands are equal, Reregister otherwise", "the combination law does not hold: %s" % "; ".join(wrong[:6]), site=fb.where())
    bo = f.body("<PostAction as BitOr>::bitor")
    if "<PostAction as BitOr>::bitor" in decided:
        pass
    elif bo is None:
        ck.anchor_missing("5", "T4-guarded-by", "<PostAction as BitOr>::bitor")
    else:
        eqs = T.calls(bo, name=("eq", "ne"), trait="PartialEq")
        rets = [(i, j, st) for i, j, st in bo.statements() if st["s"] == "assign" and st["pl"]["l"] == 0 and not st["pl"]["p"] and not bo.is_cleanup(i)]
        okself = okrr = False
        for i, j, st in rets:
            v = T.agg_variant(bo, st["rv"]["o"]) if st["rv"]["r"] == "use" else ({(st["rv"].get("adt"), st["rv"].get("variant"))} if st["rv"]["r"] == "agg" else set())
            is_self = st["rv"]["r"] == "use" and (T.resolves_to_arg(bo, st["rv"]["o"], 1) or T.resolves_to_arg(bo, st["rv"]["o"], 2))
            for cs in eqs:
                for s2, mode in T.call_result_switches(bo, cs.bb):
                    eq_true = cs.name == "eq"
                    if is_self and T.reachable_only_via(bo, i, T.edges_of_value(bo, s2, eq_true)):
                        okself = True
                    if v == {(PA, "Reregister")} and T.reachable_only_via(bo, i, T.edges_of_value(bo, s2, not eq_true)):
                        okrr = True
            if not is_self and v != {(PA, "Reregister")}:
                ck.violation("5", "T6-provenance", bo, "result", "bitor returns %s; it may only return an operand (when equal) or Reregister" % sorted(v), site=bo.where(i))
        ck.verdict(okself, "5", "T4-guarded-by", bo, "equal=>operand", "an operand is returned only on the equal edge", "bitor does not return the common value on the equal edge", site=bo.where())
        ck.verdict(okrr, "5", "T4-guarded-by", bo, "unequal=>Reregister", "Reregister is returned only on the unequal edge", "bitor does not return Reregister on the unequal edge", site=bo.where())
    ba = f.body("<PostAction as BitOrAssign>::bitor_assign")
    if "<PostAction as BitOrAssign>::bitor_assign" in decided:
        pass
    elif ba is None:
        ck.anchor_missing("5", "T4-guarded-by", "<PostAction as BitOrAssign>::bitor_assign")
    else:
        eqs = T.calls(ba, name=("eq", "ne"), trait="PartialEq")
        stores = [(i, j, st) for i, j, st in ba.statements() if st["s"] == "assign" and st["pl"]["l"] == 1 and st["pl"]["p"] == ["*"] and not ba.is_cleanup(i)]
        ck.floor("5", "stores to *self in bitor_assign", len(stores), 1)
        for i, j, st in stores:
            v = T.agg_variant(ba, st["rv"]["o"]) if st["rv"]["r"] == "use" else ({(st["rv"].get("adt"), st["rv"].get("variant"))} if st["rv"]["r"] == "agg" else set())
            ok = False
            for cs in eqs:
                for s2, mode in T.call_result_switches(ba, cs.bb):
                    if T.reachable_only_via(ba, i, T.edges_of_value(ba, s2, cs.name == "ne")):
                        ok = True
            ck.verdict(ok and v == {(PA, "Reregister")}, "5", "T4-guarded-by", ba, "unequal=>store Reregister", "|= stores Reregister exactly on the unequal edge", "|= stores %s %s" % (sorted(v), "outside the unequal edge" if not ok else ""), site=ba.where(i))
        # on the unequal edge the store must happen
        for cs in eqs:
            for s2, mode in T.call_result_switches(ba, cs.bb):
                starts = [t for _, t in T.edges_of_value(ba, s2, cs.name == "ne")]
                bad = T.t2_all_exits(ba, starts, [i for i, _, _ in stores])
                ck.verdict(bad is None, "5", "T2-all-exits", ba, "unequal=>must-store", "the unequal edge always stores", "the unequal edge can return without storing Reregister", site=ba.where(cs.bb))
    # ---- shared clauses demonstrated by seeding round 7 (the property broken from a distant module) --------------
    from props import common as _c7
    import importlib as _il
    _m = lambda n: _il.import_module('props.' + n)
    _c7.import_results(ck, _m("C20"), "4", "increment_version", "3")
    _c7.import_results(ck, _m("C01"), "4", None, "3")
    _c7.import_results(ck, _m("C07"), "2", None, "3")  # an unregistered Generic / Timer is inert: a Remove or Disable is applied once
    _c7.import_results(ck, _m("C07"), "4", "DispatcherInner", "3")
    # ---- shared clauses demonstrated by seeding round 8 (the property broken by added code) --------------------
    from props import common as _c8
    import importlib as _il8
    _m8 = lambda n: _il8.import_module('props.' + n)
    _c8.import_results(ck, _m8("C16"), "3", "Generic", "3")  # Reregister re-registers: Generic always reaches the poller
    _c8.import_results(ck, _m8("C07"), "4", "LoopHandle", "3")  # a disable() request is never answered from a memo (a superseded deferred disable leaves it stale)
