"""C10 — Executor/StreamSource: no lost wake, results and items delivered exactly once."""
from mir import op_place, place_str
import templates as T
from core import path_descr, AnchorMissing
from props import common

LEVEL = "other"
CONFIGS = ["full", "book"]
NOT_DECIDED = ["all schedule-level claims (thread interleavings of enqueue / flag swap / eventfd write / flag clear / dequeue)", "async-task's own guarantees (a Runnable is polled/dropped on the thread that runs it, wake-ups reschedule it)", "memory orderings of the flag accesses (recorded, not armed)"]
EXPLANATION = (
    "Decides on the MIR of sources/futures.rs and sources/stream.rs: (1) sender side: the runnable is enqueued before the "
    "suppression flag is swapped and before the ping, and from the flag-was-clear edge every path pings; (2) loop side: if a "
    "suppression flag exists, every store clearing it dominates the drain's try_recv (clear, then drain), runnables/streams are "
    "polled only inside the ping source's callback (drain the wake-up, then poll), and a truncated batch re-pings (C02.4); (3) "
    "StoreOnDrop stores Finished(value) exactly when a value was produced and removes the entry otherwise; the drain removes the "
    "finished entry before calling back with its payload; (4) Drop for Executor takes the table, wakes every pending task and "
    "drains the queue until empty; schedule() does nothing once the table is gone; (5) a runnable that cannot be sent is "
    "forgotten, never dropped, before the panic; (6) StreamSource forwards items while Ready(Some), emits one None, leaves the "
    "loop and returns Remove; new() pings once; both waker entry points ping."
)


def run(ck):
    f = ck.facts
    if ck.has("executor"):
        executor(ck)
    if ck.has("stream"):
        stream(ck)
    _shared(ck)
    # ---- shared clauses demonstrated by seeding round 7 (the property broken from a distant module) --------------
    from props import common as _c7
    import importlib as _il
    _m = lambda n: _il.import_module('props.' + n)
    _c7.import_results(ck, _m("C16"), "3", "Poll::", "7")  # the executor's eventfd keeps its level-triggered mode across update()
    _c7.dispatch_infra(ck, "7")  # a deferred request never overrides the Remove of an ended stream
    # ---- shared clauses demonstrated by the twin round (seeding round 10) ------------------------------------------
    from props import common as _c10
    import importlib as _il10
    _m10 = lambda n: _il10.import_module('props.' + n)
    _c10.import_results(ck, _m10("C08"), "1", "Executor", "2")  # no executor borrow is live across the user callback: scheduling from the callback works


def executor(ck):
    f = ck.facts
    # ---- clause 1: sender side --------------------------------------------------------------------------
    ss = ck.body_by_path("sources::futures::Sender::send")
    if ss is None:
        ck.anchor_missing("1", "T3-must-precede", "sources::futures::Sender::send")
    else:
        m = [cs for cs in ss.calls() if cs.f and cs.f["path"] == "std::sync::mpsc::Sender::<T>::send" and not ss.is_cleanup(cs.bb)]
        swaps = [cs for cs in ss.calls() if cs.f and "atomic::Atomic" in cs.f["path"] and cs.name in ("swap", "compare_exchange", "fetch_or", "load") and not ss.is_cleanup(cs.bb)]
        pings = [cs for cs in ss.calls() if cs.name == "ping" and cs.f["path"].endswith("Ping::ping") and not ss.is_cleanup(cs.bb)]
        ck.floor("1", "executor Sender::send: mpsc send + ping", len(m) + len(pings), 2)
        if m and pings:
            for p in pings:
                ck.verdict(ss.dominates(m[0].bb, p.bb), "1", "T3-must-precede", ss, "enqueue<ping", "the runnable is enqueued before the executor is pinged", "the executor is pinged before the runnable is enqueued: it can drain an empty queue and the task is never polled", site=ss.where(p.bb))
            for s in swaps:
                ck.verdict(ss.dominates(m[0].bb, s.bb), "1", "T3-must-precede", ss, "enqueue<flag-swap", "the runnable is enqueued before the 'notified' flag is tested", "the 'notified' flag is swapped before the runnable is enqueued: the executor may clear the flag and drain before the runnable arrives, and the late enqueue then pings nobody", site=ss.where(s.bb))
                tr, fa = T.bool_split(ss, s.bb)
                if fa:
                    bad = T.t2_all_exits(ss, [x for _, x in fa], [p.bb for p in pings])
                    ck.verdict(bad is None, "1", "T2-all-exits", ss, "flag-was-clear=>ping", "when nobody had announced a wake-up yet, the ping is always issued", "the wake-up can be skipped although the 'notified' flag was clear (inverted / missing test): the task is never polled", site=ss.where(s.bb))
                    if tr:
                        # a ping on the already-notified edge is harmless; nothing to check
                        pass
            if not swaps:
                bad = T.t2_all_exits(ss, [m[0].to], [p.bb for p in pings], removed_edges=T.result_split(ss, m[0].bb)[1])
                ck.verdict(bad is None, "1", "T2-all-exits", ss, "enqueue=>ping(unconditional)", "every enqueue pings", "an enqueue can return without a ping", site=ss.where(m[0].bb))
        # clause 5: forget before panic
        if m:
            ok_e, err_e, _ = T.result_split(ss, m[0].bb)
            forgets = [cs for cs in ss.calls() if cs.f and cs.f["path"] == "std::mem::forget" and not ss.is_cleanup(cs.bb)]
            panics = [cs for cs in ss.calls() if cs.to is None and not ss.is_cleanup(cs.bb) and cs.bb in ss.reachable([x for _, x in err_e])]
            drops_err = [bb for bb, t in ss.drops() if not ss.is_cleanup(bb) and "Runnable" in f.types[t["ty"]]["s"] and bb in ss.reachable([x for _, x in err_e])]
            ok = bool(forgets) and all(T.reachable_only_via(ss, fg.bb, err_e) for fg in forgets) and all(T.t3_dominated_by_any(ss, p.bb, [fg.bb for fg in forgets]) for p in panics) and not drops_err
            ck.verdict(ok, "5", "T3-must-precede", ss, "send-failed=>forget-before-panic", "a runnable that cannot be sent back is mem::forget-ed before the panic (a !Send future is never dropped on a foreign thread)", "on the failed-send path the runnable (and the future it owns) is dropped%s instead of being forgotten: a !Send future may be dropped on a foreign thread" % (" / the panic is not preceded by mem::forget" if forgets else ""), site=ss.where(m[0].bb))

    # ---- clause 2: loop side --------------------------------------------------------------------------------
    pe = ck.body("2", "<Executor as EventSource>::process_events")
    inner = T.calls(pe, name="process_events", trait="EventSource")
    cls = [c for cs in inner for c in T.closure_bodies_passed(pe, cs)]
    if not cls:
        ck.anchor_missing("2", "T3-must-precede", "Executor::process_events: drain closure")
        raise AnchorMissing("executor closure")
    cl = cls[0]
    trs = T.calls(cl, name="try_recv")
    clears = [cs for cs in cl.calls() + pe.calls() if cs.f and "atomic::Atomic" in cs.f["path"] and cs.name in ("store", "swap", "fetch_and") and T.path_has(cs.body, cs.args[0], ".notified")]
    flag_exists = ss is not None and any(T.path_has(ss, s.args[0], ".notified") for s in (swaps if ss is not None and m and pings else []))
    runs = [cs for cs in cl.calls() if cs.f and cs.f["path"] == "async_task::Runnable::<M>::run"]
    runs_outside = [cs for cs in pe.calls() if cs.f and cs.f["path"] == "async_task::Runnable::<M>::run"]
    ck.verdict(bool(runs) and not runs_outside, "2", "T3-must-precede", pe, "poll-only-inside-ping-callback", "runnables are run only inside the ping source's callback, i.e. after the wake-up that announced them was drained", "runnables are run outside the ping source's callback (before the wake-up is drained): a wake arriving during the poll is swallowed by the later drain", site=pe.where())
    if flag_exists:
        ck.floor("2", "writes clearing the 'notified' flag in the executor", len(clears), 1)
        for c in clears:
            body = c.body
            val = c.args[1].get("k", {}).get("v")
            if body is cl and trs:
                ck.verdict(all(cl.dominates(c.bb, t.bb) for t in trs) and val == 0, "2", "T3-must-precede", cl, "clear-flag<drain", "the 'notified' flag is cleared before the queue is drained: a runnable enqueued after the clear pings again, one enqueued before is seen by the drain", "the 'notified' flag is cleared after (or inside) the drain: a waker that enqueues between the last empty try_recv and the clear finds the flag set, skips the ping, and its task is never polled again (lost wake)", site=cl.where(c.bb))
            elif body is pe:
                ck.violation("2", "T3-must-precede", pe, "clear-flag-inside-ping-callback", "the 'notified' flag is cleared outside the ping source's callback, i.e. not between the read of the eventfd and the drain of the queue: a waker that enqueues, sets the flag and pings between the clear and the eventfd read has its ping consumed while the flag stays set, and every later wake-up is suppressed for good", site=pe.where(c.bb))
    common.import_results(ck, __import__("props.C02", fromlist=["x"]), "4", "Executor", "2")

    # ---- clause 3: exactly-once result ---------------------------------------------------------------------------
    sd = ck.opt_body("<StoreOnDrop as Drop>::drop")
    if sd is None:
        ck.anchor_missing("3", "T4-guarded-by", "<StoreOnDrop as Drop>::drop")
    else:
        tk = [cs for cs in T.calls(sd, name=("take", "is_some", "as_ref")) if T.path_has(sd, cs.args[0], ".value")]
        fin = [(i, st) for i, j, st in sd.statements() if st["s"] == "assign" and st["rv"]["r"] == "agg" and st["rv"].get("variant") == "Finished" and not sd.is_cleanup(i)]
        rem = [cs for cs in T.calls(sd, name="remove") if "Slab" in cs.f["path"]]
        idx = [cs for cs in T.calls(sd, name=("index_mut", "get_mut", "insert"))]
        if not tk or not fin:
            ck.violation("3", "T4-guarded-by", sd, "value=>Finished", "StoreOnDrop::drop does not store the produced value as Active::Finished", site=sd.where())
        else:
            some, none = T.option_split(sd, tk[0].bb)
            for i, st in fin:
                ck.verdict(bool(some) and T.reachable_only_via(sd, i, some) and any(r == ("call", tk[0].bb) for r, p in sd.resolve(st["rv"]["fields"][0])), "3", "T4-guarded-by", sd, "Finished-only-if-value-produced", "Active::Finished(value) is built only on the edge where the future produced a value, from that value", "Active::Finished is stored without a produced value", site=sd.where(i))
            ck.verdict(all(T.path_has(sd, c.args[1], ".index") for c in idx + rem) and bool(idx), "3", "T6-provenance", sd, "own-index", "the entry written/removed is the task's own index", "StoreOnDrop touches an entry other than its own index", site=sd.where())
            for r_ in rem:
                ck.verdict(bool(none) and T.reachable_only_via(sd, r_.bb, none), "3", "T4-guarded-by", sd, "remove-only-if-no-value", "the entry is removed only when the future was dropped unfinished", "the task entry is removed although a value was produced (the result is lost)", site=sd.where(r_.bb))
            if some:
                stores = [i for i, j, st in sd.statements() if st["s"] == "assign" and st["pl"]["p"] and st["pl"]["p"][-1] == "*" and st["rv"]["r"] == "use" and any(v[1] == "Finished" for v in T.agg_variant(sd, st["rv"]["o"])) and not sd.is_cleanup(i)]
                bad = T.t2_all_exits(sd, [x for _, x in some], stores)
                ck.verdict(bool(stores) and bad is None, "3", "T2-all-exits", sd, "value=>stored", "a produced value is always stored in the table", "a produced value can be dropped without being stored", site=sd.where())
    cbs = T.calls(cl, name=("call_mut", "call", "call_once"), self_kind=("param",))
    rm = [cs for cs in T.calls(cl, name="remove") if "Slab" in cs.f["path"]]
    ck.floor("3", "executor drain closure: callback + Slab::remove", len(cbs) + len(rm), 2)
    for cb in cbs:
        ok_dom = bool(rm) and all(cl.dominates(r_.bb, cb.bb) for r_ in rm)
        arg_ok = False
        for r, p in cl.resolve(cb.args[1]):
            if r[0] == "agg":
                a0 = cl.agg_at(r[1], r[2])["fields"][0]
                arg_ok = any(rr[0] == "call" and rr[1] in [x.bb for x in rm] and " as Finished" in pp for rr, pp in cl.resolve(a0))
        ck.verdict(ok_dom and arg_ok, "3", "T3-must-precede", cl, "remove<callback(payload)", "the finished entry is removed from the table before the callback runs, and the callback receives exactly that entry's Finished payload (delivered once)", "the callback is not preceded by the removal of the finished entry / does not receive its payload: a result can be delivered twice or not at all", site=cl.where(cb.bb))
        idxs = T.calls(cl, name="metadata")
        ck.verdict(bool(idxs) and all(T.tainted_by_call(cl, r_.args[1], [x.bb for x in idxs]) for r_ in rm), "3", "T6-provenance", cl, "removed-index=runnable.metadata", "the entry looked at is the one of the runnable that just ran", "the entry removed is not the index stored in the runnable's metadata", site=cl.where(cb.bb))

    # ---- clause 4: destruction -----------------------------------------------------------------------------------------
    ed = ck.opt_body("<Executor as Drop>::drop")
    if ed is None:
        ck.anchor_missing("4", "T2-all-exits", "<Executor as Drop>::drop")
    else:
        tk = [cs for cs in T.calls(ed, name=("take", "replace")) if T.path_has(ed, cs.args[0], ".active_tasks")]
        bad = T.t2_all_exits(ed, [0], [c.bb for c in tk]) if tk else [0]
        ck.verdict(bad is None, "4", "T2-all-exits", ed, "drop-takes-task-table", "dropping the executor takes the task table (schedule() then sees None)", "dropping the executor does not take the task table: schedule() keeps accepting futures that will never run", site=ed.where())
        wk = []
        nest = [ed] + f.closures_of(ed)
        nest += [c2 for c in nest[1:] for c2 in f.closures_of(c)]
        for body in nest:
            wk += [cs for cs in body.calls() if cs.f and cs.f["path"] in ("std::task::Waker::wake", "std::task::Waker::wake_by_ref")]
        loops = ed.loops()
        in_loop = any(any(c.bb in blk for c in ed.calls() if c.name == "catch_unwind" or c in wk) for blk in loops.values())
        # the same iteration written with Iterator::for_each over the taken table
        def holds_wake(c, d=0):
            return any(x.f and x.f["path"] in ("std::task::Waker::wake", "std::task::Waker::wake_by_ref") for x in c.calls()) or (d < 3 and any(holds_wake(c2, d + 1) for c2 in f.closures_of(c)))
        for fe in T.calls(ed, name="for_each"):
            if ed.is_cleanup(fe.bb) or (fe.trait or "") != "std::iter::Iterator":
                continue
            if any(holds_wake(c) for c in T.closure_bodies_passed(ed, fe)) and T.tainted_by_call(ed, fe.args[0], [c.bb for c in tk]):
                in_loop = True
        ck.verdict(bool(wk) and in_loop, "4", "T5-loop-exit", ed, "wakes-every-active-task", "every Active::Future is woken in a loop over the taken table (its runnable is rescheduled so that it can be dropped here)", "the executor's drop does not wake the remaining tasks: their futures are never dropped", site=ed.where())
        trs = [cs for cs in T.calls(ed, name="try_recv") if T.path_has(ed, cs.args[0], ".incoming")]
        okd = False
        for t in trs:
            for h, blk in loops.items():
                if t.bb in blk:
                    ex = [(a, x) for a, x, lab in T.loop_exit_edges(ed, blk) if lab != "unwind" and ed.blocks[x]["term"]["t"] != "unreachable"]
                    # the loop is left only on the edge where try_recv failed
                    isok = [c for c in T.calls(ed, name=("is_ok", "is_err")) if T.resolves_to_call(ed, c.args[0], [t.bb]) or T.tainted_by_call(ed, c.args[0], [t.bb])]
                    for c in isok:
                        tr, fa = T.bool_split(ed, c.bb)
                        stop = fa if c.name == "is_ok" else tr
                        if set(ex) <= set(stop):
                            okd = True
                    ok_e, err_e, _ = T.result_split(ed, t.bb)
                    if err_e and set(ex) <= set(err_e):
                        okd = True
        # `incoming.try_iter()` yields until try_recv fails: consuming it to exhaustion (for_each / count / last, or a
        # `for` loop left only on None) is the same drain
        tis = [cs for cs in T.calls(ed, name="try_iter") if T.path_has(ed, cs.args[0], ".incoming") and not ed.is_cleanup(cs.bb)]
        for ti in tis:
            for c in T.calls(ed, name=("for_each", "count", "last")):
                if not ed.is_cleanup(c.bb) and (c.trait or "") == "std::iter::Iterator" and c.args and T.resolves_to_call(ed, c.args[0], [ti.bb]):
                    okd = True
            for h, blk in loops.items():
                hc = ed.call_at(h)
                if hc is None or hc.name != "next" or not hc.args or not (T.resolves_to_call(ed, hc.args[0], [ti.bb]) or T.tainted_by_call(ed, hc.args[0], [ti.bb])):
                    continue
                some_e, none_e = T.option_split(ed, h)
                ex = [(a, x) for a, x, lab in T.loop_exit_edges(ed, blk) if lab != "unwind" and ed.blocks[x]["term"]["t"] != "unreachable"]
                if none_e and set(ex) <= set(none_e):
                    okd = True
        ck.verdict(okd and (not wk or all(True for _ in wk)), "4", "T5-loop-exit", ed, "drains-queue-until-empty", "the incoming queue is drained until try_recv fails (every queued runnable, hence every future, is dropped on this thread)", "the executor's drop does not drain the queue until empty: queued runnables (and their futures) outlive the executor", site=ed.where())
    sc = ck.opt_body("Scheduler::schedule")
    if sc is None:
        ck.anchor_missing("4", "T4-guarded-by", "Scheduler::schedule")
    else:
        okor = T.calls(sc, name=("ok_or", "ok_or_else"))
        eff = [cs for cs in sc.calls() if cs.name in ("spawn_local", "spawn", "schedule", "insert", "detach", "spawn_unchecked") and not sc.is_cleanup(cs.bb)]
        ok = False
        if okor:
            ok_e, err_e, _ = T.result_split(sc, okor[0].bb)
            ok = bool(ok_e) and all(T.reachable_only_via(sc, e.bb, ok_e) for e in eff) and bool(eff)
        else:
            sws = [sw for sw in T.switches_on_expr(sc, lambda e: e[0] == "discr")]
            for sw in sws:
                # (`Some` of an Option, or the "alive" variant of a private enum: whichever variant carries the table)
                vals = {1} | {v for v, _ in sc.blocks[sw]["term"]["targets"]}
                if eff and any(T.discr_edges(sc, sw, v) and all(T.reachable_only_via(sc, e.bb, T.discr_edges(sc, sw, v)) for e in eff) for v in vals):
                    ok = True
        ck.verdict(ok, "4", "T4-guarded-by", sc, "effects-only-if-table-present", "schedule() spawns/enqueues only when the task table still exists (ExecutorDestroyed otherwise)", "schedule() has effects although the executor was destroyed", site=sc.where())
        vk = [cs for cs in sc.calls() if cs.name == "vacant_key" and not sc.is_cleanup(cs.bb)]
        ins = [cs for cs in sc.calls() if cs.name == "insert" and cs.f and "Slab" in cs.f["path"] and not sc.is_cleanup(cs.bb)]
        meta = [cs for cs in sc.calls() if cs.name == "metadata" and not sc.is_cleanup(cs.bb)]
        other_mut = [cs for cs in sc.calls() if cs.name in ("remove", "clear", "insert") and cs.f and "Slab" in cs.f["path"] and not sc.is_cleanup(cs.bb) and cs.bb not in [x.bb for x in ins[:1]]]
        ok = len(vk) == 1 and len(ins) == 1 and sc.dominates(vk[0].bb, ins[0].bb) and not other_mut and bool(meta) and all(T.resolves_to_call(sc, m_.args[1], [vk[0].bb]) for m_ in meta)
        if ok:
            gf0 = ck.guardflow(sc)
            # the table stays borrowed from vacant_key to insert: nothing else can take the key in between
            held = all(any("Slab" in f.short_ty(p) for l, k, p in gf0.live_payloads(bb_)) for bb_ in (vk[0].bb, ins[0].bb))
            if not held:
                # the table wrapped in a private type: the same guard is live at both calls and both receivers are
                # borrowed out of it
                l1 = {l for l, k, p in gf0.live_payloads(vk[0].bb)} & {l for l, k, p in gf0.live_payloads(ins[0].bb)}
                held = any(T.derives_from_local(sc, vk[0].args[0], l) and T.derives_from_local(sc, ins[0].args[0], l) for l in l1)
            ok = held
        ck.verdict(ok, "3", "T6-provenance", sc, "task-index=vacant_key=insert-key", "the index stored in the task's metadata (where its result will be written) is the key the table hands out for the inserted entry: vacant_key() precedes the single insert with the table borrowed throughout", "the index a task stores its result under is not guaranteed to be the key of the entry inserted for it", site=sc.where())
        gf = ck.guardflow(sc)
        runs = [cs for cs in sc.calls() if cs.name == "schedule" and cs.f and "Runnable" in cs.f["path"]]
        for r_ in runs:
            live = [f.short_ty(p) for l, k, p in gf.live_payloads(r_.bb)]
            ck.verdict(not live, "4", "T1-no-guard-across-user-code", sc, "table-released-before-runnable.schedule", "the task table is released before the runnable is scheduled", "the task table is still borrowed when the runnable is scheduled: %s" % live, site=sc.where(r_.bb))


def stream(ck):
    f = ck.facts
    pe = ck.opt_body("<StreamSource as EventSource>::process_events")
    if pe is None:
        ck.anchor_missing("6", "T4-guarded-by", "<StreamSource as EventSource>::process_events")
        return
    inner = T.calls(pe, name="process_events", trait="EventSource")
    cls = [c for cs in inner for c in T.closure_bodies_passed(pe, cs)]
    polls_parent = [cs for cs in pe.calls() if cs.name == "poll_next" and not pe.is_cleanup(cs.bb)]
    if not cls:
        ck.violation("6", "T3-must-precede", pe, "poll-only-inside-ping-callback", "the stream is not polled inside the ping source's callback", site=pe.where())
        return
    cl = cls[0]
    polls = [cs for cs in cl.calls() if cs.name == "poll_next"]
    ck.verdict(bool(polls) and not polls_parent, "6", "T3-must-precede", pe, "poll-only-inside-ping-callback", "the stream is polled only inside the ping source's callback, i.e. after the wake-up that announced progress was drained", "the stream is polled outside the ping source's callback (before the wake-up is drained): a wake arriving while poll_next runs is swallowed by the later drain and the stream is never polled again", site=pe.where())
    if not polls:
        return
    p0 = polls[0]
    loops = cl.loops()
    inloop = [blk for h, blk in loops.items() if p0.bb in blk]
    ck.verdict(bool(inloop), "6", "T5-loop-exit", cl, "polled-until-Pending", "poll_next is called in a loop (until Pending or end of stream)", "the stream is polled once per wake-up only: items that are ready together are delayed / lost when wakes coalesce", site=cl.where(p0.bb))
    cbs = T.calls(cl, name=("call_mut", "call", "call_once"), self_kind=("param",))
    # the Option<Item> poll_next produced: `(poll as Ready).0`
    def is_payload(op):
        return any(r == ("call", p0.bb) and " as Ready" in p_ and not any(x in (" as Some",) for x in p_) for r, p_ in cl.resolve(op))

    none_cb, some_cb, pass_cb = [], [], []
    for cb in cbs:
        for r, p in cl.resolve(cb.args[1]):
            if r[0] == "agg":
                a0 = cl.agg_at(r[1], r[2])["fields"][0]
                v = T.agg_variant(cl, a0)
                if any(x[1] == "None" for x in v):
                    none_cb.append(cb)
                if any(x[1] == "Some" for x in v):
                    some_cb.append(cb)
                if is_payload(a0) and cb not in pass_cb:
                    pass_cb.append(cb)  # the callback is handed poll_next's Option as it is (Some(item) or None)
    ck.floor("6", "StreamSource callback sites (Some / None)", len(none_cb) + len(some_cb) + 2 * len(pass_cb), 2)
    # the edges on which that Option is None: a switch on its discriminant, or on is_none()/is_some() of it
    none_edges = []
    for sw in T.switches_on_expr(cl, lambda e: e[0] == "discr"):
        e = cl.expr(cl.blocks[sw]["term"]["on"], at=sw)
        if is_payload({"c": e[2]}):
            none_edges += T.discr_edges(cl, sw, 0)
    for c2 in T.calls(cl, name=("is_none", "is_some")):
        if not cl.is_cleanup(c2.bb) and any(r == ("call", p0.bb) and " as Ready" in p_ for r, p_ in cl.resolve(c2.args[0])):
            tr_, fa_ = T.bool_split(cl, c2.bb)
            none_edges += tr_ if c2.name == "is_none" else fa_
    end_sites = [cb.to for cb in none_cb] + ([x for _, x in none_edges] if pass_cb else [])
    for cb in none_cb:
        again = cl.find_path([cb.to], [p0.bb])
        ck.verdict(again is None, "6", "T5-loop-exit", cl, "None=>loop-left", "after the end-of-stream callback the stream is not polled again (a single None)", "the stream is polled again after its end was reported: None is delivered more than once / the stream is polled after completion", site=cl.where(cb.bb))
    if pass_cb:
        again = cl.find_path([x for _, x in none_edges], [p0.bb]) if none_edges else [0]
        ck.verdict(again is None, "6", "T5-loop-exit", cl, "None=>loop-left", "once poll_next produced None the stream is not polled again (a single None)", "the stream is polled again after it produced None: None is delivered more than once / the stream is polled after completion", site=cl.where(pass_cb[0].bb))
        bad = T.t2_all_exits(cl, [x for _, x in none_edges], [cb.bb for cb in pass_cb + none_cb]) if none_edges else [0]
        ck.verdict(bad is None or all(cl.dominates(cb.bb, sw) for cb in pass_cb for sw, _ in none_edges), "6", "T2-all-exits", cl, "None=>callback", "the end of the stream is reported to the callback", "the stream can end without the callback being told (no None is delivered)", site=cl.where(pass_cb[0].bb))
    for cb in some_cb:
        for r, p in cl.resolve(cb.args[1]):
            if r[0] == "agg":
                a0 = cl.agg_at(r[1], r[2])["fields"][0]
                for r2, p2 in cl.resolve(a0):
                    if r2[0] == "agg":
                        item = cl.agg_at(r2[1], r2[2])["fields"][0]
                        ck.verdict(T.resolves_to_call(cl, item, [p0.bb]), "6", "T6-provenance", cl, "item=poll_next-payload", "the item handed to the callback is the one poll_next produced", "the forwarded item is not poll_next's payload", site=cl.where(cb.bb))
    # the poll loop is left on Pending or at the end of the stream. Any *other* exit (a per-dispatch item limit) leaves
    # items behind that nobody will announce again: it must be remembered in a cell of the parent, and the parent must
    # then wake / ping itself unconditionally before returning Ok (cf. C02.4 for the channel and the executor)
    if inloop:
        blk = inloop[0]
        pend_edges = []
        for sw in T.switches_on_expr(cl, lambda e: e[0] == "discr"):
            e = cl.expr(cl.blocks[sw]["term"]["on"], at=sw)
            if any(r == ("call", p0.bb) and not p_ for r, p_ in cl.resolve(e[2])):
                pend_edges += T.discr_edges(cl, sw, 1)  # std::task::Poll::Pending
        early = []
        for a, t, lab in T.loop_exit_edges(cl, blk):
            if lab == "unwind" or cl.blocks[t]["term"]["t"] == "unreachable" or cl.is_cleanup(t):
                continue
            if (a, t) in pend_edges or T.reachable_only_via(cl, a, pend_edges, frm=[p0.to]) and False:
                continue
            # exits on the Pending edge, or after the end of the stream was seen, are the regular ones
            if pend_edges and T.reachable_only_via(cl, t, pend_edges + none_edges + [(cb.bb, cb.to) for cb in none_cb], frm=[p0.to]):
                continue
            if end_sites and a in cl.reachable(end_sites, removed_blocks=[p0.bb]):
                continue
            early.append((a, t))
        if early:
            cells0 = common.ClosureCells(pe, cl)
            stores_by_cell = {}
            for i, c in cells0.set_stores():
                stores_by_cell.setdefault(c, []).append(i)
            okret_pe = [i for i, j, st in pe.statements() if st["s"] == "assign" and st["pl"]["l"] in T.ret_locals(pe) and st["rv"]["r"] == "agg" and st["rv"].get("variant") == "Ok" and not pe.is_cleanup(i)]
            wakes = [c.bb for c in pe.calls() if not pe.is_cleanup(c.bb) and (c.name in ("ping", "wake", "wake_by_ref"))]
            for a, t in early:
                marked = [c for c, st_ in stores_by_cell.items() if a in st_ or T.t2_all_exits(cl, [t], st_) is None or any(cl.dominates(i, a) and i in blk for i in st_)]
                ok_early = False
                for c in marked:
                    yes, no = cells0.set_edges(c)
                    if yes and wakes and T.t2_all_exits(pe, [x for _, x in yes], wakes, exits=okret_pe or None) is None:
                        ok_early = True
                ck.verdict(ok_early, "6", "T2-all-exits", cl, "early-loop-exit=>self-wake", "the poll loop can be left before Pending (item limit); that is recorded and the source then always wakes itself before returning", "the poll loop can be left although the stream did not answer Pending (a per-dispatch limit) and the source does not unconditionally wake itself afterwards: the remaining items (or the final None) are never delivered unless something else wakes the source", site=cl.where(a))
    # parent: end of stream => Remove. The closure records the end in a cell of the parent (a bool, or an Option that
    # carries the final action); the parent returns Remove whenever that cell is set.
    cells = common.ClosureCells(pe, cl)
    rets = T.ok_returns(pe)
    rm = [i for i, v in rets if v == {("sources::PostAction", "Remove")}]
    end_cells = {}
    for i, c in cells.set_stores():
        if end_sites and i in cl.reachable(end_sites):
            end_cells.setdefault(c, []).append(i)
    for c, stores in end_cells.items():
        bad = T.t2_all_exits(cl, end_sites, stores)
        ck.verdict(bad is None, "6", "T2-all-exits", cl, "None=>end-flag", "the end of the stream is recorded on every path after None was seen", "None can be delivered without the end of the stream being recorded (the source would not remove itself)", site=cl.where(stores[0]))
    ok = False
    for c, stores in end_cells.items():
        yes, no = cells.set_edges(c)
        if not yes:
            continue
        others = [i for i, v in rets if i not in rm]
        if rm and pe.find_path([t for _, t in yes], others, removed_blocks=rm) is None:
            ok = True
        # the cell carries the action itself: every store puts Some(Remove) into it and the 'set' edge returns its payload
        carried = set()
        for i in stores:
            for st in cl.blocks[i]["st"]:
                if st["s"] == "assign" and cells.of_closure_place(st["pl"]) == c:
                    rv = st["rv"]
                    fl = rv["fields"] if rv["r"] == "agg" else [fld for r_, p_ in cl.resolve(rv["o"]) if r_[0] == "agg" for fld in cl.agg_at(r_[1], r_[2])["fields"]] if rv["r"] == "use" and "k" not in rv["o"] else []
                    for x in fl:
                        carried |= T.agg_variant(cl, x)
        if carried == {("sources::PostAction", "Remove")}:
            pay = [i for i, v in rets if not v]
            for i in pay:
                st = [s_ for s_ in pe.blocks[i]["st"] if s_["s"] == "assign"]
                if T.reachable_only_via(pe, i, yes) and any(cells.of_parent_place(op_place(s_["rv"]["o"]))[1][: len(c[1])] == c[1] and cells.of_parent_place(op_place(s_["rv"]["o"]))[0] == c[0] for s_ in st if s_["rv"]["r"] == "use" and op_place(s_["rv"]["o"]) is not None and cells.of_parent_place(op_place(s_["rv"]["o"])) is not None):
                    if pe.find_path([t for _, t in yes], [x for x, v in rets if x != i and x not in rm]) is None:
                        ok = True
    ck.verdict(ok, "6", "T4-guarded-by", pe, "end-of-stream=>Remove", "after the end of the stream the source returns PostAction::Remove", "the stream source does not remove itself after its stream ended", site=pe.where())
    nw = ck.opt_body("StreamSource::new")
    if nw is not None:
        pg = [cs for cs in nw.calls() if cs.name == "ping" and cs.f["path"].endswith("Ping::ping") and not nw.is_cleanup(cs.bb)]
        mk = T.calls(nw, name="make_ping")
        ok_e, err_e, _ = T.result_split(nw, mk[0].bb) if mk else ([], [], False)
        okret = [i for i, j, st in nw.statements() if st["s"] == "assign" and st["pl"]["l"] in T.ret_locals(nw) and st["rv"]["r"] == "agg" and st["rv"].get("variant") == "Ok" and not nw.is_cleanup(i)]
        bad = T.t2_all_exits(nw, [x for _, x in ok_e] or [0], [p.bb for p in pg], exits=okret or None) if pg else [0]
        ck.verdict(bad is None, "6", "T2-all-exits", nw, "new=>initial-ping", "a new StreamSource pings itself once, so the stream gets its first poll (and its waker registered)", "StreamSource::new does not ping: the stream is never polled unless something else wakes it", site=nw.where())
    for q in ("<PingWaker as Wake>::wake", "<PingWaker as Wake>::wake_by_ref"):
        b = ck.opt_body(q)
        if b is None:
            ck.anchor_missing("6", "T8-sibling-agreement", q)
            continue
        pg = [cs for cs in b.calls() if cs.name == "ping" and not b.is_cleanup(cs.bb)]
        # one entry point may delegate to the other, which is checked itself
        pg += [cs for cs in b.calls() if not b.is_cleanup(cs.bb) and cs.callee_body() is not None and cs.callee_body().qual in ("<PingWaker as Wake>::wake", "<PingWaker as Wake>::wake_by_ref") and cs.callee_body().qual != q]
        ck.verdict(bool(pg) and T.t2_all_exits(b, [0], [p.bb for p in pg]) is None, "6", "T8-sibling-agreement", b, "waker-pings", "the waker pings the source on every path", "%s does not ping: a wake through this entry point is lost" % q, site=b.where())


def _shared(ck):
    common.ping_infra(ck, "7")
