"""C11 — LoopSignal, run() and block_on(): wake-ups and stop requests are never lost."""
from mir import op_place, place_str
import templates as T
from core import path_descr, AnchorMissing

LEVEL = "other"
CONFIGS = ["full", "book", "default"]
NOT_DECIDED = [
    "that Poller::notify is sticky when nobody waits (polling crate); all interleavings",
    "memory orderings of the flag accesses are recorded in the evidence, not armed (the notify/wait system calls synchronise anyway)",
]
EXPLANATION = (
    "Decides on the MIR: (1) run() returns Ok only through the 'stop requested' edge of a load of the stop flag, and the loop that "
    "contains the dispatch call also contains that load; (2) LoopSignal::stop stores true into the shared flag and "
    "LoopSignal::wakeup notifies the poller on every path (no suppression state); (3) block_on: both waker entry points store "
    "the ready flag before notifying; the flag is set before the loop so the first iteration polls; from the flag-was-set edge "
    "every path polls before waiting; no write clears the flag between the poll and the wait (clear-then-poll, never "
    "poll-then-clear); Ready stores the output and leaves the loop; the returned value is that output."
)


def atomics(body, field, names):
    return [cs for cs in body.calls() if cs.f and "atomic::Atomic" in cs.f["path"] and cs.name in names and T.path_has(body, cs.args[0], "." + field) and not body.is_cleanup(cs.bb)]


def always_notifies(cb, depth=0):
    """a local function every path of which reaches Notifier::notify / Poller::notify (LoopSignal::wakeup)"""
    if cb is None or depth > 2:
        return False
    n_ = [cs for cs in cb.calls() if not cb.is_cleanup(cs.bb) and (cs.name == "notify" or always_notifies(cs.callee_body(), depth + 1))]
    return bool(n_) and T.t2_all_exits(cb, [0], [n.bb for n in n_]) is None


def run(ck):
    f = ck.facts
    rn = ck.body("1", "EventLoop::run")
    loads = atomics(rn, "stop", ("load", "swap", "compare_exchange", "fetch_and"))
    disp = [cs for cs in rn.calls() if cs.name in ("dispatch", "dispatch_events") and cs.callee_body() is not None and not rn.is_cleanup(cs.bb)]
    oks = [i for i, j, st in rn.statements() if st["s"] == "assign" and st["pl"]["l"] in T.ret_locals(rn) and st["rv"]["r"] == "agg" and st["rv"].get("variant") == "Ok" and not rn.is_cleanup(i)]
    ck.floor("1", "run(): stop load + dispatch call + Ok return", len(loads[:1]) + len(disp[:1]) + len(oks[:1]), 3)
    if loads and disp and oks:
        stop_edges = []
        for l in loads:
            tr, fa = T.bool_split(rn, l.bb)
            stop_edges += tr
        for i in oks:
            ck.verdict(bool(stop_edges) and T.reachable_only_via(rn, i, stop_edges), "1", "T4-guarded-by", rn, "Ok-only-if-stop-requested", "run() returns Ok only on the edge where the stop flag was observed set", "run() can return Ok without a stop request having been observed", site=rn.where(i))
        loops = rn.loops()
        lp = [blk for h, blk in loops.items() if disp[0].bb in blk]
        ck.verdict(bool(lp) and any(any(l.bb in blk for l in loads) for blk in lp), "1", "T5-loop-exit", rn, "stop-examined-every-iteration", "the loop that dispatches also re-examines the stop flag on every iteration", "the dispatch loop of run() never re-examines the stop flag: stop() followed by wakeup() does not end run()", site=rn.where(disp[0].bb))
        # a stop request left over from an earlier run (an error exit, a block_on that returned None) must not end this
        # run: the flag is cleared on entry, i.e. a store of `false` dominates every load ("run() never returns Ok without
        # a stop request" issued after it has begun)
        resets = [c for c in atomics(rn, "stop", ("store",)) if len(c.args) > 1 and T.const_value(rn, c.args[1], 8) == 0]
        # (the other sound design: every read of the flag, here and in block_on, consumes the request it observes —
        # swap(false) — so that no request is honoured twice)
        def consuming(b):
            return all(l.name in ("swap", "fetch_and", "compare_exchange") and T.const_value(b, l.args[2 if l.name == "compare_exchange" else 1], 8) == 0 for l in atomics(b, "stop", ("load", "swap", "compare_exchange", "fetch_and")))
        bo_ = ck.opt_body("EventLoop::block_on") if ck.has("block_on") else None
        all_consuming = consuming(rn) and (bo_ is None or consuming(bo_))
        ck.verdict(all_consuming or (bool(resets) and all(any(rn.dominates(r_.bb, l.bb) for r_ in resets) for l in loads)), "1", "T3-must-precede", rn, "stop-cleared-on-entry", "run() clears the stop flag before it first reads it", "run() reads the stop flag without having cleared it on entry: a stop request left over from an earlier run()/block_on() that ended otherwise (an error, a completed future) makes this run() return Ok at once, without any stop request of its own", site=rn.where(loads[0].bb))
        # the flag is read *after* the user code of an iteration: a stop() issued by a source callback, an idle or the
        # per-iteration closure must be seen before the next wait begins ("after finishing at most the iteration in
        # progress"). Every path from the end of a user-code site of the loop to the next dispatch passes a load.
        user = [cs for cs in rn.calls() if not rn.is_cleanup(cs.bb) and ((cs.name in ("call_mut", "call", "call_once") and cs.self_ty is not None and f.types[f.peel_refs(cs.self_ty)].get("k") == "param") or (cs.callee_body() is not None and cs.name in ("dispatch", "dispatch_events", "dispatch_idles")))]
        for u in user:
            bad = T.t2_all_exits(rn, [u.to], [l.bb for l in loads], exits={d.bb for d in disp})
            ck.verdict(bad is None, "1", "T3-must-precede", rn, "stop-read-after:%s" % (u.name if u.callee_body() is not None else "per-iteration-closure"), "between the end of this user-code site and the next wait the stop flag is read afresh", "run() can start another wait after %s without reading the stop flag again (it acts on a value read earlier in the iteration): a stop() issued from there is honoured one whole iteration late (or, with a None timeout and no further event, never)" % (u.name if u.callee_body() is not None else "the per-iteration closure"), site=rn.where(u.bb), path=path_descr(rn, bad) if bad else None)
        # from the stop edge every path returns (no further dispatch)
        bad = rn.find_path([x for _, x in stop_edges], [d.bb for d in disp])
        ck.verdict(bad is None, "1", "T2-all-exits", rn, "stop=>no-further-dispatch", "once the stop flag is observed no further dispatch is started", "run() keeps dispatching after having observed the stop flag", site=rn.where(loads[0].bb))
    # ---- clause 2 -----------------------------------------------------------------------------------------
    st_ = ck.body("2", "LoopSignal::stop")
    stores = atomics(st_, "stop", ("store", "swap", "fetch_or"))
    ok = bool(stores) and all(c.args[1].get("k", {}).get("v") == 1 for c in stores) and T.t2_all_exits(st_, [0], [c.bb for c in stores]) is None
    ck.verdict(ok, "2", "T6-provenance", st_, "stop-stores-true", "stop() stores true into the shared stop flag on every path", "stop() does not set the stop flag", site=st_.where())
    wk = ck.body("2", "LoopSignal::wakeup")
    nt = [cs for cs in wk.calls() if cs.name == "notify" and not wk.is_cleanup(cs.bb)]
    ck.verdict(bool(nt) and T.t2_all_exits(wk, [0], [c.bb for c in nt]) is None, "2", "T2-all-exits", wk, "wakeup-always-notifies", "wakeup() notifies the poller on every path (a wake-up issued just before the loop blocks is kept by the poller's notifier, not by calloop state)", "wakeup() can return without notifying the poller (a suppression flag): a wake-up issued while an earlier one is pending, or after a failed dispatch, is lost", site=wk.where())
    pp = ck.opt_body("Poll::poll")
    if pp is not None:
        waits = [cs for cs in pp.calls() if cs.f and cs.f["path"].startswith("polling::Poller::wait") and not pp.is_cleanup(cs.bb)]
        on_cycle = any(any(w.bb in blk for blk in pp.loops().values()) for w in waits)
        ck.verdict(len(waits) == 1 and not on_cycle, "2", "T5-loop-exit", pp, "single-wait-per-poll", "Poll::poll waits on the poller exactly once, on no cycle: a wake-up (notify) always makes poll() return", "Poll::poll waits in a loop (or more than once): a wait ended by wakeup()/a waker with no event is re-entered, so wake-ups and stop requests are lost until something else happens", site=pp.where(waits[0].bb) if waits else pp.where())
    nf = ck.opt_body("Notifier::notify")
    if nf is not None:
        pn = [cs for cs in nf.calls() if cs.f and cs.f["path"].startswith("polling::Poller::notify")]
        ck.verdict(bool(pn) and T.t2_all_exits(nf, [0], [c.bb for c in pn]) is None, "2", "T2-all-exits", nf, "notify=>Poller::notify", "Notifier::notify always calls Poller::notify", "Notifier::notify does not reach Poller::notify", site=nf.where())
    # the loop's own stop flag is the one LoopSignal shares (get_signal clones the Arc)
    gs = ck.opt_body("EventLoop::get_signal")
    if gs is not None:
        ok = any(st["s"] == "assign" and st["rv"]["r"] == "agg" and st["rv"].get("adt", "").endswith("LoopSignal") and any(T.path_has(gs, x, ".signals") for x in st["rv"]["fields"]) for i, j, st in gs.statements())
        ck.verdict(ok, "2", "T6-provenance", gs, "signal-shares-loop-flags", "LoopSignal holds a clone of the loop's own flag Arc", "LoopSignal does not share the loop's flags", site=gs.where())

    # ---- clause 3: block_on -----------------------------------------------------------------------------------
    if not ck.has("block_on"):
        return
    for q in ("<EventLoopWaker as Wake>::wake", "<EventLoopWaker as Wake>::wake_by_ref"):
        b = ck.opt_body(q)
        if b is None:
            ck.anchor_missing("3", "T3-must-precede", q)
            continue
        # one of the two entry points may simply delegate to the other (checked itself)
        sib = [cs for cs in b.calls() if not b.is_cleanup(cs.bb) and cs.callee_body() is not None and cs.callee_body().qual in ("<EventLoopWaker as Wake>::wake", "<EventLoopWaker as Wake>::wake_by_ref") and cs.callee_body().qual != q]
        if sib and T.t2_all_exits(b, [0], [c.bb for c in sib]) is None and not atomics(b, "future_ready", ("store", "swap", "fetch_or", "fetch_and")):
            ck.ok("3", "T3-must-precede", b, "ready-flag-stored-before-notify", "delegates, on every path, to %s, which is checked itself" % sib[0].callee_body().qual, site=b.where(sib[0].bb))
            continue
        s_ = atomics(b, "future_ready", ("store", "swap", "fetch_or"))
        n_ = [cs for cs in b.calls() if not b.is_cleanup(cs.bb) and (cs.name == "notify" or always_notifies(cs.callee_body()))]
        ok = bool(s_) and bool(n_) and all(b.dominates(s_[0].bb, n.bb) for n in n_) and all(c.args[1].get("k", {}).get("v") == 1 for c in s_) and T.t2_all_exits(b, [0], [n.bb for n in n_]) is None
        ck.verdict(ok, "3", "T3-must-precede", b, "ready-flag-stored-before-notify", "the waker stores future_ready = true and then notifies, on every path", "%s does not store the ready flag before notifying (or does not notify): the loop can wake up, find the flag clear, and go back to sleep without polling the future" % q, site=b.where())
    bo = ck.body("3", "EventLoop::block_on")
    polls = [cs for cs in bo.calls() if cs.name == "poll" and (cs.trait or "").endswith("Future") and not bo.is_cleanup(cs.bb)]
    waits = [cs for cs in bo.calls() if cs.name in ("dispatch_events", "dispatch") and cs.callee_body() is not None and not bo.is_cleanup(cs.bb)]
    tests = atomics(bo, "future_ready", ("swap", "load", "compare_exchange", "fetch_and"))
    clears = [c for c in atomics(bo, "future_ready", ("swap", "store", "fetch_and", "compare_exchange")) if c.args[1].get("k", {}).get("v") == 0]
    sets = [c for c in atomics(bo, "future_ready", ("store", "swap", "fetch_or")) if c.args[1].get("k", {}).get("v") == 1]
    if not polls or not waits or not tests:
        ck.anchor_missing("3", "T2-all-exits", "block_on: poll / wait / ready-flag test")
        return
    p0, w0 = polls[0], waits[0]
    loops = bo.loops()
    lp = [(h, blk) for h, blk in loops.items() if p0.bb in blk and w0.bb in blk]
    ck.verdict(bool(lp), "3", "T5-loop-exit", bo, "poll-and-wait-in-one-loop", "the future is polled and the loop waited on in the same loop", "block_on does not poll and wait in one loop", site=bo.where(p0.bb))
    if lp:
        h, blk = min(lp, key=lambda x: len(x[1]))
        ck.verdict(bool(sets) and any(bo.dominates(s.bb, h) and s.bb not in blk for s in sets), "3", "T3-must-precede", bo, "first-iteration-polls", "the ready flag is set before the loop: the future is polled before the first wait", "the future is not polled before the first wait (the ready flag is not set before the loop)", site=bo.where(h))
        for t in tests:
            tr, fa = T.bool_split(bo, t.bb)
            if not tr:
                continue
            bad = T.t2_all_exits(bo, [x for _, x in tr], [p0.bb], exits={w0.bb} | set(bo.return_blocks()))
            ck.verdict(bad is None, "3", "T2-all-exits", bo, "flag-was-set=>poll-before-wait", "whenever the ready flag was found set the future is polled before the loop waits again", "the loop can wait again although the ready flag was set, without polling the future", site=bo.where(t.bb))
        # no clearing write between the poll and the wait
        for c in clears:
            on_path = c.bb in bo.reachable([p0.to], removed_blocks={w0.bb, h})
            ck.verdict(not on_path, "3", "T3-must-precede", bo, "clear-then-poll(never-poll-then-clear)", "the ready flag is cleared before the poll: a wake that lands during the poll leaves the flag set and is seen by the next iteration", "the ready flag is cleared after the future was polled: a wake that lands while the future is being polled (or right after it returned Pending) is overwritten, the future is never polled again and block_on hangs", site=bo.where(c.bb))
        ck.floor("3", "block_on: writes clearing the ready flag", len(clears), 1)
        # Ready => Some(output) and leave the loop
        some_stores = [i for i, j, st in bo.statements() if st["s"] == "assign" and st["rv"]["r"] == "agg" and st["rv"].get("variant") == "Some" and not bo.is_cleanup(i) and T.tainted_by_call(bo, st["rv"]["fields"][0], [p0.bb])]
        ck.verdict(bool(some_stores) and all(w0.bb not in bo.reachable([i], removed_blocks=set()) or bo.find_path([i], [w0.bb], removed_blocks={h}) is None for i in some_stores), "3", "T5-loop-exit", bo, "Ready=>Some(output)-and-leave", "a ready future's output is stored as Some and the loop is left without waiting again", "after the future completed block_on waits again / does not keep the output", site=bo.where(p0.bb))
        rets = [st for i, j, st in bo.statements() if st["s"] == "assign" and st["pl"]["l"] in T.ret_locals(bo) and st["rv"]["r"] == "agg" and st["rv"].get("variant") == "Ok" and not bo.is_cleanup(i)]
        ok = False
        out_locals = set()
        for i in some_stores:
            for s2 in bo.blocks[i]["st"]:
                if s2["s"] == "assign" and s2["rv"]["r"] == "agg" and s2["rv"].get("variant") == "Some":
                    out_locals.add(s2["pl"]["l"])
        # follow plain moves of the Some(..) temporary into the `output` variable
        for i, j, s2 in bo.statements():
            if s2["s"] == "assign" and s2["rv"]["r"] == "use" and not s2["pl"]["p"]:
                src = op_place(s2["rv"]["o"])
                if src is not None and not src["p"] and src["l"] in out_locals:
                    out_locals.add(s2["pl"]["l"])
        for st in rets:
            pl = op_place(st["rv"]["fields"][0])
            if pl is not None and (pl["l"] in out_locals or T.copy_chain_locals(bo, st["rv"]["fields"][0]) & out_locals):
                ok = True
        ck.verdict(ok, "3", "T6-provenance", bo, "returns-the-stored-output", "block_on returns the Option in which the future's output was stored (None if stop() came first)", "block_on does not return the stored output", site=bo.where())
    # between a wait and the next poll of the future the stop flag is examined (stop() requested first => None)
    sl0 = atomics(bo, "stop", ("load", "swap"))
    bad = T.t2_all_exits(bo, [w0.to], [s.bb for s in sl0], exits={p0.bb})
    ck.verdict(bool(sl0) and bad is None, "3", "T3-must-precede", bo, "stop-checked-between-wait-and-poll", "after every wait the stop flag is examined before the future is polled again", "after a wait block_on polls the future before looking at the stop flag: when stop() and a wake arrive in the same iteration it returns Some(output) instead of None", site=bo.where(p0.bb))
    # stop flag examined in the loop
    sl = atomics(bo, "stop", ("load", "swap"))
    ck.verdict(bool(sl) and bool(lp) and any(s.bb in lp[0][1] for s in sl), "3", "T5-loop-exit", bo, "stop-examined-every-iteration", "block_on re-examines the stop flag on every iteration", "block_on never re-examines the stop flag", site=bo.where())
    for cs in atomics(rn, "stop", ("load", "store", "swap")) + atomics(bo, "future_ready", ("load", "store", "swap")):
        ords = [sorted(T.agg_variant(cs.body, a)) for a in cs.args[1:] if T.agg_variant(cs.body, a) and any("Ordering" in str(v[0]) for v in T.agg_variant(cs.body, a))]
        ck.info("4", "T9-recorded", cs.body, "ordering:%s(%s)" % (cs.name, "stop" if T.path_has(cs.body, cs.args[0], ".stop") else "future_ready"), "memory ordering %s (recorded, not armed)" % ords, site=cs.body.where(cs.bb))
    # ---- shared clauses demonstrated by seeding round 7 (the property broken from a distant module) --------------
    from props import common as _c7
    import importlib as _il
    _m = lambda n: _il.import_module('props.' + n)
    _c7.import_results(ck, _m("C03"), "3", "PingSource", "4")  # one drain per event: a self-pinging callback cannot keep the loop inside process_events
    _c7.import_results(ck, _m("C14"), "1", None, "4")  # each lifecycle source is listed once (a hook taking a lock is not entered twice)

