"""C12 — dispatch() waits exactly as long as it should: no spinning, no oversleeping (weak claim)."""
from mir import op_place, place_str
import templates as T
from core import path_descr, AnchorMissing
from props import C05
from props.common import DispatchLoop

LEVEL = "other"
CONFIGS = ["full", "book", "default"]
NOT_DECIDED = [
    "every duration in the statement: the lower bound, the oversleep bound, rounding of the poller's timeout, scheduling latency",
    "that Poller::wait honours its timeout",
    "this is the property nearest to not-applicable: only the structure of the timeout computation and the absence of permanent readiness are decided",
]
EXPLANATION = (
    "Decides on the MIR: (1) the timeout handed to Poller::wait depends on both the caller's timeout and "
    "TimerWheel::next_deadline(), with positive evidence of a minimum and none of a maximum; dispatch/run/dispatch_events pass "
    "the caller's timeout through unchanged; the deadline used is that of an armed timer (cancel removes heap entries, C05.4); "
    "(2) a zero timeout is forced only when before_sleep returned a synthetic event, and no rewrite of the timeout can turn "
    "Some(_) into None (every stored value is Some(..), the timeout itself, or None on the None arm of a test of it); (3) no permanent readiness after the peers "
    "are gone: a closed ping returns Remove, a closed channel returns Remove (re-evaluated from C03/C04), and the channel's "
    "drain bound is at least 1 (C02.4)."
)


def run(ck):
    f = ck.facts
    pp = ck.body("1", "Poll::poll")
    waits = [cs for cs in pp.calls() if cs.f and cs.f["path"].startswith("polling::Poller::wait") and not pp.is_cleanup(cs.bb)]
    if not waits:
        ck.anchor_missing("1", "T6-provenance", "Poller::wait in Poll::poll")
        raise AnchorMissing("wait")
    w = waits[0]
    nd = T.calls(pp, name="next_deadline")
    to = w.args[2]
    # dependence (taint) on both inputs
    dep_param = False
    dep_deadline = T.tainted_by_call(pp, to, [c.bb for c in nd]) if nd else False
    seen = set()

    def depends_on_arg(op, depth=0):
        if depth > 14:
            return False
        for r, p in pp.resolve(op):
            if r == ("arg", 2):
                return True
            if r[0] == "call" and r[1] not in seen:
                seen.add(r[1])
                c = pp.call_at(r[1])
                if any(depends_on_arg(a, depth + 1) for a in c.args):
                    return True
            if r[0] == "agg":
                if any(depends_on_arg(a, depth + 1) for a in pp.agg_at(r[1], r[2])["fields"]):
                    return True
        return False

    # `timeout` is a mutable local (the parameter itself is reassigned): collect every value stored into it
    tl = op_place(to)
    srcs = [to]
    if tl is not None:
        for d in pp.defs().get(tl["l"], []):
            if d[0] == "assign" and "o" in d[3]["rv"]:
                srcs.append(d[3]["rv"]["o"])
    dep_param = any(depends_on_arg(s) for s in srcs) or (tl is not None and tl["l"] == 2)
    for s in srcs:
        if nd and T.tainted_by_call(pp, s, [c.bb for c in nd]):
            dep_deadline = True
    ck.verdict(dep_param, "1", "T6-provenance", pp, "wait-timeout-depends-on-caller-timeout", "the wait is bounded by the caller's timeout", "the poller wait does not depend on the caller's timeout", site=pp.where(w.bb))
    ck.verdict(bool(nd) and dep_deadline, "1", "T6-provenance", pp, "wait-timeout-depends-on-next-deadline", "the wait is bounded by the earliest timer deadline", "the poller wait ignores the next timer deadline: dispatch() oversleeps armed timers", site=pp.where(w.bb))
    mins = [cs for cs in pp.calls() if cs.name == "min" and not pp.is_cleanup(cs.bb)]
    maxs = [cs for cs in pp.calls() if cs.name == "max" and not pp.is_cleanup(cs.bb)]
    if maxs:
        ck.violation("1", "T6-selection", pp, "min-not-max", "the timeout computation uses max(): the loop sleeps for the longer of the caller's timeout and the time to the next deadline", site=pp.where(maxs[0].bb))
    elif mins:
        ck.ok("1", "T6-selection", pp, "min-not-max", "the two bounds are combined with min()", site=pp.where(mins[0].bb))
    else:
        ck.undecided("1", "T6-selection", pp, "min-not-max", "no min()/max() call found: the selection between the two bounds is not recognised (counted as undecided, not as a violation)", site=pp.where(w.bb))
    # the deadline is converted relative to now with a saturating subtraction (an already expired timer gives zero, not a panic)
    sat = [cs for cs in pp.calls() + [c for cl in f.closures_of(pp) for c in cl.calls()] if cs.name in ("saturating_duration_since", "checked_duration_since")]
    ck.verdict(bool(sat), "1", "T6-provenance", pp, "deadline->duration-saturates", "time to the next deadline is computed with a saturating subtraction (an expired timer yields a zero wait)", "time to the next deadline is not computed with a saturating/checked subtraction (an expired timer may panic or yield a huge wait)", site=pp.where())
    # .. and relative to a clock read inside Poll::poll itself, i.e. after the before_sleep hooks and everything else
    # dispatch_events did before: against an earlier `now` the wait is too long by the time spent since
    for cs in sat:
        owner = cs.body
        nows = [c.bb for c in owner.calls() if c.f and c.f["path"] == "std::time::Instant::now" and not owner.is_cleanup(c.bb)]
        fresh = len(cs.args) > 1 and bool(nows) and T.resolves_to_call(owner, cs.args[1], nows) and not any(r[0] == "arg" for r, p_ in owner.resolve(cs.args[1]))
        ck.verdict(fresh, "1", "T6-provenance", owner, "deadline->duration-uses-fresh-clock", "the time to the next deadline is measured from Instant::now() read in Poll::poll, immediately before the wait", "the time to the next deadline is measured from a clock value that was not read here (%s): time spent between that reading and the wait (before_sleep hooks, callbacks) is slept on top, so dispatch() oversleeps the timer" % owner.roots_str(cs.args[1]) if len(cs.args) > 1 else "?", site=owner.where(cs.bb))
    # pass-through of the caller's timeout
    for q, callee, argn in (("EventLoop::dispatch", ("dispatch_events",), 1), ("EventLoop::run", ("dispatch", "dispatch_events"), 1)):
        b = ck.opt_body(q)
        if b is None:
            ck.anchor_missing("1", "T6-provenance", q)
            continue
        cs = [c for c in b.calls() if c.name in callee and c.callee_body() is not None and not b.is_cleanup(c.bb)]
        callee = "/".join(callee)
        ok = bool(cs) and all(T.resolves_to_arg(b, c.args[argn], 2) or any(r == ("arg", 2) for r, p in b.resolve(c.args[argn])) or T.tainted_by_call(b, c.args[argn], [x.bb for x in T.calls(b, name="into") if T.resolves_to_arg(b, x.args[0], 2)]) for c in cs)
        ck.verdict(ok, "1", "T6-provenance", b, "passes-caller-timeout-to:%s" % callee, "the caller's timeout is passed through unchanged", "%s does not pass the caller's timeout to %s" % (q, callee), site=b.where())
    dl = DispatchLoop(ck, "2")
    b = dl.body
    polls = [cs for cs in T.calls(b, name="poll") if cs.f["path"] == "sys::Poll::poll"]
    bs = T.calls(b, name="before_sleep", trait="EventDispatcher", self_kind=("dyn",))
    if polls:
        p0 = polls[0]
        tl = op_place(p0.args[1])
        ok = tl is not None and (tl["l"] == 2 or T.copy_chain_locals(b, p0.args[1]) & {2} or any(r == ("arg", 2) and not p for r, p in b.resolve(p0.args[1])))
        ck.verdict(bool(ok), "1", "T6-provenance", b, "poll(timeout-parameter)", "Poll::poll receives the (possibly shortened) timeout parameter", "Poll::poll is not given dispatch_events' timeout", site=b.where(p0.bb))
    # ---- clause 2: zero timeout only when a synthetic event was produced ---------------------------------------------
    zero_stores = []
    for i, j, st in b.statements():
        if st["s"] == "assign" and st["pl"]["l"] == 2 and not st["pl"]["p"] and not b.is_cleanup(i):
            rv = st["rv"]
            isz = False
            if rv["r"] == "agg" and rv.get("variant") == "Some":
                k = rv["fields"][0].get("k", {})
                if "ZERO" in k.get("s", "") or k.get("const_path", "").endswith("ZERO"):
                    isz = True
            if rv["r"] == "use":
                for r, p in b.resolve(rv["o"]):
                    if r[0] == "agg":
                        rv2 = b.agg_at(r[1], r[2])
                        k = rv2["fields"][0].get("k", {}) if rv2["fields"] else {}
                        if rv2.get("variant") == "Some" and ("ZERO" in k.get("s", "") or k.get("const_path", "").endswith("ZERO")):
                            isz = True
            if isz:
                zero_stores.append(i)
    # .. the same written with a fresh binding (`let timeout = if .. { timeout } else { Some(ZERO) }`): a Some(ZERO)
    # literal that reaches the wait's timeout argument
    if polls:
        for r, p_ in b.resolve(polls[0].args[1]):
            if r[0] == "agg" and r[1] not in zero_stores and not b.is_cleanup(r[1]):
                rv2 = b.agg_at(r[1], r[2])
                k = rv2["fields"][0].get("k", {}) if rv2.get("fields") else {}
                if rv2.get("variant") == "Some" and ("ZERO" in k.get("s", "") or k.get("const_path", "").endswith("ZERO")):
                    zero_stores.append(r[1])
    ck.floor("2", "stores of Some(Duration::ZERO) into the timeout", len(zero_stores), 1)
    if bs:
        some, none = T.option_split(b, bs[0].bb)
        # .. or on the edge where the synthetic queue was found non-empty after the hooks ran
        nonempty = []
        for c in T.calls(b, name="is_empty"):
            if not b.is_cleanup(c.bb) and T.path_has(b, c.args[0], ".synthetic_events") and any(b.dominates(x.bb, c.bb) or x.bb in b.reachable([0]) and c.bb in b.reachable([x.to]) for x in bs):
                tr_, fa_ = T.bool_split(b, c.bb)
                nonempty += fa_
        def accumulated_flag(i):
            """the zero store is guarded by a bool that *accumulates* `before_sleep(..).is_some()` over the sources:
            initialised false, then only ever `flag |= is_some` / `flag = true` on a Some edge. Returns None (not that
            idiom), "" (sound) or what is wrong (a plain `flag = is_some` forgets an earlier source's event)"""
            for sw in T.switches_on_expr(b, lambda e: e[0] == "place"):
                tr = T.edges_of_value(b, sw, True)
                if not tr or not T.reachable_only_via(b, i, tr):
                    continue
                e = b.expr(b.blocks[sw]["term"]["on"], at=sw)
                neg = False
                while e[0] == "not":
                    neg = not neg
                    e = e[1]
                if neg or e[0] != "place":
                    continue
                # the flag itself, or the payload of the `Ok(flag)` a helper returned (`run_before_sleep()?`)
                cands = set()
                if not e[2]["p"]:
                    cands.add(e[2]["l"])
                for r_, p_ in b.resolve(e[2]):
                    if r_[0] == "rv":
                        st_ = b.blocks[r_[1]]["st"][r_[2]]
                        if st_["s"] == "assign" and not st_["pl"]["p"]:
                            cands.add(st_["pl"]["l"])
                    if r_[0] == "agg":
                        rv_ = b.agg_at(r_[1], r_[2])
                        if rv_.get("variant") in ("Ok", "Some", "Continue") and rv_.get("fields"):
                            cands |= set(T.copy_chain_locals(b, rv_["fields"][0]))
                            pl_ = op_place(rv_["fields"][0])
                            if pl_ is not None and not pl_["p"]:
                                cands.add(pl_["l"])
                if not cands:
                    # a flag assigned from calls only (`flag = x.is_some()`): the bool local with the same origins
                    roots = set(b.resolve(e[2]))
                    for l_, ds_ in b.defs().items():
                        if len(ds_) >= 2 and f.types[b.local_ty(l_)]["s"] == "bool" and set(b.resolve({"c": {"l": l_, "p": [], "t": b.local_ty(l_)}})) == roots:
                            cands.add(l_)
                cands = [l for l in cands if f.types[b.local_ty(l)]["s"] == "bool" and len(b.defs().get(l, [])) >= 2]
                if not cands:
                    continue
                F = cands[0]
                defs = b.defs().get(F, [])
                for d in defs:
                    if d[0] != "assign":
                        return "the flag is assigned the result of a call"
                    rv = d[3]["rv"]
                    if rv["r"] == "use" and rv["o"].get("k") is not None:
                        if rv["o"]["k"].get("v") in (0, False):
                            continue
                        if some and T.reachable_only_via(b, d[1], some):
                            continue
                        return "the flag is set to true on a path on which before_sleep did not return an event"
                    if rv["r"] == "bin" and rv["op"] == "BitOr":
                        ops = [rv["a"], rv["b"]]
                        selfs = [o for o in ops if F in T.copy_chain_locals(b, o) or (op_place(o) or {}).get("l") == F]
                        others = [o for o in ops if o not in selfs]
                        if len(selfs) == 1 and len(others) == 1:
                            oc = [c for c in T.calls(b, name=("is_some",)) if T.resolves_to_call(b, others[0], [c.bb]) and (T.tainted_by_call(b, c.args[0], [x.bb for x in bs]) or T.resolves_to_call(b, c.args[0], [x.bb for x in bs]))]
                            if oc:
                                continue
                        return "the flag is or-ed with something else than before_sleep(..).is_some()"
                    return "the flag is overwritten (`flag = ..` instead of `flag |= ..`) inside the before_sleep loop: the synthetic event of an earlier source is forgotten when a later source returns none, so the wait is not forced non-blocking although an event is queued"
                return ""
            return None

        for i in zero_stores:
            af = None
            if not ((bool(some) and T.reachable_only_via(b, i, some)) or (bool(nonempty) and T.reachable_only_via(b, i, nonempty))):
                af = accumulated_flag(i)
                if af is not None:
                    ck.verdict(af == "", "2", "T4-guarded-by", b, "zero-timeout-only-if-synthetic-event", "the timeout is forced to zero on a flag that accumulates `before_sleep(..).is_some()` over all lifecycle sources (initialised false, only ever or-ed)", "the zero timeout hangs on a flag that does not accumulate the sources' answers: %s" % af, site=b.where(i))
                    continue
            ck.verdict((bool(some) and T.reachable_only_via(b, i, some)) or (bool(nonempty) and T.reachable_only_via(b, i, nonempty)), "2", "T4-guarded-by", b, "zero-timeout-only-if-synthetic-event", "the timeout is forced to zero only on the edge where before_sleep returned an event", "dispatch forces a zero timeout although no synthetic event was produced: the loop spins instead of sleeping", site=b.where(i))
    # any other store into the timeout must derive from the timeout itself (EINTR adjustment)
    for i, j, st in b.statements():
        if st["s"] == "assign" and st["pl"]["l"] == 2 and not st["pl"]["p"] and not b.is_cleanup(i) and i not in zero_stores:
            rv = st["rv"]
            ok = False
            ops = [rv.get("o")] + list(rv.get("fields", []))
            for o in ops:
                if o is None:
                    continue
                for c in b.calls():
                    if c.name in ("sub", "checked_sub", "saturating_sub") and T.tainted_by_call(b, o, [c.bb]):
                        ok = True
            ck.verdict(ok, "2", "T6-provenance", b, "other-timeout-store-is-a-remaining-time-adjustment", "the only other rewrite of the timeout subtracts the elapsed time after an interrupted wait", "the timeout is overwritten with an unrelated value", site=b.where(i))

    # .. and a finite timeout stays finite: `None` means "wait for ever", so no rewrite of the timeout may turn `Some(_)`
    # into `None`. Every value stored into it is a `Some(..)` built on the spot, the timeout itself, or a `None` built on
    # the `None` arm of a test of the timeout itself (the expansion of `timeout.map(..)`); the result of a fallible
    # computation (`checked_sub`, `filter`, ..) is not: when it comes back empty the dispatch never returns.
    def _none_guard_edges():
        out = []
        for sw in T.switches_on_expr(b, lambda e: e[0] == "discr"):
            kind, aps = T.switch_reads(b, sw)
            if kind == "discr" and any(r_ == ("arg", 2) and not p_ for r_, p_ in aps):
                out += T.discr_edges(b, sw, 0)
        return out

    def _finite(i, rv, depth=0):
        """None if the stored value cannot be a `None` made from a `Some`, else a description"""
        if rv["r"] == "agg":
            if rv.get("variant") == "Some":
                return None
            if rv.get("variant") == "None":
                ng = _none_guard_edges()
                return None if ng and T.reachable_only_via(b, i, ng) else "a literal None"
            return "an aggregate %s" % rv.get("variant")
        if rv["r"] != "use":
            return "a computed value (%s)" % rv["r"]
        for r_, p_ in b.resolve(rv["o"]):
            if r_ == ("arg", 2) and not [e for e in p_ if e not in ("&", "*")]:
                continue
            if r_[0] == "agg":
                d = _finite(r_[1], b.agg_at(r_[1], r_[2]), depth + 1)
                if d is not None:
                    return d
                continue
            if r_[0] == "call":
                c = b.call_at(r_[1])
                return "the result of %s" % ((c.f or {}).get("path") or c.name)
            return "a value of unknown origin %s" % (r_,)
        return None

    nfin = 0
    for i, j, st in b.statements():
        if st["s"] == "assign" and st["pl"]["l"] == 2 and not st["pl"]["p"] and not b.is_cleanup(i):
            nfin += 1
            d = _finite(i, st["rv"])
            ck.verdict(d is None, "2", "T6-provenance", b, "finite-timeout-stays-finite", "the value stored into the timeout is Some(..), the timeout itself, or None on the None arm of a test of the timeout", "the timeout is overwritten with %s, which can be None although the caller gave a finite timeout: the poller then waits for ever and dispatch(Some(d)) never returns" % d, site=b.where(i))
    for c in b.calls():
        if not b.is_cleanup(c.bb) and c.dest["l"] == 2 and not c.dest["p"]:
            nfin += 1
            ck.verdict(False, "2", "T6-provenance", b, "finite-timeout-stays-finite", "", "the timeout is overwritten with the result of %s, which can be None although the caller gave a finite timeout: the poller then waits for ever and dispatch(Some(d)) never returns" % ((c.f or {}).get("path") or c.name), site=b.where(c.bb))
    # .. the same for a timeout carried in fresh bindings (`let timeout = ..`): whatever reaches the wait
    for p0 in polls:
        nfin += 1
        d = _finite(p0.bb, {"r": "use", "o": p0.args[1]})
        ck.verdict(d is None, "2", "T6-provenance", b, "finite-timeout-stays-finite:at-the-wait", "the value handed to Poll::poll is Some(..), the timeout parameter itself, or None on the None arm of a test of the timeout", "Poll::poll is handed %s, which can be None although the caller gave a finite timeout: the poller then waits for ever" % d, site=b.where(p0.bb))
    ck.floor("2", "values reaching the timeout checked for finiteness", nfin, 1)

    # ---- clause 1b: the clamping deadline belongs to an armed timer ---------------------------------------------------
    C05.cancel_rules(ck, "1b")
    ndb = ck.opt_body("TimerWheel::next_deadline")
    if ndb is not None:
        pk = [cs for cs in T.calls(ndb, name="peek") if T.path_has(ndb, cs.args[0], ".heap")]
        ck.verdict(bool(pk), "1b", "T6-provenance", ndb, "next_deadline=head-of-heap", "next_deadline reports the head of the heap", "next_deadline does not report the head of the heap", site=ndb.where())

    # ---- clause 3: no permanent readiness after peers are gone -------------------------------------------------------------
    from props import C03, C04, C02

    C03.close_rules(ck, "3")
    C04.closed_rules(ck, "3")
    # a drain loop that may run zero times never observes an empty queue: the source re-pings itself for ever
    from props import common

    common.import_results(ck, C02, "4", "Channel", "3")
    from props import C06, C11, C17

    common.import_results(ck, C06, "2", "dispatch_events", "3")
    common.import_results(ck, C05, "5", "Timer", "1b")
    common.import_results(ck, C11, "2", "Poll::poll", "1")
    common.import_results(ck, C11, "2", "LoopSignal::wakeup", "1")
    common.import_results(ck, C17, "2", "IoLoopInner", "3")
    if ck.has("stream"):
        from props import C10 as _C10

        common.import_results(ck, _C10, "6", "PingWaker", "3")
    # ---- shared clauses demonstrated by seeding round 7 (the property broken from a distant module) --------------
    from props import common as _c7
    import importlib as _il
    _m = lambda n: _il.import_module('props.' + n)
    _c7.import_e3(ck, "3", lambda inst: True)  # enable() after disable() re-arms a wrapped timer
    # ---- shared clause demonstrated by seeding round 9 ---------------------------------------------------------------
    from props import common as _c9
    import importlib as _il9
    _c9.import_results(ck, _il9.import_module("props.C14"), "4", "dispatch_events", "2")  # a stale synthetic event forces a zero wait: the queue is discarded before anything reads it
