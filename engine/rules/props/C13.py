"""C13 — idle callbacks run exactly once, after the events, in order, unless cancelled."""
from mir import op_place, place_str
import templates as T
from core import path_descr, AnchorMissing
import flow

LEVEL = "other"
CONFIGS = ["full", "book", "default"]
NOT_DECIDED = ["the history quantifier itself (which dispatch is 'the first that returns Ok after insertion'); user closures that leak or forget their Idle handle"]
EXPLANATION = (
    "Decides on the MIR: (1) insert_idle appends to the idle list and returns an Idle sharing the same Rc; (2) dispatch_idles takes "
    "the whole list before its loop, holds no list guard at the callback, iterates the taken vector by value, in order, and leaves "
    "the loop only on exhaustion; (3) the wrapper calls the user FnOnce only through Option::take; (4) dispatch()/block_on() run "
    "the idles only on the success edge of dispatch_events and always on it; (5) Idle::cancel empties the shared slot and Idle has "
    "no Drop impl."
)

APPEND = ("push", "push_back", "extend", "append")
PREPEND = ("insert", "push_front")
TAKE = ("take", "replace", "split_off", "drain", "swap")


def pointee_origin(body, op):
    """storage a reference operand points to"""
    pl = op_place(op)
    return T.place_origin(body, {"l": pl["l"], "p": list(pl["p"]) + ["*"]}) if pl is not None else None


def run(ck):
    f = ck.facts
    # the function(s) that run the idle callbacks: `EventLoop::dispatch_idles`, or - when it was inlined away into its
    # callers / a shared helper - every function of loop_logic.rs that calls `IdleDispatcher::dispatch` itself
    _di0 = ck.opt_body("EventLoop::dispatch_idles")
    idle_runners = [_di0] if _di0 is not None else [b_ for b_ in f.bodies.values() if b_.file.endswith("loop_logic.rs") and "{closure" not in b_.qual and [c_ for c_ in T.calls(b_, name="dispatch", trait="IdleDispatcher", self_kind=("dyn",)) if not b_.is_cleanup(c_.bb)]]
    idle_quals = {b_.qual for b_ in idle_runners}

    ii = ck.body("1", "LoopHandle::insert_idle")
    adds = [cs for cs in T.calls(ii, name=APPEND + PREPEND) if T.path_has(ii, cs.args[0], ".idles")]
    ck.floor("1", "insert_idle: additions to the idle list", len(adds), 1)
    for cs in adds:
        ck.verdict(cs.name in APPEND, "1", "T6-provenance", ii, "appends-to-idles", "new idles are appended (insertion order = execution order)", "insert_idle adds with `%s`: idles no longer run in insertion order" % cs.name, site=ii.where(cs.bb))
        bad = T.t2_all_exits(ii, [0], [cs.bb])
        ck.verdict(bad is None, "1", "T2-all-exits", ii, "always-queued", "every call queues the idle", "insert_idle can return without queuing the callback", site=ii.where(cs.bb))
        rets = [st for i, j, st in ii.statements() if st["s"] == "assign" and st["pl"]["l"] in T.ret_locals(ii) and st["rv"]["r"] == "agg" and not ii.is_cleanup(i)]
        shared = False
        for st in rets:
            r_ret = {r for r, p in ii.resolve(st["rv"]["fields"][0])}
            r_push = {r for r, p in ii.resolve(cs.args[1])}
            if r_ret & r_push and any(r[0] == "call" for r in r_ret & r_push):
                shared = True
        ck.verdict(shared, "1", "T6-provenance", ii, "handle-shares-the-queued-Rc", "the returned Idle holds a clone of the queued Rc (cancel reaches the queued callback)", "the returned Idle does not share the queued callback's allocation: cancel() cannot stop it", site=ii.where(cs.bb))

    ORDER_BREAKING = ("swap_remove", "swap", "reverse", "sort", "sort_by", "sort_by_key", "sort_unstable", "sort_unstable_by", "rotate_left", "rotate_right", "insert", "push_front", "dedup")
    for body in f.bodies.values():
        for cs in body.calls():
            if cs.name in ORDER_BREAKING and cs.args and not body.is_cleanup(cs.bb) and T.path_has(body, cs.args[0], ".idles") and cs.f and ("Vec" in cs.f["path"] or "slice" in cs.f["path"]):
                ck.violation("1", "T7-who-may-call", body, "idle-list-reordered:%s" % cs.name, "the pending idle list is modified with `%s`, which does not preserve insertion order" % cs.name, site=body.where(cs.bb))
    # nothing but dispatch_idles (take) and insert_idle (append) writes the list
    writers = set()
    for body in f.bodies.values():
        for i, j, st in T.stores_to_field(body, "idles"):
            writers.add(body.qual)
        for cs in body.calls():
            if cs.args and not body.is_cleanup(cs.bb) and cs.name in ("replace", "swap", "take", "clear", "truncate", "drain", "append", "extend", "push", "retain", "remove", "pop") and T.path_has(body, cs.args[0], ".idles"):
                writers.add(body.qual.split("::{closure")[0])
    # .. and nobody throws queued callbacks away: entries leave the list only through the take of dispatch_idles
    for body in f.bodies.values():
        for cs in body.calls():
            if cs.args and not body.is_cleanup(cs.bb) and cs.name in ("clear", "truncate", "drain", "retain", "retain_mut", "remove", "pop", "split_off", "dedup_by", "pop_front", "pop_back") and T.path_has(body, cs.args[0], ".idles") and cs.f and ("Vec" in cs.f["path"] or "VecDeque" in cs.f["path"]):
                if cs.name in ("pop_front",) and (body.qual.startswith("EventLoop::dispatch_idles") or body.qual in idle_quals):
                    continue
                if cs.name in TAKE and body.qual in idle_quals:
                    # the take idiom of clause 2 (`drain(..)` / `split_off(0)` of the whole list, iterated there)
                    tk = [c for c in T.calls(body, name=TAKE) if T.path_has(body, c.args[0], ".idles")]
                    if tk and tk[0].bb == cs.bb:
                        continue
                ck.violation("1", "T7-who-may-call", body, "idle-list-discarded:%s" % cs.name, "queued idle callbacks are removed from the pending list with `%s` without being run: an idle that was inserted and not cancelled is lost" % cs.name, site=body.where(cs.bb))
    extra = writers - {"LoopHandle::insert_idle", "EventLoop::dispatch_idles", "EventLoop::try_new"} - idle_quals
    ck.verdict(not extra, "1", "T7-who-may-write", "loop_logic::LoopInner", "writers-of:idles", "the idle list is written only by insert_idle (append) and dispatch_idles (take): %s" % sorted(writers), "the idle list is also written by %s" % sorted(extra), site="src/loop_logic.rs")

    # ---- clause 2: dispatch_idles ---------------------------------------------------------------------
    if not idle_runners:
        ck.body("2", "EventLoop::dispatch_idles")  # anchor missing
    for di in idle_runners:
        takes = [cs for cs in T.calls(di, name=TAKE) if T.path_has(di, cs.args[0], ".idles")]
        disp = T.calls(di, name="dispatch", trait="IdleDispatcher", self_kind=("dyn",))
        if not takes or not disp:
            ck.violation("2", "T3-must-precede", di, "take-list-before-loop", "dispatch_idles does not take the idle list out of its cell before running the callbacks (idles inserted by an idle would run in the same dispatch, and the list stays borrowed across user code)", site=di.where())
        else:
            d = disp[0]
            loops = di.loops()
            lp = [(h, blk) for h, blk in loops.items() if d.bb in blk]
            if len(lp) > 1:
                # the idle code embedded in a function with a loop of its own (`run`, `block_on`): the idle loop is the
                # innermost one around the callback
                lp = [min(lp, key=lambda x: len(x[1]))]
            ck.verdict(bool(lp) and all(di.dominates(takes[0].bb, h) and takes[0].bb not in blk for h, blk in lp), "2", "T3-must-precede", di, "take-list-before-loop", "the whole list is taken before the loop starts", "the idle list is not taken before the loop", site=di.where(takes[0].bb))
            # `mem::swap(&mut *list, &mut buffer)`: the batch is then the buffer (required below to be drained completely)
            swap_buf = None
            if takes[0].name == "swap" and len(takes[0].args) == 2:
                others = [a for a in takes[0].args if not T.path_has(di, a, ".idles")]
                swap_buf = pointee_origin(di, others[0]) if len(others) == 1 else None
            ck.verdict(takes[0].name in ("take", "replace", "split_off", "drain") or swap_buf is not None, "2", "T6-provenance", di, "take-idiom:%s" % takes[0].name, "recognised take idiom", "unrecognised", site=di.where(takes[0].bb), nontrivial=False)
            if lp:
                h, blk = lp[0]
                hc = di.call_at(h)
                it_ok = hc is not None and hc.name == "next" and T.same_sequence_as_call(di, hc.args[0], [takes[0].bb])
                if not it_ok and hc is not None and hc.name == "next":
                    # `for idle in taken.drain(..)`: a full drain of the taken vector is the same iteration
                    for r, p_ in di.resolve(hc.args[0]):
                        if r[0] == "call":
                            c2 = di.call_at(r[1])
                            if c2.name == "drain" and T.resolves_to_call(di, c2.args[0], [takes[0].bb]) and "RangeFull" in di.facts.types[op_place(c2.args[1])["t"]]["s"]:
                                it_ok = True
                if not it_ok and hc is not None and hc.name == "next" and swap_buf is not None:
                    for r, p_ in di.resolve(hc.args[0]):
                        if r[0] == "call":
                            c2 = di.call_at(r[1])
                            if c2.name == "drain" and "RangeFull" in di.facts.types[op_place(c2.args[1])["t"]]["s"] and pointee_origin(di, c2.args[0]) == swap_buf and di.dominates(takes[0].bb, c2.bb):
                                it_ok = True
                ck.verdict(it_ok, "2", "T6-provenance", di, "iterates-taken-list-in-order", "the loop iterates the taken vector itself, front to back, by value", "the loop does not iterate the taken list in order (reversed / filtered / another collection): %s" % (di.roots_str(hc.args[0]) if hc else "?"), site=di.where(h))
                ck.verdict(hc is not None and any(x in f.types[f.peel_refs(op_place(hc.args[0])["t"])]["s"] for x in ("IntoIter", "Drain")), "2", "T6-provenance", di, "by-value-iteration", "entries are consumed by the iteration (each runs at most once)", "the idle list is not iterated by value: entries are not consumed", site=di.where(h))
                some, none = T.option_split(di, h)
                ex = [(a, t) for a, t, lab in T.loop_exit_edges(di, blk) if lab != "unwind" and di.blocks[t]["term"]["t"] != "unreachable"]
                ck.verdict(bool(none) and set(ex) <= set(none), "2", "T5-loop-exit", di, "exits-only-on-exhaustion", "the loop is left only when the list is exhausted", "the idle loop can be left early (the remaining idles are dropped without running)", site=di.where(h))
                bad = T.t2_all_exits(di, [x for _, x in some], [d.bb], exits={h})
                ck.verdict(bad is None, "2", "T2-all-exits", di, "each-entry=>dispatch", "every entry is dispatched", "an entry can be skipped", site=di.where(d.bb))
            # every dispatch looks at the list: the only way around the take is "the list is empty" (tested on the list itself).
            # A separate "idles pending" flag is accepted only if it cannot be wiped after an idle inserted by an idle set
            # it: every clearing store lies before the callbacks run, and insert_idle sets it on every path.
            excused = []
            for c in T.calls(di, name="is_empty"):
                if not di.is_cleanup(c.bb) and c.args and T.path_has(di, c.args[0], ".idles"):
                    tr_, fa_ = T.bool_split(di, c.bb)
                    excused += tr_
            flag_reads = [c for c in di.calls() if c.name in ("get", "load") and c.args and not di.is_cleanup(c.bb) and any(x in f.types[f.peel_refs(op_place(c.args[0])["t"])]["s"] for x in ("Cell<bool>", "AtomicBool", "Atomic<bool>"))]
            for c in flag_reads:
                fld = [e for r_, p_ in di.resolve(c.args[0]) for e in p_ if isinstance(e, str) and e.startswith(".") and e not in (".deref", ".inner", ".handle")]
                fld = fld[-1] if fld else None
                if fld is None:
                    continue
                clears = [w for w in di.calls() if w.name in ("set", "store", "replace", "swap", "take") and w.args and not di.is_cleanup(w.bb) and T.path_has(di, w.args[0], fld) and (w.name == "take" or (len(w.args) > 1 and T.const_value(di, w.args[1], 8) == 0))]
                late = [w for w in clears if any(w.bb in di.reachable([d_.to]) for d_ in disp if d_.to is not None)]
                sets_ok = False
                if ii is not None:
                    st_ = [w for w in ii.calls() if w.name in ("set", "store", "replace", "swap") and len(w.args) > 1 and not ii.is_cleanup(w.bb) and T.path_has(ii, w.args[0], fld) and T.const_value(ii, w.args[1], 8) == 1]
                    sets_ok = bool(st_) and T.t2_all_exits(ii, [0], [w.bb for w in st_]) is None
                if clears and not late and sets_ok:
                    tr_, fa_ = T.bool_split(di, c.bb)
                    excused += fa_
            starts_ = [0]
            exits_ = None
            de_ = [cs for cs in di.calls() if cs.callee_body() is not None and cs.callee_body().qual == "EventLoop::dispatch_events" and not di.is_cleanup(cs.bb)]
            if de_ and di.qual != "EventLoop::dispatch_idles":
                # embedded: "every dispatch" = every successful return of dispatch_events, up to the next one or a return
                ok_e_, err_e_, _d = T.result_split(di, de_[0].bb)
                if ok_e_:
                    starts_ = [x for _, x in ok_e_]
                    exits_ = set(di.return_blocks()) | {de_[0].bb}
            bad = T.t2_all_exits(di, starts_, [takes[0].bb], removed_edges=excused, exits=exits_)
            ck.verdict(bad is None, "2", "T2-all-exits", di, "every-dispatch-looks-at-the-list", "the only way around taking the idle list is the list being empty", "dispatch_idles can return without looking at the idle list although it is not (known to be) empty: the early return is decided by something else than the list itself (a 'pending' flag that a later store can wipe after an idle inserted by an idle has set it): queued idles are skipped by this and possibly every later dispatch", site=di.where(), path=path_descr(di, bad) if bad else None)
            back = [cs for cs in di.calls() if cs.args and not di.is_cleanup(cs.bb) and cs.bb != takes[0].bb and cs.name in ("replace", "swap", "clear", "truncate", "append", "extend", "push") and T.path_has(di, cs.args[0], ".idles") and cs.bb in di.reachable([takes[0].to])] + [i for i, j, st in di.statements() if st["s"] == "assign" and st["pl"]["p"] and T.path_has(di, st["pl"], ".idles") and i in di.reachable([takes[0].to]) and not di.is_cleanup(i)]
            ck.verdict(not back, "2", "T7-who-may-write", di, "list-not-overwritten-after-take", "after the list was taken dispatch_idles never writes it again (idles queued by the running idles survive)", "dispatch_idles writes the idle list again after having taken it: idles inserted by the idles that just ran are overwritten and never run", site=di.where(takes[0].bb))
            gf = ck.guardflow(di)
            live = [f.short_ty(p) for l, k, p in gf.live_payloads(d.bb)]
            ck.verdict(all(x.startswith("dyn IdleDispatcher") for x in live), "2", "T1-no-guard-across-user-code", di, "no-list-guard-at-callback", "only the running idle's own cell is borrowed at the callback: %s" % live, "the idle list is still borrowed while an idle runs: %s" % live, site=di.where(d.bb))

    # ---- clause 3: at most once ---------------------------------------------------------------------------
    wr = [b for b in f.closures_of(ii)]
    # .. or the same take-then-call written in the IdleDispatcher impl of a private wrapper type (whatever its name)
    wr += [b for b in f.bodies.values() if (b.impl_trait or "").endswith("IdleDispatcher") and b.name == "dispatch" and any(cs.name == "call_once" for cs in T.calls(b, name=("call_once",), self_kind=("param",)))]
    n3 = 0
    for w in wr:
        for cs in T.calls(w, name=("call_once", "call_mut", "call"), self_kind=("param",)):
            n3 += 1
            tk = [c for c in T.calls(w, name=("take", "replace"))]
            ok = any(T.resolves_to_call(w, cs.args[0], [c.bb]) for c in tk)
            ck.verdict(ok and cs.name == "call_once", "3", "T4-guarded-by", w, "FnOnce-through-Option::take", "the user callback is moved out of its Option before being called (it cannot run twice)", "the user's idle callback is not consumed through Option::take", site=w.where(cs.bb))
    ck.floor("3", "wrapper call sites of the user FnOnce", n3, 1)

    # ---- clause 4: after the events, only on Ok --------------------------------------------------------------
    for q in ("EventLoop::dispatch", "EventLoop::run") + (("EventLoop::block_on",) if ck.has("block_on") else ()):
        b = ck.opt_body(q)
        if b is None:
            ck.anchor_missing("4", "T3-must-precede", q)
            continue
        de = [cs for cs in b.calls() if cs.callee_body() is not None and cs.callee_body().qual == "EventLoop::dispatch_events" and not b.is_cleanup(cs.bb)]
        dd = [cs for cs in b.calls() if cs.callee_body() is not None and cs.callee_body().qual == "EventLoop::dispatch_idles" and not b.is_cleanup(cs.bb)]
        if not dd and b.qual in idle_quals:
            # the idle code is part of this function (inlined): the site that takes the list stands for the call
            dd = [cs for cs in T.calls(b, name=TAKE) if cs.args and T.path_has(b, cs.args[0], ".idles") and not b.is_cleanup(cs.bb)]
        if (not de or not dd) and q != "EventLoop::dispatch":
            # delegation to EventLoop::dispatch (which is checked above) on every iteration is the same sequence
            dsp = [cs for cs in b.calls() if cs.callee_body() is not None and cs.callee_body().qual == "EventLoop::dispatch" and not b.is_cleanup(cs.bb)]
            if dsp:
                ck.ok("4", "T3-must-precede", b, "idles-after-events", "%s runs its iterations through EventLoop::dispatch (events, then idles on Ok)" % q, site=b.where(dsp[0].bb))
                continue
        if not de or not dd:
            ck.violation("4", "T3-must-precede", b, "idles-after-events", "%s does not run dispatch_events followed by dispatch_idles" % q, site=b.where())
            continue
        ok_e, err_e, direct = T.result_split(b, de[0].bb)
        ck.verdict(bool(ok_e) and all(T.reachable_only_via(b, x.bb, ok_e, frm=[de[0].bb]) and b.dominates(de[0].bb, x.bb) for x in dd), "4", "T3-must-precede", b, "idles-only-on-Ok-of-events", "idles run only after dispatch_events returned Ok", "idle callbacks can run although event dispatching failed (or before it)", site=b.where(dd[0].bb))
        bad = T.t2_all_exits(b, [x for _, x in ok_e], [x.bb for x in dd], exits=set(b.return_blocks()) | {de[0].bb}) if ok_e else [0]
        ck.verdict(bad is None, "4", "T2-all-exits", b, "Ok-of-events=>idles", "every successful event dispatch is followed by the idles", "a successful dispatch can finish without running the idle callbacks", site=b.where(de[0].bb))

    # ---- clause 5: cancel -------------------------------------------------------------------------------------
    ic = ck.body("5", "Idle::cancel")
    cc = T.calls(ic, name="cancel")
    ck.verdict(bool(cc) and all(T.path_has(ic, c.args[0], ".callback") for c in cc) and T.t2_all_exits(ic, [0], [c.bb for c in cc]) is None, "5", "T6-provenance", ic, "cancel-reaches-shared-slot", "Idle::cancel always calls cancel on the shared callback cell", "Idle::cancel does not reach the shared callback", site=ic.where())
    # the implementation(s) of CancellableIdle::cancel, for whichever private type holds the callback
    ocs = [b for b in f.bodies.values() if (b.impl_trait or "").endswith("CancellableIdle") and b.name == "cancel"]
    if not ocs:
        ck.anchor_missing("5", "T6-provenance", "<Option as CancellableIdle>::cancel")
    for oc in ocs:
        tk = T.calls(oc, name=("take", "replace"))
        st_none = [i for i, j, st in oc.statements() if st["s"] == "assign" and st["pl"]["l"] == 1 and st["pl"]["p"] and st["pl"]["p"][0] == "*" and st["rv"]["r"] == "use" and any(v[1] == "None" for v in T.agg_variant(oc, st["rv"]["o"]))]
        ok = (bool(tk) and all(T.resolves_to_arg(oc, c.args[0], 1) for c in tk) and T.t2_all_exits(oc, [0], [c.bb for c in tk]) is None) or bool(st_none)
        ck.verdict(ok, "5", "T6-provenance", oc, "cancel-empties-slot", "cancel takes the callback out of the slot", "cancel leaves the callback in the slot: a cancelled idle still runs", site=oc.where())
    idle = f.adts.get("sources::Idle")
    if idle is None:
        ck.anchor_missing("5", "T9-layout", "sources::Idle")
    else:
        ck.verdict(not idle["has_drop"], "5", "T9-layout", "sources::Idle", "no-Drop-impl", "Idle has no Drop impl: dropping the handle does not cancel", "Idle has a Drop impl (dropping the handle may cancel the idle)", site="%s:%d" % (idle["span"]["file"], idle["span"]["line"]))
    od = ck.opt_body("<Option as IdleDispatcher>::dispatch")
    if od is not None:
        cbs = T.calls(od, name=("call_mut", "call_once", "call"), self_kind=("param",))
        for cs in cbs:
            sw = [s for s in T.switches_on_expr(od, lambda e: e[0] == "discr")]
            # the variant the callback is taken out of (`Some` of an Option, or the occupied variant of a private enum)
            want = {1}
            names = {e[4:] for r, p_ in od.resolve(cs.args[0]) for e in p_ or () if isinstance(e, str) and e.startswith(" as ")}
            for i_, j_, st_ in od.statements():
                if st_["s"] == "assign" and st_["rv"]["r"] == "use":
                    for e in (op_place(st_["rv"]["o"]) or {}).get("p", ()):
                        if isinstance(e, dict) and "d" in e and e.get("n") in names:
                            want.add(e["d"])
            ok = any(T.reachable_only_via(od, cs.bb, [e for v in want for e in T.discr_edges(od, s, v)]) for s in sw)
            ck.verdict(ok, "5", "T4-guarded-by", od, "runs-only-if-slot-is-Some", "a cancelled (emptied) slot runs nothing", "dispatch runs without testing the slot", site=od.where(cs.bb))
    # ---- shared clauses demonstrated by seeding round 7 (the property broken from a distant module) --------------
    from props import common as _c7
    import importlib as _il
    _m = lambda n: _il.import_module('props.' + n)
    _c7.import_results(ck, _m("C02"), "2", "Poll::poll", "4")  # expired timers belong to the dispatch that collected them (idles run after them)
    _c7.ping_infra(ck, "4")  # a ping abandoned with a failing batch is reported again (level-triggered)

