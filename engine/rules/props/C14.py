"""C14 — before_sleep / before_handle_events: once per dispatch, in order, right events."""
from mir import op_place, place_str
import templates as T
from core import path_descr, AnchorMissing
from props.common import DispatchLoop

LEVEL = "other"
CONFIGS = ["full", "book", "default"]
NOT_DECIDED = [
    "history-level counting ('exactly one call per dispatch') beyond the structural shapes below",
    "the EINTR-with-elapsed-timeout arm of dispatch_events (returns Ok after before_sleep without before_handle_events): polling 3.x retries EINTR inside Poller::wait, a probe could not reach it; it lies on the error edge of the poll and is outside clause 3",
]
EXPLANATION = (
    "Decides on the MIR: (1) the lifecycle set cannot hold duplicates (guarded add / remove-then-add / set type), and a token "
    "that is not listed is always added (the only way past the add is the 'found' edge of a search of the list itself); (2) the set "
    "follows the registration state on every exit of DispatcherInner::register/unregister, error exits included, and its removal "
    "drops exactly the entries equal to the token; (3) protocol order before_sleep-region < poll < before_handle_events-region < "
    "batch loop, every path from the poll's success edge to a return enters the before_handle_events region, and inside each "
    "region every iteration reaches the hook on the dispatcher looked up for the iterated token; (4) synthetic events are pushed "
    "only in the before_sleep loop, drained by the batch loop and never survive into a later dispatch; (5) the iterator handed to "
    "before_handle_events is built from the poll result only and yields only on the same-source test."
)

SET = "sources::AdditionalLifecycleEventsSet"


def set_calls(body, name):
    return [cs for cs in T.calls(body, name=name) if cs.f and cs.f["path"] == SET + "::" + name]


def lifecycle_set_follows(ck, C):
    f = ck.facts
    # ---- clause 2: the set follows the registration state on every exit ---------------------------
    dreg = ck.body(C, "<RefCell<DispatcherInner> as EventDispatcher>::register")
    A = set_calls(dreg, "register")
    R = T.calls(dreg, name="register", trait="EventSource", self_kind=("param", "alias"))
    ck.floor(C, "DispatcherInner::register: set-add and source.register sites", len(A) + len(R), 2)
    for r in R:
        ok_e, err_e, direct = T.result_split(dreg, r.bb)
        starts = [t for _, t in err_e] + ([r.to] if direct else [])
        removed = [e for e in ok_e]
        before = [a for a in A if r.bb in dreg.reachable([a.to] if a.to is not None else [])]
        if not before:
            ck.ok(C, "T2-all-exits", dreg, "failed-register-leaves-no-entry", "the token is added only after the source registered successfully (no add precedes the fallible call)", site=dreg.where(r.bb))
            continue
        U = [u.bb for u in set_calls(dreg, "unregister")]
        bad = T.t2_all_exits(dreg, starts, U, removed_edges=removed) if starts else None
        ck.verdict(bad is None, C, "T2-all-exits", dreg, "failed-register-leaves-no-entry", "every error exit after the add removes the token again", "the token is added to the lifecycle set before the source's register, and an error return leaves it there: the caller empties the slot and the next dispatch hits unreachable!()", site=dreg.where(r.bb), path=path_descr(dreg, bad) if bad else None)
    # reregister: the token is (re)announced only once the source's own reregister succeeded
    drr = ck.opt_body("<RefCell<DispatcherInner> as EventDispatcher>::reregister")
    if drr is None:
        ck.anchor_missing(C, "T3-must-precede", "<RefCell<DispatcherInner> as EventDispatcher>::reregister")
    else:
        A2 = set_calls(drr, "register")
        R2 = T.calls(drr, name="reregister", trait="EventSource", self_kind=("param", "alias"))
        from props import C07 as _C07

        guarded = _C07.reregister_runs_only_when_registered(ck)
        for r in R2:
            ok_e, err_e, direct = T.result_split(drr, r.bb)
            for a in A2:
                if guarded:
                    # reregister only ever runs for a registered source, which register() has listed already: the
                    # announcement is idempotent (C14.1, listed once) wherever it stands
                    ck.ok(C, "T3-must-precede", drr, "set-add-only-after-successful-reregister", "the source's reregister runs only while the source is registered (C07.4), and a registered source is already listed: announcing it again changes nothing, before or after the fallible call", site=drr.where(a.bb))
                    continue
                ck.verdict(bool(ok_e) and not direct and T.reachable_only_via(drr, a.bb, ok_e), C, "T3-must-precede", drr, "set-add-only-after-successful-reregister", "the token is announced to the lifecycle set only on the success edge of the source's reregister", "reregister announces the source to the lifecycle set before its own re-registration has succeeded: a failed update() of a disabled source puts it back into the set, so it receives before_sleep/before_handle_events while disabled", site=drr.where(a.bb))
    # the set is keyed by *registration* tokens (sub-id cleared): every token under which an entry is
    # removed in the batch loop must have its sub-id forgotten, or removal (full equality) misses it
    for b2 in f.bodies.values():
        for cs in T.calls(b2, name="new", path="RegistrationToken::new"):
            if b2.is_cleanup(cs.bb):
                continue
            fs = [c.bb for c in T.calls(b2, name="forget_sub_id")]
            ok = T.resolves_to_call(b2, cs.args[0], fs)
            if not ok and b2.qual == "TokenFactory::registration_token":
                ok = True
            if not ok:
                # the `token` field of a SourceList slot (what `RegistrationToken { inner: slot.token }` reads, too):
                # slot tokens never carry a sub-id (vacant_entry builds them with TokenInner::new / increment_version)
                aps = b2.resolve(cs.args[0])
                ok = bool(aps) and all(r[0] == "call" and ".token" in p and (b2.call_at(r[1]).path or "").startswith("list::SourceList") for r, p in aps)
            if not ok:
                # rebuilt from the `inner` of a RegistrationToken the function was given (sub-id-free by induction)
                aps = b2.resolve(cs.args[0])
                ok = bool(aps) and all(r[0] == "arg" and p and p[-1] == ".inner" and "RegistrationToken" in f.types[f.peel_refs(b2.local_ty(r[1]))]["s"] for r, p in aps)
            ck.verdict(ok, C, "T6-provenance", b2, "RegistrationToken::new(sub-id-free)", "registration tokens are built from a token whose sub-id was cleared", "a RegistrationToken is built from a token that still carries a sub-id: the lifecycle set compares whole tokens, so an entry registered under sub-id 0 is not removed (a disabled/removed multi-token source keeps receiving its hooks; unreachable!() after removal)", site=b2.where(cs.bb))
    # an entry leaves the set only when the source is unregistered: a (re)registration that fails - the source is already
    # enabled and the poller answers EEXIST, an update() is refused - leaves an enabled source enabled, hooks included
    for q_ in ("<RefCell<DispatcherInner> as EventDispatcher>::register", "<RefCell<DispatcherInner> as EventDispatcher>::reregister"):
        b_ = ck.opt_body(q_)
        if b_ is None:
            continue
        rm = [c for v_ in [b_] + ([f.deep_view(b_, lambda cb_: True)] if hasattr(f, "deep_view") else []) for c in set_calls(v_, "unregister")] + [c for c in T.calls(b_, name=("retain", "remove", "swap_remove", "clear", "truncate", "pop")) if T.path_has(b_, c.args[0], ".values")]
        ck.verdict(not rm, C, "T7-who-may-call", b_, "set-removal-only-in-unregister", "%s never removes an entry from the lifecycle set" % q_.rsplit("::", 1)[1], "%s removes the source's entry from the lifecycle set (on a failed %s): an enabled source whose redundant enable() / refused update() fails stays registered but silently loses its before_sleep / before_handle_events hooks" % (q_, q_.rsplit("::", 1)[1]), site=b_.where(rm[0].bb) if rm else b_.where())
    # adds after success must be on the success edge only (T3, edge specific)
    dunreg = ck.body(C, "<RefCell<DispatcherInner> as EventDispatcher>::unregister")
    tb = T.calls(dunreg, name=("try_borrow_mut", "borrow_mut"), path="RefCell")
    U = [u.bb for u in set_calls(dunreg, "unregister")]
    if not tb or not U:
        ck.anchor_missing(C, "T2-all-exits", "DispatcherInner::unregister: borrow and set removal")
    else:
        for t in tb:
            ok_e, err_e, _ = T.result_split(dunreg, t.bb)
            starts = [x for _, x in ok_e] if ok_e else [t.to]
            flag_false = []
            # the opt-in: a bool field of DispatcherInner that nothing but the constructor writes (it holds
            # S::NEEDS_EXTRA_LIFECYCLE_EVENTS), whatever it is called
            dadt = next((a for pth, a in f.adts.items() if pth.endswith("::DispatcherInner") or pth == "sources::DispatcherInner"), None)
            optin = [fl["name"] for v_ in (dadt or {}).get("variants", []) for fl in v_.get("fields", []) if fl.get("ty") is not None and f.types[fl["ty"]]["s"] == "bool" and not any(T.stores_to_field(b_, fl["name"]) for b_ in f.bodies.values())]
            for sw in T.switches_on_expr(dunreg, lambda e: (e[0] == "place" and any("." + n_ in e[1] for n_ in optin)) or (e[0] == "const" and "NEEDS_EXTRA_LIFECYCLE_EVENTS" in str(e[1]))):
                flag_false += T.edges_of_value(dunreg, sw, False)
            from props import C07 as _C07u

            if _C07u.reregister_runs_only_when_registered(ck):
                # with an exact 'registered' flag (C07.4) a source that is not registered is not listed: leaving on the
                # 'not registered' edge of that flag drops nothing that is there
                flag_false += _C07u.state_flag_edges(ck, dunreg, False)
            bad = T.t2_all_exits(dunreg, starts, U, removed_edges=flag_false)
            ck.verdict(bad is None, C, "T2-all-exits", dunreg, "unregister-always-drops-entry", "every path on which the dispatcher could be borrowed removes the token from the set (unless the source never opted in), including the path on which the source's own unregister fails", "a path returns from unregister with the token still in the lifecycle set (the source's unregister failed before the set was updated): the callers empty the slot regardless and the next dispatch hits unreachable!()", site=dunreg.where(t.bb), path=path_descr(dunreg, bad) if bad else None)
    sunreg = ck.body(C, "AdditionalLifecycleEventsSet::unregister")
    rets = T.calls(sunreg, name="retain")
    if rets:
        for cs in rets:
            cbs = T.closure_bodies_passed(sunreg, cs)
            ok = False
            for cb in cbs:
                for c2 in T.calls(cb, name=("ne", "eq")):
                    # the closure's return value is ne(..) or !eq(..)
                    e = None
                    for i, j, st in cb.statements():
                        if st["pl"]["l"] == 0 and st["s"] == "assign":
                            e = cb.expr(st["rv"]["o"]) if st["rv"]["r"] == "use" else (("not", cb.expr(st["rv"]["a"])) if st["rv"]["r"] == "un" else None)
                    if c2.dest["l"] == 0:
                        e = ("call", c2.bb)
                    neg = False
                    while e and e[0] == "not":
                        neg = not neg
                        e = e[1]
                    if e == ("call", c2.bb) and ((c2.name == "ne") != neg):
                        if any(T.path_has(cb, a, ".token") for a in c2.args) and any(T.resolves_to_arg(cb, a, 2) for a in c2.args):
                            ok = True
            ck.verdict(ok, C, "T6-provenance", sunreg, "retain-keeps-iff-different", "removal keeps exactly the entries different from the token", "the retain predicate of the lifecycle set is not `entry != token`", site=sunreg.where(cs.bb))
    else:
        rm = T.calls(sunreg, name=("remove", "swap_remove", "take"))
        if not rm:
            ck.anchor_missing(C, "T6-provenance", "removal from the lifecycle set")
        else:
            ck.undecided(C, "T6-provenance", sunreg, "removal-idiom", "removal is not a retain(); shape not recognised, counted as undecided")



def run(ck):
    f = ck.facts
    # ---- clause 1: no duplicates -----------------------------------------------------------------
    reg = ck.body("1", "AdditionalLifecycleEventsSet::register")
    adt = f.adts.get(SET)
    container = f.types[adt["variants"][0]["fields"][0]["ty"]] if adt else None
    is_set = container is not None and container.get("path", "").split("::")[-1] in ("HashSet", "BTreeSet", "IndexSet")
    adds = [cs for cs in T.calls(reg, name=("push", "push_back", "insert", "extend", "push_front")) if T.path_has(reg, cs.args[0], ".values")]
    if is_set:
        ck.ok("1", "T9-layout", reg, "container-is-a-set", "the lifecycle set is a set type (%s): duplicates are impossible" % container["s"])
    elif not adds:
        ck.anchor_missing("1", "T4-guarded-by", "insertion into the lifecycle set")
    else:
        for cs in adds:
            ok = False
            why = ""
            for g in T.calls(reg, name=("contains", "any", "position", "find", "binary_search")):
                if not T.path_has(reg, g.args[0], ".values"):
                    continue
                if g.name == "contains":
                    tr, fa = T.bool_split(reg, g.bb)
                    if fa and T.reachable_only_via(reg, cs.bb, fa):
                        ok, why = True, "the add is guarded by a failed membership test"
                else:
                    tr, fa = T.bool_split(reg, g.bb)
                    some, none = T.option_split(reg, g.bb)
                    if (fa and T.reachable_only_via(reg, cs.bb, fa)) or (none and T.reachable_only_via(reg, cs.bb, none)):
                        ok, why = True, "the add is guarded by a failed search"
            rem = [r.bb for r in T.calls(reg, name=("retain", "remove", "swap_remove")) if T.path_has(reg, r.args[0], ".values")] + [r.bb for r in set_calls(reg, "unregister")]
            if not ok and rem and T.t3_dominated_by_any(reg, cs.bb, rem):
                ok, why = True, "the add is preceded on every path by removal of the same token"
            ck.verdict(ok, "1", "T4-guarded-by", reg, "add-is-deduplicated", why, "the token is appended unconditionally: every (re)registration of a source adds another entry, so its hooks run more than once per dispatch", site=reg.where(cs.bb))

    # .. and a token that is not listed yet always gets listed: the only way past the add is the 'already contained'
    # edge of a membership test of the whole token on the list itself (a side index keyed by something coarser - the
    # slot - answers "known" for the successor of a source whose removal is still deferred, which is then never listed)
    if not is_set and adds:
        known_edges = []
        for g in T.calls(reg, name=("contains",)):
            if not T.path_has(reg, g.args[0], ".values") or len(g.args) < 2:
                continue
            if not any(r_ == ("arg", 2) and all(e in ("&", "*") for e in p_) for r_, p_ in reg.resolve(g.args[1])):
                continue
            tr, fa = T.bool_split(reg, g.bb)
            known_edges += list(tr)
        for g in T.calls(reg, name=("any", "position", "find", "binary_search")):
            # a search of the list itself (the comparison it makes is the subject of C20 / the dedupe rule above)
            if T.path_has(reg, g.args[0], ".values") or any(T.path_has(reg, c_.args[0], ".values") for c_ in T.calls(reg, name=("iter",)) if T.resolves_to_call(reg, g.args[0], [c_.bb])):
                tr, fa = T.bool_split(reg, g.bb)
                some, none = T.option_split(reg, g.bb)
                known_edges += list(tr) + list(some)
        bad = T.t2_all_exits(reg, [0], [cs.bb for cs in adds], removed_edges=known_edges)
        ck.verdict(bad is None, "1", "T2-all-exits", reg, "unlisted-token=>added", "every path through register appends the token, except the 'already listed' edge of `values.contains(&token)`", "AdditionalLifecycleEventsSet::register can return without listing a token that is not in the list (an early return decided by something else than the list itself): the source never receives before_sleep / before_handle_events", site=reg.where(), path=path_descr(reg, bad) if bad else None)

    lifecycle_set_follows(ck, "2")
    from props import common as _common, C06

    _common.dispatch_infra(ck, "2")
    _common.import_results(ck, C06, "2", "dispatch_events", "2")

    # ---- clause 3: protocol order --------------------------------------------------------------
    dl = DispatchLoop(ck, "3")
    b = dl.body
    bs = T.calls(b, name="before_sleep", trait="EventDispatcher", self_kind=("dyn",))
    bh = T.calls(b, name="before_handle_events", trait="EventDispatcher", self_kind=("dyn",))
    polls = [cs for cs in T.calls(b, name="poll") if cs.f["path"] == "sys::Poll::poll"]
    if len(bs) != 1 or len(bh) != 1 or len(polls) != 1:
        ck.anchor_missing("3", "T3-order", "before_sleep / poll / before_handle_events sites", "found %d/%d/%d" % (len(bs), len(polls), len(bh)))
        raise AnchorMissing("hooks")
    bs, bh, poll = bs[0], bh[0], polls[0]
    loops = b.loops()

    def region(cs):
        best = None
        for h, blocks in loops.items():
            if cs.bb in blocks:
                hc = b.call_at(h)
                if hc is not None and hc.name == "next" and (best is None or len(blocks) < len(best[1])):
                    best = (h, blocks)
        return best

    r1, r2 = region(bs), region(bh)
    if r1 is None or r2 is None:
        ck.anchor_missing("3", "T3-order", "hook loops")
        raise AnchorMissing("hook loops")
    # (.. except when there is nothing to iterate: the set of lifecycle sources was found empty)
    empty_e = []
    for c in T.calls(b, name="is_empty"):
        if not b.is_cleanup(c.bb) and c.args and (T.path_has(b, c.args[0], ".values") or T.path_has(b, c.args[0], ".sources_with_additional_lifecycle_events")):
            tr_, fa_ = T.bool_split(b, c.bb)
            empty_e += tr_
    dom_ok = b.dominates(r1[0], poll.bb) or (bool(empty_e) and poll.bb not in b.reachable([0], removed_blocks={r1[0]}, removed_edges=set(empty_e)))
    ck.verdict(dom_ok, "3", "T3-must-precede", b, "before_sleep-region<poll", "the before_sleep loop dominates the poll", "the poll can be reached without going through the before_sleep loop", site=b.where(poll.bb))
    ck.verdict(b.dominates(poll.bb, r2[0]), "3", "T3-must-precede", b, "poll<before_handle_events-region", "the poll dominates the before_handle_events loop", "before_handle_events can run without a preceding poll", site=b.where(r2[0]))
    ck.verdict(poll.bb not in r1[1] and poll.bb not in r2[1] and not (r1[1] & r2[1]), "3", "T3-must-precede", b, "regions-disjoint", "the two hook loops and the poll are disjoint", "the hook loops overlap or contain the poll", site=b.where(poll.bb))
    # every path from the poll's success edge to the batch loop / a return enters the region
    ok_e, err_e, _ = T.result_split(b, poll.bb)
    bypass = []
    for cs in T.calls(b, name="is_empty"):
        if T.path_has(b, cs.args[0], ".values") or T.path_has(b, cs.args[0], ".sources_with_additional_lifecycle_events"):
            tr, fa = T.bool_split(b, cs.bb)
            bypass += tr
    starts = [x for _, x in ok_e]
    if not starts:
        ck.anchor_missing("3", "T2-all-exits", "success edge of Poll::poll")
    else:
        bad = T.t2_all_exits(b, starts, [r2[0]], exits=set(b.return_blocks()) | {dl.header}, removed_edges=bypass)
        ck.verdict(bad is None, "3", "T2-all-exits", b, "poll-ok=>before_handle_events-region", "every path from a successful poll to the batch loop or to a return enters the before_handle_events loop (or skips it only because the lifecycle set is empty)", "a path from a successful poll reaches the batch loop / a return without running the before_handle_events hooks", site=b.where(poll.bb), path=path_descr(b, bad) if bad else None)
    # inside each region: every iteration reaches the hook on the dispatcher looked up for its token
    for name, (h, blocks), hook in (("before_sleep", r1, bs), ("before_handle_events", r2, bh)):
        some, none = T.option_split(b, h)
        starts = [x for _, x in some]
        bad = T.t2_all_exits(b, starts, [hook.bb], exits={h}) if starts else None
        ck.verdict(bool(starts) and bad is None, "3", "T2-all-exits", b, "each-entry=>%s" % name, "every iteration over the lifecycle set calls %s (or panics)" % name, "an iteration over the lifecycle set can skip the %s call" % name, site=b.where(hook.bb), path=path_descr(b, bad) if bad else None)
        gets = [cs for cs in T.calls(b, name="get", path="SourceList") if cs.bb in blocks]
        okr = any(T.resolves_to_call(b, hook.args[0], [g.bb]) for g in gets)
        okt = any(T.resolves_to_call(b, g.args[1], [h]) for g in gets)
        ck.verdict(okr and okt, "3", "T6-provenance", b, "%s/receiver-is-looked-up-by-iterated-token" % name, "the hook's receiver is the dispatcher looked up with the iterated token", "the hook is not called on the dispatcher looked up for the iterated token", site=b.where(hook.bb))
        # the iterated collection is the lifecycle set
        hc = b.call_at(h)
        ck.verdict(T.path_has(b, hc.args[0], ".values"), "3", "T6-provenance", b, "%s/iterates-lifecycle-set" % name, "the loop iterates the lifecycle set", "the hook loop does not iterate the lifecycle set: %s" % b.roots_str(hc.args[0]), site=b.where(h))

    # ---- clause 4: synthetic events -----------------------------------------------------------------
    SE = ".synthetic_events"
    pushes = []
    for body in f.bodies.values():
        for cs in T.calls(body, name=("push", "extend", "insert", "append", "push_back")):
            if T.path_has(body, cs.args[0], SE):
                pushes.append((body, cs))
    ck.floor("4", "pushes to synthetic_events", len(pushes), 1)
    for body, cs in pushes:
        ck.verdict(body.key == b.key and cs.bb in r1[1], "4", "T7-who-may-write", body, "push-synthetic-only-in-before_sleep-loop", "synthetic events are queued only inside the before_sleep loop", "a synthetic event is queued outside the before_sleep loop", site=body.where(cs.bb))
        if body.key == b.key:
            some, none = T.option_split(b, bs.bb)
            # through `?`: the Some edge is on the discriminant of the unwrapped Option
            ck.verdict(bool(some) and T.reachable_only_via(b, cs.bb, some), "4", "T4-guarded-by", b, "push-only-if-before_sleep-returned-Some", "the push is reachable only when before_sleep returned Some", "a synthetic event is queued although before_sleep did not return one", site=b.where(cs.bb))
            ck.verdict(T.path_has(b, cs.args[1], ".readiness") or T.resolves_to_call(b, cs.args[1], [bs.bb]) or any(r[0] == "agg" for r in T.roots_of(b, cs.args[1])), "4", "T6-provenance", b, "pushed-event-is-the-hook's", "the queued event is built from before_sleep's return value", "the queued event is not the one returned by before_sleep", site=b.where(cs.bb), nontrivial=True)
    # consumed by the batch loop: the iterated chain starts with drain(synthetic_events) and continues with the poll result
    drains = [cs for cs in T.calls(b, name=("drain", "take", "split_off")) if T.path_has(b, cs.args[0], SE)]
    it_roots = T.roots_of(b, dl.next_cs.args[0])
    chain = [cs for cs in T.calls(b, name="chain") if ("call", cs.bb) in it_roots]
    if chain:
        c = chain[0]
        ck.verdict(T.resolves_to_call(b, c.args[0], [d.bb for d in drains]) and T.resolves_to_call(b, c.args[1], [poll.bb]), "4", "T6-provenance", b, "batch=drain(synthetic)+polled", "the batch loop iterates the drained synthetic events followed by the polled events", "the batch loop does not iterate drain(synthetic_events) chained with the poll result", site=b.where(c.bb))
    else:
        ck.violation("4", "T6-provenance", b, "batch=drain(synthetic)+polled", "the batch loop does not iterate a chain of the synthetic and the polled events: %s" % b.roots_str(dl.next_cs.args[0]), site=b.where(dl.header))
    # batch integrity: once the poll has returned, neither event collection is edited before (or while) the batch loop
    # consumes it - no event is dropped, merged into another one ("dispatch once per token/source") or has its readiness
    # rewritten. The only consumers are the drain / the by-value iteration of the batch loop and the read-only
    # EventIterator handed to before_handle_events.
    EDIT = ("retain", "retain_mut", "remove", "swap_remove", "truncate", "dedup", "dedup_by", "dedup_by_key", "iter_mut", "get_mut", "first_mut", "last_mut", "sort", "sort_by", "sort_by_key", "sort_unstable_by_key", "reverse", "pop", "insert", "split_off", "extract_if", "as_mut_slice", "swap")
    after_poll = b.reachable([poll.to]) if poll.to is not None else set()
    views = [b] + [c for c in f.closures_of(b)]
    edits = []
    for v in views:
        for cs in v.calls():
            if v.is_cleanup(cs.bb) or not cs.args or cs.name not in EDIT:
                continue
            if v is b and cs.bb not in after_poll:
                continue
            pl0 = op_place(cs.args[0])
            ts = f.types[f.peel_refs(pl0["t"])]["s"] if pl0 is not None else ""
            if "PollEvent" in ts:
                edits.append((v, cs))
        for i, j, st in v.statements():
            if st["s"] == "assign" and st["pl"]["p"] and not v.is_cleanup(i) and (v is not b or i in after_poll):
                names = [p_["n"] for p_ in st["pl"]["p"] if isinstance(p_, dict) and "f" in p_]
                if names and names[-1] in ("readable", "writable", "error", "token", "readiness") and ("readiness" in names or names[-1] in ("token", "readiness")):
                    base_ty = f.types[f.peel_refs(v.local_ty(st["pl"]["l"]))]["s"]
                    if "PollEvent" in base_ty or "Readiness" in base_ty:
                        edits.append((v, None, i))
    if edits:
        for e in edits[:4]:
            v = e[0]
            what = e[1].name if e[1] is not None else "store"
            ck.violation("4", "T7-who-may-write", v, "batch-edited-after-poll:%s" % what, "the collected events are edited (%s) between the poll and their dispatch: an event can be dropped or merged into another one (its sub-token, and with edge / one-shot registrations its readiness, is lost) or delivered with a readiness the poller never reported" % what, site=v.where(e[1].bb if e[1] is not None else e[2]))
    else:
        ck.ok("4", "T7-who-may-write", b, "batch-not-edited-after-poll", "between the poll and the batch loop nothing edits the synthetic or the polled events", site=b.where(poll.bb))
    # never carried into a later dispatch
    empt = [cs for cs in T.calls(b, name=("clear", "truncate", "drain", "take")) if T.path_has(b, cs.args[0], SE)]
    first_push = [cs for body, cs in pushes if body.key == b.key]
    clear_first = [e for e in empt if all(b.dominates(e.bb, p.bb) for p in first_push) and e.bb not in r1[1]]
    # .. and every *reader* of the queue in this dispatch (the drain of the batch loop, an `is_empty()` that decides the
    # timeout): a leftover that can be read on a path around the clearing site is delivered - or forces a zero wait -
    # in a later dispatch although nothing queued it there
    readers = [cs for cs in b.calls() if not b.is_cleanup(cs.bb) and cs.args and T.path_has(b, cs.args[0], SE) and cs.name not in ("push", "clear", "truncate") and cs.bb not in {e.bb for e in clear_first}]
    stray = [cs for cs in readers if clear_first and not any(b.dominates(e.bb, cs.bb) for e in clear_first)]
    if clear_first and stray:
        ck.violation("4", "T3-must-precede", b, "synthetic-queue-emptied-before-first-push", "the queue is read (%s at %s) on a path that does not pass the site that discards the leftovers of a failed dispatch: a stale synthetic event is delivered, or forces a zero timeout, in a dispatch that queued nothing" % (stray[0].name, b.where(stray[0].bb)), site=b.where(clear_first[0].bb))
    elif clear_first:
        ck.ok("4", "T3-must-precede", b, "synthetic-queue-emptied-before-first-push", "the queue is emptied on a site that dominates every push of the dispatch (leftovers of a failed dispatch are discarded)", site=b.where(clear_first[0].bb))
    else:
        worst = None
        for p in first_push:
            bad = T.t2_all_exits(b, [p.to], [e.bb for e in empt if e.name != "drain" or True])
            # a drain() only empties the queue if its iterator is run to completion or dropped: accept it as emptying
            if bad is not None:
                worst = bad
        ck.verdict(worst is None, "4", "T2-all-exits", b, "synthetic-queue-emptied-on-every-exit", "every exit after a push empties the queue", "an exit taken after a synthetic event was queued (a later source's before_sleep or the poll failing) leaves it in the queue; the next dispatch delivers it again", site=b.where(first_push[0].bb) if first_push else None, path=path_descr(b, worst) if worst else None)

    # ---- clause 5: real events only --------------------------------------------------------------------
    aggs = [(i, j, st) for i, j, st in b.statements() if st["s"] == "assign" and st["rv"]["r"] == "agg" and st["rv"].get("adt") == "loop_logic::EventIterator"]
    ck.floor("5", "EventIterator constructions", len(aggs), 1)
    for i, j, st in aggs:
        rv = st["rv"]
        fld = dict(zip(rv["field_names"], rv["fields"]))
        inner = fld.get("inner")
        ok = inner is not None and T.resolves_to_call(b, inner, [poll.bb]) and not T.path_has(b, inner, SE)
        ck.verdict(ok, "5", "T6-provenance", b, "iterator-over-polled-events-only", "the iterator given to before_handle_events is built from the poll result, not from the synthetic queue", "the iterator given to before_handle_events is not built from the poll result alone: %s" % (b.roots_str(inner) if inner else "?"), site=b.where(i))
        rt = fld.get("registration_token")
        ck.verdict(rt is not None and T.resolves_to_call(b, rt, [r2[0]]), "5", "T6-provenance", b, "iterator-filters-by-iterated-token", "the iterator filters by the token of the source being notified", "the iterator's filter token is not the iterated lifecycle token", site=b.where(i))
    nx = ck.body("5", "<EventIterator as Iterator>::next")
    ssa = T.calls(nx, name="same_source_as")
    somes = [(i, j, st) for i, j, st in nx.statements() if st["s"] == "assign" and st["pl"]["l"] in T.ret_locals(nx) and st["rv"]["r"] == "agg" and st["rv"].get("variant") == "Some" and not nx.is_cleanup(i)]
    finds = [cs for cs in T.calls(nx, name="find") if (cs.trait or "") == "std::iter::Iterator" and not nx.is_cleanup(cs.bb) and T.path_has(nx, cs.args[0], ".inner")]
    if finds and not ssa:
        # the same filter spelled self.inner.find(|e| e.token.inner.same_source_as(wanted)).map(..)
        from props import common as _c

        for fd in finds:
            ok = T.tainted_by_call(nx, {"c": {"l": 0, "p": [], "t": 0}}, [fd.bb])
            f_some, f_none = T.option_split(nx, fd.bb)
            # a yield built in next() itself (`.map(|e| (e.readiness, e.token))`) sits on the Some edge of find()
            ok = ok and all(bool(f_some) and T.reachable_only_via(nx, i, f_some) for i, j, st in somes)
            preds = T.closure_bodies_passed(nx, fd)
            ok = ok and bool(preds)
            for cb in preds:
                g = [c for c in T.calls(cb, name="same_source_as") if not cb.is_cleanup(c.bb)]
                caps = _c.closure_captures(nx, cb)
                returned = bool(g) and all(not c.dest["p"] and c.dest["l"] in T.ret_locals(cb) for c in g) and T.t2_all_exits(cb, [0], [c.bb for c in g]) is None
                tok = any(T.path_has(cb, a, "." + n) and any(".registration_token" in pth for r, pth in aps) for c in g for a in c.args for n, (loc, aps, _) in caps.items())
                ok = ok and returned and tok
            ck.verdict(ok, "5", "T4-guarded-by", nx, "yield-only-if-same-source", "next() yields what Iterator::find returns for the predicate same_source_as(registration_token)", "EventIterator::next can yield an event of another source", site=nx.where(fd.bb))
    elif not ssa or not somes:
        ck.anchor_missing("5", "T4-guarded-by", "EventIterator::next: same_source_as test and Some(..) yield")
    else:
        for i, j, st in somes:
            ok = False
            for g in ssa:
                tr, fa = T.bool_split(nx, g.bb)
                if tr and T.reachable_only_via(nx, i, tr) and any(T.path_has(nx, a, ".registration_token") for a in g.args):
                    ok = True
            ck.verdict(ok, "5", "T4-guarded-by", nx, "yield-only-if-same-source", "an event is yielded only on the true edge of same_source_as(registration_token)", "EventIterator::next can yield an event of another source", site=nx.where(i))
    # .. and all of them: next() answers None only once the underlying iterator is exhausted (the events of one source
    # need not be adjacent in the batch: those of another source, or expired timers, can sit between them)
    nones = [(i, j, st) for i, j, st in nx.statements() if st["s"] == "assign" and st["pl"]["l"] in T.ret_locals(nx) and st["rv"]["r"] == "agg" and st["rv"].get("variant") == "None" and not nx.is_cleanup(i)]
    inner_next = [cs for cs in nx.calls() if cs.name == "next" and (cs.trait or "").endswith("Iterator") and not nx.is_cleanup(cs.bb) and cs.args and (T.path_has(nx, cs.args[0], ".inner") or any(T.path_has(nx, c2.args[0], ".inner") for r_, p_ in nx.resolve(cs.args[0]) if r_[0] == "call" for c2 in [nx.call_at(r_[1])] if c2.args))]
    if nones and inner_next:
        exh = []
        for cs in inner_next:
            s_, n_ = T.option_split(nx, cs.bb)
            exh += n_
        for i, j, st in nones:
            ck.verdict(bool(exh) and T.reachable_only_via(nx, i, exh), "5", "T4-guarded-by", nx, "None-only-when-exhausted", "next() returns None only on the edge where the underlying iterator returned None", "EventIterator::next can return None before the underlying iterator is exhausted: later events of the same source (the batch is not grouped by source) are missing from what before_handle_events sees", site=nx.where(i))
    # ---- shared clauses demonstrated by seeding round 7 (the property broken from a distant module) --------------
    from props import common as _c7
    import importlib as _il
    _m = lambda n: _il.import_module('props.' + n)
    _c7.import_results(ck, _m("C20"), "4", "increment_version", "2")
    _c7.import_results(ck, _m("C01"), "4", None, "2")
    # ---- shared clause demonstrated by the twin round (seeding round 10) ---------------------------------------------
    from props import common as _c10
    import importlib as _il10
    _c10.import_results(ck, _il10.import_module("props.C12"), "2", "dispatch_events", "4")  # a queued synthetic event forces the non-blocking wait (the zero timeout follows every source's answer, not the last one's)
