"""C15 — failed registrations and failing sources leave the loop intact."""
from mir import op_place, place_str
import templates as T
from core import path_descr, AnchorMissing
from props.common import DispatchLoop
from props import C14

LEVEL = "other"
CONFIGS = ["full", "book", "default"]
NOT_DECIDED = ["behaviour of the loop after arbitrary fault sequences (only the error-exit shapes below are decided)", "failures inside user-written sources"]
EXPLANATION = (
    "Decides on the MIR: (1) register_dispatcher clears the slot on every error exit after the slot store and insert_source "
    "hands the source back through into_source_inner; (2) Async::new, the sibling of (1), clears its slot and restores the "
    "blocking mode on every error exit after it changed them; (3) the lifecycle set follows failed (un)registrations (shared with "
    "C14.2); (4) Generic::register/reregister record poller/token only on the success edge of the poller call; (5) the batch loop "
    "of dispatch_events has no exit other than exhaustion (each early exit is reported with the callee whose error causes it); "
    "(6) no registration-type error is swallowed or turned into a panic outside a frozen table of deliberate discards."
)

ERR_TYPES = ("error::Error", "futures_io::Error", "std::io::Error", "nix::errno::Errno", "rustix::io::Errno", "error::InsertError")

# (function, callee item name) -> reason. Deliberate discards / panics, confirmed by reading.
DISCARD_TABLE = {
    ("Async::new", "set_nonblocking"): "best-effort restore of the blocking mode on the error path; the original error is returned",
    ("<Readable as Future>::poll", "register_waker"): "Future::poll cannot report the error; the task stays pending (documented limitation)",
    ("<Writable as Future>::poll", "register_waker"): "Future::poll cannot report the error; the task stays pending (documented limitation)",
    ("<Async as Drop>::drop", "set_nonblocking"): "Drop cannot report errors",
    ("<EventLoopWaker as Wake>::wake", "notify"): "a waker cannot report errors",
    ("<EventLoopWaker as Wake>::wake_by_ref", "notify"): "a waker cannot report errors",
    ("LoopSignal::wakeup", "notify"): "wakeup() returns (); notification failure is not reportable",
    ("Generic::unwrap", "delete"): "the fd may legitimately not be registered any more",
    ("<Generic as Drop>::drop", "delete"): "Drop cannot report errors",
    ("sources::channel::channel", "make_ping"): "documented: channel() panics if the eventfd cannot be created (API returns no Result)",
    ("sources::channel::sync_channel", "make_ping"): "documented: sync_channel() panics if the eventfd cannot be created",
    ("TimeoutFuture::*", "insert_source"): "a Timer's register cannot fail (it only touches the wheel); frozen exception for the constructors of TimeoutFuture (whichever private helper they share)",
}


def none_store_blocks(body):
    out = []
    for i, j, st in T.stores_to_field(body, "source"):
        if st["rv"]["r"] == "use" and any(v[1] == "None" for v in T.agg_variant(body, st["rv"]["o"])):
            out.append(i)
    return out


def slot_clearing_sites(body):
    """blocks that clear a source slot: direct `x.source = None` stores and calls to local
    functions all of whose ... contain such a store (kill)"""
    out = list(none_store_blocks(body))
    for cs in body.calls():
        cb = cs.callee_body()
        if cb is not None and cb.key != body.key and none_store_blocks(cb):
            out.append(cs.bb)
        elif cb is None:
            # a call through `&dyn IoLoopInner`: every implementation it can reach clears the slot
            from props import common as _cm

            tg = _cm.callee_bodies(cs)
            if tg and all(none_store_blocks(t) for t in tg):
                out.append(cs.bb)
    return out


def run(ck):
    f = ck.facts
    # ---- clause 1: register_dispatcher ------------------------------------------------------------
    rd = ck.body("1", "LoopHandle::register_dispatcher")
    some_stores = [i for i, j, st in T.stores_to_field(rd, "source") if st["rv"]["r"] == "use" and any(v[1] == "Some" for v in T.agg_variant(rd, st["rv"]["o"]))]
    # the same store spelled `slot.source.insert(..)` / `.replace(..)`
    some_stores += [cs.bb for cs in T.calls(rd, name=("insert", "replace", "get_or_insert", "get_or_insert_with"), path="std::option::Option") if not rd.is_cleanup(cs.bb) and T.path_has(rd, cs.args[0], ".source")]
    regs = T.calls(rd, name="register", trait="EventDispatcher", self_kind=("dyn",))
    ck.floor("1", "register_dispatcher: slot store + register call", len(some_stores) + len(regs), 2)
    for r in regs:
        ok_e, err_e, direct = T.result_split(rd, r.bb)
        starts = [x for _, x in err_e] + ([r.to] if direct else [])
        if not starts:
            ck.anchor_missing("1", "T2-all-exits", "error edge of register in register_dispatcher")
            continue
        bad = T.t2_all_exits(rd, starts, slot_clearing_sites(rd), removed_edges=ok_e)
        if bad is not None and some_stores and ok_e and all(T.reachable_only_via(rd, i, ok_e) for i in some_stores):
            bad = None  # the slot is filled only after the registration succeeded: nothing to clear on the error exit
        ck.verdict(bad is None, "1", "T2-all-exits", rd, "register-failed=>slot-cleared", "every error exit after the slot store clears the slot again", "register_dispatcher can return the registration error with the rejected dispatcher still in its slot (leaked slot; into_source_inner panics; later events reach a source that was never inserted)", site=rd.where(r.bb), path=path_descr(rd, bad) if bad else None)
    ins = ck.body("1", "LoopHandle::insert_source")
    me = T.calls(ins, name="map_err")
    ok = False
    for cs in me:
        for cb in T.closure_bodies_passed(ins, cs):
            if T.calls(cb, name="into_source_inner"):
                ok = True
    if not ok:
        # alternative spelling: a match on the result in insert_source itself
        ok = bool(T.calls(ins, name="into_source_inner"))
    ck.verdict(ok, "1", "T6-provenance", ins, "error=>source-handed-back", "on failure the source is recovered with into_source_inner and returned in the InsertError", "insert_source does not hand the rejected source back", site=ins.where())

    # ---- clause 2: Async::new ------------------------------------------------------------------------
    an = ck.body("2", "Async::new")
    regs = [cs for cs in an.calls() if cs.name == "register" and ((cs.trait or "").endswith("IoLoopInner") or (cs.f.get("impl_trait") or "").endswith("IoLoopInner") or (cs.resolved and "IoLoopInner" in cs.resolved["path"]))]
    snb = T.calls(an, name="set_nonblocking")
    from props import common as _cm2

    on_val = _cm2.nonblocking_on_value(ck.facts) or ("const", 1)
    first_snb = [cs for cs in snb if _cm2.payload_value(an, cs.args[1]) == on_val]
    ck.floor("2", "Async::new: IoLoopInner::register and set_nonblocking(true)", len(regs) + len(first_snb), 2)
    for r in regs:
        ok_e, err_e, direct = T.result_split(an, r.bb)
        starts = [x for _, x in err_e] + ([r.to] if direct else [])
        if not starts:
            ck.anchor_missing("2", "T2-all-exits", "error edge of IoLoopInner::register in Async::new")
            continue
        bad = T.t2_all_exits(an, starts, slot_clearing_sites(an), removed_edges=ok_e)
        ck.verdict(bad is None, "2", "T2-all-exits", an, "register-failed=>slot-cleared", "every error exit after the slot store frees the slot", "a rejected adapt_io leaks its slot: the error is returned with the dispatcher still stored in the source list", site=an.where(r.bb), path=path_descr(an, bad) if bad else None)
        restores = [cs.bb for cs in snb if cs not in first_snb and T.resolves_to_call(an, cs.args[1], [x.bb for x in first_snb])]
        bad = T.t2_all_exits(an, starts, restores, removed_edges=ok_e)
        ck.verdict(bad is None, "2", "T2-all-exits", an, "register-failed=>blocking-mode-restored", "every error exit after set_nonblocking(true) restores the previous mode (value returned by the first call)", "a rejected adapt_io leaves the caller's fd in non-blocking mode", site=an.where(r.bb), path=path_descr(an, bad) if bad else None)

    # ---- clause 3: lifecycle set on failure (shared with C14.2) -----------------------------------------
    C14.lifecycle_set_follows(ck, "3")
    # a failing disable()/update() leaves nothing parked in the deferred-action cell (shared with C09.4)
    from props import common as _common

    _common.dispatch_infra(ck, "3")
    # a failed insertion gives the rejected dispatcher back *outside* of the loop's borrows: if the slot held the last
    # reference, clearing it under the source-list / poll borrow runs the user's Drop there (shared with C06.4)
    from props import C06 as _C06

    _common.import_results(ck, _C06, "4", "register_dispatcher", "1")
    _common.import_results(ck, _C06, "4", "Async::new", "2")
    from props import C01 as _C01

    _common.import_results(ck, _C01, "4", "vacant_entry", "1")

    # ---- clause 4: Generic records poller/token only after success -----------------------------------------
    for q, callee in (("<Generic as EventSource>::register", "register"), ("<Generic as EventSource>::reregister", "reregister")):
        g = ck.opt_body(q)
        if g is None:
            ck.anchor_missing("4", "T3-must-precede", q)
            continue
        pc = [cs for cs in T.calls(g, name=callee) if cs.f["path"].startswith("sys::Poll::")]
        stores = [(i, st) for fld in ("poller", "token") for i, j, st in T.stores_to_field(g, fld)]
        ck.floor("4", q + ": poller call + state stores", len(pc) + len(stores), 2)
        for p in pc:
            ok_e, err_e, direct = T.result_split(g, p.bb)
            for i, st in stores:
                ck.verdict(bool(ok_e) and T.reachable_only_via(g, i, ok_e), "4", "T3-must-precede", g, "store:%s/after-success-of:Poll::%s" % (place_str(st["pl"]).split(".")[-1], callee), "the field is recorded only on the success edge of the poller call", "Generic records %s before/without the poller call having succeeded (a failed registration would later delete a foreign registration or accept events)" % place_str(st["pl"]).split(".")[-1], site=g.where(i))

    ir = ck.opt_body("<LoopInner as IoLoopInner>::register")
    if ir is None:
        ck.anchor_missing("4", "T3-must-precede", "<LoopInner as IoLoopInner>::register")
    else:
        pc = [cs for cs in T.calls(ir, name="register") if cs.f["path"].startswith("sys::Poll::")]
        stores = [(i, st) for i, j, st in T.stores_to_field(ir, "is_registered") if st["rv"]["r"] == "use" and st["rv"]["o"].get("k", {}).get("v") == 1]
        ck.floor("4", "IoLoopInner::register: poller call + is_registered store", len(pc) + len(stores), 2)
        for p in pc:
            ok_e, err_e, direct = T.result_split(ir, p.bb)
            for i, st in stores:
                ck.verdict(bool(ok_e) and T.reachable_only_via(ir, i, ok_e), "4", "T3-must-precede", ir, "store:is_registered/after-success-of:Poll::register", "the adapter records its registration only on the success edge of the poller call", "the Async adapter marks itself registered before/without Poll::register having succeeded: when adapt_io is rejected (fd already registered by another source) the failure path unregisters that other source's fd", site=ir.where(i))
    # slots are never physically removed from the list (a popped slot would be re-created at generation 0)
    from props import C01

    C01.slots_never_removed(ck, "1")

    # ---- clause 5: the batch loop exits only by exhaustion ----------------------------------------------------
    dl = DispatchLoop(ck, "5")
    b = dl.body
    some, none = T.option_split(b, dl.header)
    allowed = set(none)
    exits = T.loop_exit_edges(b, dl.blocks)
    n_other = 0
    for a, tgt, lab in exits:
        if (a, tgt) in allowed:
            continue
        if lab == "unwind" or b.blocks[tgt]["term"]["t"] == "unreachable":
            continue
        # diverging panics (unreachable!()) have no successor and are not edges
        # name the callee whose result causes this exit
        cause = "?"
        t = b.blocks[a]["term"]
        if t["t"] == "switch":
            e = b.expr(t["on"], at=a)
            causes = set()

            def trace(pl, depth=0):
                for root, path in b.resolve(pl):
                    if root[0] == "call":
                        cs = b.call_at(root[1])
                        # (error-preserving adaptors: the failing call is the one whose Result they were applied to)
                        if cs.name in ("from_residual", "branch", "map_err", "into", "from", "map", "and", "or_else", "inspect_err", "inspect") and (cs.name not in ("map", "and", "or_else", "inspect_err", "inspect") or (cs.f and "result::Result" in cs.f["path"])) and cs.args and depth < 6:
                            trace(op_place(cs.args[0]) or {"l": 0, "p": [], "t": 0}, depth + 1)
                        else:
                            causes.add(cs.describe())

            if e[0] == "discr":
                trace(e[2])
            causes = sorted(causes) or ["?"]
        else:
            causes = ["?"]
        for cause in causes:
          n_other += 1
          ck.violation("5", "T5-loop-exit", b, "early-exit-caused-by:%s" % cause, "the batch loop is left before the batch is exhausted when %s fails: the remaining consumed-once events of the batch (popped timers, edge/one-shot readiness, drained synthetic events) are lost for every other source" % cause, site=b.where(a))
    if n_other == 0:
        ck.ok("5", "T5-loop-exit", b, "exits-only-on-exhaustion", "the batch loop is left only when the event iterator is exhausted", site=b.where(dl.header))
    ck.ok("5", "T5-loop-exit", b, "exhaustion-exit-exists", "the None edge of the iterator leaves the loop", site=b.where(dl.header)) if allowed else ck.anchor_missing("5", "T5-loop-exit", "exhaustion edge of the batch loop")

    # ---- clause 6: errors are reported, not swallowed or turned into panics -----------------------------------
    seen = 0
    for body in f.bodies.values():
        for cs in body.calls():
            if body.is_cleanup(cs.bb) or cs.f is None or cs.macro in ("trace", "warn", "debug", "info", "error"):
                continue
            dt = f.types[cs.dest["t"]]
            if dt.get("path") != "std::result::Result" or len(dt.get("args", [])) < 2:
                continue
            et = f.types[dt["args"][1]]
            if not (et.get("path") in ERR_TYPES):
                continue
            seen += 1
            u = T.result_uses(body, cs.bb)
            swallowed = u and u <= {"ok()-discarded", "dropped", "unused"}
            panics = u and u <= {"unwrap"}
            if not (swallowed or panics):
                continue
            key = (body.qual, cs.name)
            if key not in DISCARD_TABLE and (key[0].rsplit("::", 1)[0] + "::*", key[1]) in DISCARD_TABLE:
                key = (key[0].rsplit("::", 1)[0] + "::*", key[1])
            if key in DISCARD_TABLE:
                ck.ok("6", "T12-error-discipline", body, "discard:%s" % cs.name, "listed deliberate %s: %s" % ("discard" if swallowed else "unwrap", DISCARD_TABLE[key]), site=body.where(cs.bb), nontrivial=True)
            else:
                ck.violation("6", "T12-error-discipline", body, "%s:%s" % ("swallowed" if swallowed else "unwrap", cs.name), "the error of %s is %s here and this site is not in the table of deliberate discards" % (cs.describe(), "silently discarded" if swallowed else "turned into a panic"), site=body.where(cs.bb))
    ck.floor("6", "fallible calls with a registration/io error type classified", seen, 40)

    # ---- clause 7: a wrapper hands back the source it was given when its registration fails (E3, shared with C18)
    from props import C18, common

    sub_ck = type(ck)(ck.prop, ck.facts, ck.config, ck.tier)
    sub_ck.nested = True
    if not getattr(ck, "nested", False):
        try:
            C18.run(sub_ck)
        except AnchorMissing:
            pass
        for r in sub_ck.results:
            if "fails]" in r["instance"] or r["instance"] == "explored":
                r = dict(r)
                r["key"] = r["key"].replace("C15.1/", "C15.7/", 1)
                r["clause"] = "7"
                ck.results.append(r)
    # ---- shared clauses demonstrated by seeding round 7 (the property broken from a distant module) --------------
    from props import common as _c7
    import importlib as _il
    _m = lambda n: _il.import_module('props.' + n)
    _c7.ping_infra(ck, "5")  # the events of the other sources survive a failing batch only because they are level-triggered
    _c7.import_results(ck, _m("C16"), "3", "Poll::", "3")  # no bookkeeping of the poller wrapper runs ahead of the fallible call
    # ---- shared clauses demonstrated by the twin round (seeding round 10) ------------------------------------------
    from props import common as _c10
    import importlib as _il10
    _m10 = lambda n: _il10.import_module('props.' + n)
    _c10.import_results(ck, _m10("C07"), "4", "DispatcherInner", "3")  # a failed enable() leaves the dispatcher unregistered (the state flag follows the source)
