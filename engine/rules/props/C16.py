"""C16 — the OS poller holds exactly the fds of enabled sources, nothing stale."""
from mir import op_place, place_str
import templates as T
from core import path_descr, AnchorMissing
from props import common

LEVEL = "other"
CONFIGS = ["full", "book", "default"]
NOT_DECIDED = [
    "equality of calloop's view and the kernel interest list over whole histories",
    "registration failures (C16 assumes none; see C15)",
    "(recorded, not armed) Generic::unregister clears poller/token only after the poller call succeeded",
]
EXPLANATION = (
    "Decides on the MIR: (1) T11 acquire/release: every type that registers an fd (found by who calls Poll::register) releases it "
    "on every teardown entry (unregister, unwrap, Drop) on every path on which a registration may exist; (2) T10 no dead release: "
    "a release guarded by a state field requires a store of a non-initial value to that field somewhere in the crate; (3) "
    "Poll::register/reregister/unregister call add/modify/delete on the fd and event built from their own parameters and keep the "
    "level-emulation map symmetric; (5) wrapper sources forward register/reregister/unregister to the same method of their inner source."
)

RELEASE = lambda cs: cs.f is not None and (cs.f["path"] in ("sys::Poll::unregister",) or cs.f["path"].startswith("polling::Poller::delete"))
ACQUIRE = lambda cs: cs.f is not None and cs.f["path"] == "sys::Poll::register"


def run(ck):
    f = ck.facts
    releasing = common.transitive_callers_of(f, RELEASE)
    owners = [b for b in f.bodies.values() if any(ACQUIRE(cs) for cs in b.calls())]
    ck.floor("1", "functions acquiring an fd registration (Poll::register callers)", len(owners), 2)
    owner_names = sorted(b.qual for b in owners)
    expected_owners = {"<Generic as EventSource>::register", "<LoopInner as IoLoopInner>::register"}
    for b in owners:
        if b.qual in expected_owners:
            ck.ok("1", "T7-who-may-call", b, "acquires:Poll::register", "known fd owner", nontrivial=False)
        else:
            ck.violation("1", "T7-who-may-call", b, "acquires:Poll::register", "a new caller of Poll::register: its owner type needs release rules (unregister/unwrap/Drop) before this check can vouch for it", site=b.where())

    def release_sites(b):
        out = []
        for cs in b.calls():
            if b.is_cleanup(cs.bb):
                continue
            if RELEASE(cs):
                out.append(cs.bb)
            else:
                for cb in common.callee_bodies(cs):
                    if cb.key in releasing:
                        out.append(cs.bb)
        return out

    # ---- Generic ----------------------------------------------------------------------------------
    g = ck.body("1", "<Generic as EventSource>::unregister")
    rs = release_sites(g)
    bad = T.t2_all_exits(g, [0], rs)
    ck.verdict(bool(rs) and bad is None, "1", "T11-acquire-release", g, "unregister=>Poll::unregister", "every path through Generic::unregister asks the poller to delete the fd", "Generic::unregister can return without deleting the fd from the poller", site=g.where(), path=path_descr(g, bad) if bad else None)
    for q in ("Generic::unwrap", "<Generic as Drop>::drop"):
        b = ck.opt_body(q)
        if b is None:
            ck.anchor_missing("1", "T11-acquire-release", q)
            continue
        rs = release_sites(b)
        # a registration may exist exactly when self.poller (and, in Drop, self.file) is Some: with the
        # None edges of those tests removed, every path to the return must release
        # (in unwrap the file is taken out by the function itself: only "no poller recorded" excuses the release there)
        takes = [cs for cs in T.calls(b, name=("take", "as_ref", "is_some", "clone", "as_mut")) if T.path_has(b, cs.args[0], ".poller") or (q != "Generic::unwrap" and T.path_has(b, cs.args[0], ".file"))]
        none_edges = []
        for sw in T.switches_on_expr(b, lambda e: e[0] == "discr"):
            e = b.expr(b.blocks[sw]["term"]["on"], at=sw)
            if any(T.tainted_by_call(b, {"c": e[2]}, [tk.bb]) for tk in takes):
                none_edges += T.discr_edges(b, sw, 0)
        if not rs or not any(T.path_has(b, tk.args[0], ".poller") for tk in takes):
            ck.violation("1", "T11-acquire-release", b, "poller-recorded=>delete", "%s never deletes the fd from the recorded poller%s" % (q, "" if rs else " (no release call)"), site=b.where())
            continue
        bad = T.t2_all_exits(b, [0], rs, removed_edges=none_edges)
        ck.verdict(bad is None, "1", "T11-acquire-release", b, "poller-recorded=>delete", "whenever a poller is recorded (a registration may exist) the fd is deleted from it", "%s can finish with a poller recorded and the fd still registered" % q, site=b.where(), path=path_descr(b, bad) if bad else None)

    # ---- Async --------------------------------------------------------------------------------------
    ad = ck.body("1", "<Async as Drop>::drop")
    rs = release_sites(ad)
    bad = T.t2_all_exits(ad, [0], rs) if rs else [0]
    ck.verdict(bool(rs) and bad is None, "1", "T11-acquire-release", ad, "drop=>release", "dropping an Async adapter (also reached by into_inner) always reaches a poller release", "dropping an Async adapter never unregisters its fd: adapt_io(fd).into_inner() followed by adapt_io(fd) fails with EEXIST and the stale registration can produce ghost events", site=ad.where())
    kb = ck.opt_body("<LoopInner as IoLoopInner>::kill")
    if kb is None:
        ck.anchor_missing("1", "T11-acquire-release", "<LoopInner as IoLoopInner>::kill")
    else:
        rel = [cs.bb for cs in kb.calls() if RELEASE(cs) and not kb.is_cleanup(cs.bb)]
        exempt = []
        for sw, blk in enumerate(kb.blocks):
            if blk["term"]["t"] != "switch" or kb.is_cleanup(sw):
                continue
            kind, aps = T.switch_reads(kb, sw)
            if kind == "place" and any(".is_registered" in p for r, p in aps):
                exempt += T.edges_of_value(kb, sw, False)
        bad = T.t2_all_exits(kb, [0], rel, removed_edges=exempt) if rel else [0]
        ck.verdict(bad is None, "1", "T11-acquire-release", kb, "registered=>released(no-other-condition)", "whenever the adapter is registered, tearing it down unregisters the fd: the only way around the poller call is the 'not registered' edge", "tearing down an Async adapter can skip unregistering a registered fd (an extra condition guards the release): with a non-owning IO object (&UnixStream, BorrowedFd, Rc<..>) the fd stays in the poller and adapting it again fails with EEXIST", site=kb.where(), path=path_descr(kb, bad) if bad else None)
    ii = ck.opt_body("Async::into_inner")
    if ii is not None:
        forgets = [cs for cs in ii.calls() if cs.f and cs.f["path"] in ("std::mem::forget", "std::mem::ManuallyDrop::<T>::new")]
        drops_self = [bb for bb, t in ii.drops() if t["pl"]["l"] == 1 and not ii.is_cleanup(bb)]
        ck.verdict(not forgets and bool(drops_self), "1", "T11-acquire-release", ii, "into_inner-runs-Drop", "into_inner drops the adapter (its Drop impl releases the fd)", "into_inner does not run the adapter's Drop", site=ii.where())

    # ---- clause 2: no dead release (T10) -------------------------------------------------------------
    n10 = 0
    for b in f.bodies.values():
        for cs in b.calls():
            if b.is_cleanup(cs.bb) or not RELEASE(cs):
                continue
            # find a switch on a *field* that decides this release
            for sw in T.switches_on_expr(b, lambda e: e[0] in ("place", "discr", "call")):
                kind, aps = T.switch_reads(b, sw)
                names = []
                for root, path in aps:
                    names += [x[1:] for x in path if x.startswith(".") and x[1:] in ("is_registered", "poller", "registered")]
                if not names:
                    continue
                ed_t = T.edges_of_value(b, sw, True) if kind == "place" else T.discr_edges(b, sw, 1)
                if not T.reachable_only_via(b, cs.bb, ed_t):
                    continue
                fld = names[0]
                n10 += 1
                stores = []
                for b2 in f.bodies.values():
                    for i, j, st in T.stores_to_field(b2, fld):
                        v = st["rv"]
                        if v["r"] == "use":
                            k = v["o"].get("k")
                            if k is not None and k.get("v") == 0:
                                continue
                            av = T.agg_variant(b2, v["o"])
                            if av and all(x[1] == "None" for x in av):
                                continue
                        stores.append(b2.qual)
                    for i, j, st in b2.statements():
                        # struct literal initialisation with a non-initial value
                        pass
                ck.verdict(bool(stores), "2", "T10-dead-guard", b, "release-guarded-by:%s" % fld, "the release is guarded by `%s`, which is set to a non-initial value in %s" % (fld, sorted(set(stores))), "the release of the fd is guarded by `%s`, but no code in the crate ever stores a value other than the initial one into that field: the release is dead code" % fld, site=b.where(cs.bb))
    ck.floor("2", "state-guarded releases", n10, 2)

    # ---- clause 2b: the 'registered' flags say what the poller holds ------------------------------------------
    # A store of `false` into a flag that guards a release (is_registered) is a claim that the fd has left the poller:
    # it must sit in a function that performs the release on the paths through the store. (A one-shot registration that
    # fired is disarmed, not deleted: the fd is still in the epoll set.)
    n2b = 0
    for b in f.bodies.values():
        for i, j, st in T.stores_to_field(b, "is_registered"):
            if b.is_cleanup(i) or st["rv"]["r"] != "use" or T.const_value(b, st["rv"]["o"], 8) != 0:
                continue
            if st.get("via") == "mem::replace":
                continue  # test-and-clear: the loop below looks at the 'was registered' edge
            if any(s2["s"] == "assign" and s2["rv"]["r"] == "agg" for s2 in [st]):
                continue
            n2b += 1
            rel = [cs.bb for cs in b.calls() if RELEASE(cs) and not b.is_cleanup(cs.bb)]
            ok = bool(rel) and (T.t3_dominated_by_any(b, i, rel) or T.t2_all_exits(b, [i], rel) is None)
            ck.verdict(ok, "2", "T11-acquire-release", b, "flag-cleared=>released", "`is_registered = false` is accompanied by the poller release on every path through it", "%s clears `is_registered` without deleting the fd from the poller: the teardown (kill) then skips the release, the fd stays registered after the adapter is gone, and adapting it again fails with EEXIST" % b.qual, site=b.where(i))
    for b in f.bodies.values():
        for cs in T.calls(b, name=("replace", "take"), path="std::mem"):
            if not b.is_cleanup(cs.bb) and T.path_has(b, cs.args[0], ".is_registered") and (cs.name == "take" or T.const_value(b, cs.args[1], 8) == 0):
                n2b += 1
                rel = [c.bb for c in b.calls() if RELEASE(c) and not b.is_cleanup(c.bb)]
                tr, fa = T.bool_split(b, cs.bb)
                ok = bool(rel) and bool(tr) and T.t2_all_exits(b, [x for _, x in tr], rel) is None
                ck.verdict(ok, "2", "T11-acquire-release", b, "flag-cleared=>released", "the flag is test-and-cleared and the 'was registered' edge always releases", "%s clears `is_registered` without releasing on the 'was registered' edge" % b.qual, site=b.where(cs.bb))
    ck.floor("2", "stores clearing is_registered", n2b, 1)

    # ---- clause 3: Poll::{register, reregister, unregister} -----------------------------------------------
    for q, pm, maps in (("Poll::register", "add_with_mode", "insert"), ("Poll::reregister", "modify_with_mode", "insert"), ("Poll::unregister", "delete", ("retain", "remove"))):
        b = ck.opt_body(q)
        if b is None:
            ck.anchor_missing("3", "T6-provenance", q)
            continue
        pc = [cs for cs in b.calls() if cs.f and cs.f["path"].startswith("polling::Poller::") and cs.name == pm and not b.is_cleanup(cs.bb)]
        # .. and no other registration call of the poller: a re-registration that falls back to *adding* the fd (ENOENT:
        # it is not in the poller because the source is disabled) would put a disabled source back into the poller
        others = [cs for cs in b.calls() if cs.f and cs.f["path"].startswith("polling::Poller::") and cs.name in ("add", "add_with_mode", "modify", "modify_with_mode", "delete") and cs.name != pm and not b.is_cleanup(cs.bb)]
        ck.verdict(not others, "3", "T7-who-may-call", b, "no-other-poller-registration-call", "%s changes the poller only through Poller::%s" % (q, pm), "%s also calls Poller::%s: %s" % (q, "/".join(sorted({c.name for c in others})), "a re-registration or removal must not (re)create a registration - update() on a disabled source would put its fd back into the poller and its callback would run while disabled" if pm != "add_with_mode" else "a registration must not modify or delete another registration of the fd"), site=b.where(others[0].bb) if others else b.where())
        ck.verdict(len(pc) == 1, "3", "T7-who-may-call", b, "calls:Poller::%s" % pm, "exactly one call of Poller::%s" % pm, "%s does not call Poller::%s exactly once (%d)" % (q, pm, len(pc)), site=b.where())
        for cs in pc:
            bad = T.t2_all_exits(b, [0], [cs.bb])
            ck.verdict(bad is None, "3", "T2-all-exits", b, "always:Poller::%s" % pm, "every path performs the poller call", "a path through %s skips the poller call" % q, site=b.where(cs.bb))
            ck.verdict(T.resolves_to_arg(b, cs.args[1], 2) or T.tainted_by_call(b, cs.args[1], [c.bb for c in T.calls(b, name=("as_fd", "as_raw_fd"))]), "3", "T6-provenance", b, "fd-is-the-parameter", "the fd given to the poller is the fd parameter", "the fd given to the poller is not derived from the fd parameter", site=b.where(cs.bb))
            if pm != "delete":
                ebld = common.event_builder(f)
                ev_calls = [c for c in b.calls() if ebld is not None and c.callee_body() is ebld[0] and not b.is_cleanup(c.bb)]
                cv = [c.bb for c in ev_calls]
                conv = common.mode_converter(f)
                conv_calls = [c for c in b.calls() if conv is not None and c.callee_body() is conv[0] and not b.is_cleanup(c.bb)]
                cm = [c.bb for c in conv_calls]
                inlined_ev = ebld is not None and ebld[0].key in b.raw.get("inlined", [])
                ck.verdict((bool(cv) and T.resolves_to_call(b, cs.args[2], cv)) or inlined_ev, "3", "T6-provenance", b, "event-from-cvt_interest", "the poller event is cvt_interest(interest, token)", "the poller event is not the translated interest/token", site=b.where(cs.bb))
                inlined_conv = conv is not None and conv[0].key in b.raw.get("inlined", []) and all(r[0] == "agg" and b.agg_at(r[1], r[2]).get("adt", "").endswith("PollMode") for r, p_ in b.resolve(cs.args[3]))
                ck.verdict((bool(cm) and T.resolves_to_call(b, cs.args[3], cm)) or inlined_conv, "3", "T6-provenance", b, "mode-from-cvt_mode", "the poll mode is cvt_mode(mode, ..)", "the poll mode is not the translated mode", site=b.where(cs.bb))
                for c in ev_calls:
                    ck.verdict(T.resolves_to_arg(b, c.args[ebld[1] - 1], 3) and T.resolves_to_arg(b, c.args[ebld[2] - 1], 5), "3", "T6-provenance", b, "cvt_interest(own interest, own token)", "translates the function's own interest and token", "cvt_interest is not applied to the function's own interest/token parameters", site=b.where(c.bb))
                for c in conv_calls:
                    ck.verdict(T.resolves_to_arg(b, c.args[conv[1] - 1], 4), "3", "T6-provenance", b, "cvt_mode(own mode)", "translates the function's own mode", "cvt_mode is not applied to the function's own mode parameter", site=b.where(c.bb))
        mapcalls = [cs for cs in T.calls(b, name=maps) if T.path_has(b, cs.args[0], ".level_triggered")]
        if not mapcalls:
            # the same table under another field name / in another container, found by its role: a collection of this
            # Poll that stores polling events (the registrations to re-arm), written with the collection's own
            # insert / remove operation (helpers of a private wrapper type are inlined or looked through)
            eq = ("insert", "push", "push_back", "entry") if maps == "insert" else ("retain", "retain_mut", "remove", "swap_remove", "remove_entry")
            view = f.deep_view(b, lambda cb_: True) if hasattr(f, "deep_view") else b
            for v in {id(view): view, id(b): b}.values():
                for cs in T.calls(v, name=eq):
                    if v.is_cleanup(cs.bb) or not cs.args:
                        continue
                    pl0 = op_place(cs.args[0])
                    ts = f.types[f.peel_refs(pl0["t"])]["s"] if pl0 is not None else ""
                    if "polling::Event" in ts or "Event" in ts.split("<")[-1] or ("Event" in ts and any(x in ts for x in ("HashMap", "Vec", "BTreeMap"))):
                        mapcalls.append(cs)
        ck.verdict(bool(mapcalls), "3", "T8-sibling-agreement", b, "level-map:%s" % (maps if isinstance(maps, str) else "|".join(maps)), "the level-emulation map is maintained (%s)" % (maps if isinstance(maps, str) else "/".join(maps)), "%s does not maintain the level-emulation map" % q, site=b.where())

    # removal paths (shared with C06.2): a source removed from inside its callback is unregistered
    from props import C06, C15

    common.import_results(ck, C06, "2", None, "5")
    # a self-directed update() re-registers (it must not be turned into a Disable that deletes the fd), shared with C09.4
    common.dispatch_infra(ck, "5")
    common.import_results(ck, C15, "4", "IoLoopInner", "4")
    # an unregistered source forgets its poller (and token): a wrapper dropped later must not delete a newer registration
    # of the same fd (shared with C07.2)
    from props import C07 as _C07

    common.import_results(ck, _C07, "2", "Generic", "1")
    common.import_results(ck, _C07, "4", "LoopHandle", "5")
    # every (re)registration really reaches the poller: interest, mode and key last requested are the ones armed
    for q, callee in (("<Generic as EventSource>::register", "register"), ("<Generic as EventSource>::reregister", "reregister")):
        g = ck.opt_body(q)
        if g is None:
            ck.anchor_missing("3", "T2-all-exits", q)
            continue
        pc = [cs for cs in T.calls(g, name=callee) if cs.f["path"].startswith("sys::Poll::")]
        okret = [i for i, j, st in g.statements() if st["s"] == "assign" and st["pl"]["l"] in T.ret_locals(g) and st["rv"]["r"] == "agg" and st["rv"].get("variant") == "Ok" and not g.is_cleanup(i)]
        bad = T.t2_all_exits(g, [0], [c.bb for c in pc], exits=okret or None) if pc else [0]
        ck.verdict(bad is None, "3", "T2-all-exits", g, "always-reaches:Poll::%s" % callee, "every successful %s hands the current interest, mode and token to the poller" % callee, "Generic::%s can return Ok without calling the poller (a cached-state shortcut): a change of interest/mode/token since the last registration is silently not applied" % callee, site=g.where(), path=path_descr(g, bad) if bad else None)
        for c in pc:
            ok = T.path_has(g, c.args[2], ".interest") and T.path_has(g, c.args[3], ".mode") and T.resolves_to_call(g, c.args[4], [x.bb for x in T.calls(g, name="token")])
            ck.verdict(ok, "3", "T6-provenance", g, "poller-gets:self.interest,self.mode,fresh-token", "the poller call receives self.interest, self.mode and the token just obtained from the factory", "Generic::%s does not pass its current interest/mode/token to the poller" % callee, site=g.where(c.bb))

    # TransientSource is state-directed: its registration bookkeeping is decided by C18's exploration
    from props import C18

    sub_ck = type(ck)(ck.prop, ck.facts, ck.config, ck.tier)
    sub_ck.nested = True
    if not getattr(ck, "nested", False):
        try:
            C18.run(sub_ck)
        except AnchorMissing:
            pass
    for r in sub_ck.results:
        if r["verdict"] != "ok" or r["instance"] == "explored":
            r = dict(r)
            r["key"] = r["key"].replace("C16.1/", "C16.5/", 1)
            r["clause"] = "5"
            ck.results.append(r)

    # ---- clause 5: wrapper delegation -----------------------------------------------------------------------
    n = common.wrapper_forwarding(ck, "5")
    ck.floor("5", "wrapper (impl, method) forwarding instances", n, 12 if ck.has("executor") else 9)
    # ---- shared clauses demonstrated by seeding round 7 (the property broken from a distant module) --------------
    from props import common as _c7
    import importlib as _il
    _m = lambda n: _il.import_module('props.' + n)
    _c7.import_results(ck, _m("C01"), "4", None, "5")
    if ck.has("executor"):
        _c7.import_results(ck, _m("C10"), "4", "Executor", "1")  # futures (and the Async adapters they own) are dropped with the executor
    _m("C14").lifecycle_set_follows(ck, "5")
    _c7.import_results(ck, _m("C07"), "4", "DispatcherInner", "5")


