"""C17 — Async adapter: byte-exact I/O, tasks always woken, blocking mode restored (weak claim)."""
from mir import op_place, place_str
import templates as T
from core import path_descr, AnchorMissing

LEVEL = "other"
CONFIGS = ["full", "book"]
NOT_DECIDED = ["the byte strings, chunkings and wake timing themselves; kernel socket semantics", "that a one-shot registration is delivered once the fd becomes ready (polling/epoll)"]
EXPLANATION = (
    "Decides on the MIR of io.rs: (1) byte-exactness is pass-through: each AsyncRead/AsyncWrite poll function performs exactly one "
    "inner read/write/flush call, on no cycle, with its own buffer parameter, and returns every non-WouldBlock result unchanged; "
    "Async has no byte storage; (2) WouldBlock arms the right interest (READ for reads, WRITE for writes/flush) with the task's "
    "waker and then returns Pending; register_waker stores interest and waker and re-arms the poller on every path, with the "
    "dispatcher's interest, Mode::OneShot and token; Readable/Writable agree; (3) an event records the readiness and wakes the "
    "stored waker on every path on which one was stored; (4) the fd is made non-blocking on creation, Drop restores the mode "
    "returned by that first call, and set_nonblocking sets/clears exactly NONBLOCK."
)

READ_FNS = {"poll_read": "read", "poll_read_vectored": "read_vectored"}
WRITE_FNS = {"poll_write": "write", "poll_write_vectored": "write_vectored", "poll_flush": "flush"}


def run(ck):
    f = ck.facts
    n1 = 0
    if ck.has("futures-io"):
        for table, interest, tr in ((READ_FNS, "READ", "AsyncRead"), (WRITE_FNS, "WRITE", "AsyncWrite")):
            for fn, inner in table.items():
                b = ck.opt_body("<Async as %s>::%s" % (tr, fn))
                if b is None:
                    ck.anchor_missing("1", "T8-sibling-agreement", "<Async as %s>::%s" % (tr, fn))
                    continue
                io_calls = [cs for cs in b.calls() if cs.name in ("read", "read_vectored", "write", "write_vectored", "flush", "read_exact", "write_all") and cs.trait in ("std::io::Read", "std::io::Write") and not b.is_cleanup(cs.bb)]
                n1 += 1
                on_cycle = any(any(c.bb in blk for blk in b.loops().values()) for c in io_calls)
                ck.verdict(len(io_calls) == 1 and io_calls[0].name == inner and not on_cycle, "1", "T8-sibling-agreement", b, "single-inner-%s" % inner, "exactly one inner %s call, on no cycle" % inner, "%s performs %s: a partial transfer followed by WouldBlock would be reported as Pending and the bytes re-sent / lost (stream corruption)" % (fn, "the inner call in a loop" if on_cycle else "%d inner I/O calls (%s)" % (len(io_calls), [c.name for c in io_calls])), site=b.where())
                if len(io_calls) != 1:
                    continue
                io = io_calls[0]
                if inner != "flush":
                    ck.verdict(T.resolves_to_arg(b, io.args[1], 3), "1", "T6-provenance", b, "buffer-is-own-parameter", "the buffer handed to the fd is the caller's buffer", "the buffer handed to the fd is not the caller's buffer parameter", site=b.where(io.bb))
                gm = [c for c in b.calls() if c.name == "get_mut" and c.callee_body() is not None and T.resolves_to_arg(b, c.args[0], 1)]
                ck.verdict(T.resolves_to_arg(b, io.args[0], 1) or T.resolves_to_call(b, io.args[0], [c.bb for c in gm]), "1", "T6-provenance", b, "receiver-is-own-fd", "the inner call is made on the adapter's own fd", "the inner call is not made on the adapter's own fd", site=b.where(io.bb))
                # Ready(res) carries the inner result unchanged
                readies = [(i, st) for i, j, st in b.statements() if st["s"] == "assign" and st["pl"]["l"] in T.ret_locals(b) and st["rv"]["r"] == "agg" and st["rv"].get("variant") == "Ready" and not b.is_cleanup(i)]
                rw_calls = [cs.bb for cs in b.calls() if cs.name == "register_waker" and not b.is_cleanup(cs.bb)]

                def ready_ok(op):
                    aps = b.resolve(op)
                    if any(r == ("call", io.bb) and not p for r, p in aps):
                        return True
                    # the only other Ready: the error of arming the waker (what `register_waker(..)?` produces), never a
                    # made-up byte count
                    for r, p in aps:
                        if r[0] == "agg":
                            rv = b.agg_at(r[1], r[2])
                            if rv.get("variant") == "Err" and rv["fields"] and T.tainted_by_call(b, rv["fields"][0], rw_calls):
                                return True
                    return False

                okr = bool(readies) and all(ready_ok(st["rv"]["fields"][0]) for i, st in readies) and any(any(r == ("call", io.bb) and not p for r, p in b.resolve(st["rv"]["fields"][0])) for i, st in readies)
                ck.verdict(okr, "1", "T6-provenance", b, "Ready(result)-unchanged", "every Ready result is the inner call's result, unchanged", "a Ready result is not the unchanged result of the inner call", site=b.where())
                # WouldBlock => register_waker(interest) => Pending
                rw = [cs for cs in b.calls() if cs.name == "register_waker" and not b.is_cleanup(cs.bb)]
                pend = [i for i, j, st in b.statements() if st["s"] == "assign" and st["pl"]["l"] in T.ret_locals(b) and st["rv"]["r"] == "agg" and st["rv"].get("variant") == "Pending" and not b.is_cleanup(i)]
                okw = bool(rw) and bool(pend)
                if okw:
                    c = rw[0]
                    k = c.args[1].get("k", {})
                    okw = (T.const_name(b, c.args[1]).endswith("Interest::" + interest)) and all(T.t3_dominated_by_any(b, i, [c.bb]) for i in pend)
                    wk = any(cs.name == "waker" for cs in b.calls()) and T.tainted_by_call(b, c.args[2], [cs.bb for cs in b.calls() if cs.name == "waker"])
                    okw = okw and wk
                ck.verdict(okw, "2", "T8-sibling-agreement", b, "WouldBlock=>arm:%s,then-Pending" % interest, "Pending is returned only after register_waker(Interest::%s, cx.waker().clone())" % interest, "%s does not arm Interest::%s with the task's waker before returning Pending: the task is never woken when the fd becomes ready" % (fn, interest), site=b.where())
                # the WouldBlock test
                kinds = [cs for cs in b.calls() if cs.name == "kind"]
                ck.verdict(bool(kinds) and all(T.resolves_to_call(b, x.args[0], [io.bb]) or T.tainted_by_call(b, x.args[0], [io.bb]) for x in kinds), "2", "T6-provenance", b, "Pending-only-on-WouldBlock-of-inner-call", "the Pending path is selected by the error kind of the inner call's result", "the Pending path is not selected by the inner call's error kind", site=b.where(), nontrivial=True)
        pc = ck.opt_body("<Async as AsyncWrite>::poll_close")
        if pc is not None:
            fl = [cs for cs in pc.calls() if cs.name == "poll_flush"]
            ck.verdict(bool(fl), "1", "T8-sibling-agreement", pc, "poll_close->poll_flush", "poll_close delegates to poll_flush", "poll_close does not delegate to poll_flush", site=pc.where())
        ck.floor("1", "AsyncRead/AsyncWrite poll functions", n1, 5)
    a = f.adts.get("io::Async")
    if a is None:
        ck.anchor_missing("1", "T9-layout", "io::Async")
    else:
        ft = [f.types[x["ty"]]["s"] for x in a["variants"][0]["fields"]]
        bufy = [s for s in ft if "Vec<u8>" in s or "[u8" in s or "VecDeque" in s or "BytesMut" in s or "String" in s]
        ck.verdict(not bufy, "1", "T9-layout", "io::Async", "no-byte-storage", "the adapter has no byte storage (fields: %s)" % ft, "the adapter buffers bytes (%s): byte-exactness no longer follows from pass-through" % bufy, site="%s:%d" % (a["span"]["file"], a["span"]["line"]))

    # Readable / Writable futures
    for q, interest, fld in (("<Readable as Future>::poll", "READ", "readable"), ("<Writable as Future>::poll", "WRITE", "writable")):
        b = ck.opt_body(q)
        if b is None:
            ck.anchor_missing("2", "T8-sibling-agreement", q)
            continue
        rw = [cs for cs in b.calls() if cs.name == "register_waker" and not b.is_cleanup(cs.bb)]
        pend = [i for i, j, st in b.statements() if st["s"] == "assign" and st["pl"]["l"] in T.ret_locals(b) and st["rv"]["r"] == "agg" and st["rv"].get("variant") == "Pending" and not b.is_cleanup(i)]
        ok = bool(rw) and bool(pend) and all(T.const_name(b, c.args[1]).endswith("Interest::" + interest) for c in rw) and all(T.t3_dominated_by_any(b, i, [c.bb for c in rw]) for i in pend)
        ck.verdict(ok, "2", "T8-sibling-agreement", b, "Pending-only-after-arming:%s" % interest, "Pending is returned only after register_waker(Interest::%s, ..)" % interest, "%s returns Pending without arming Interest::%s" % (q, interest), site=b.where())
        reads = [st for b2 in [b] + f.closures_of(b) for i, j, st in b2.statements() if st["s"] == "assign" and st["rv"]["r"] == "use" and T.path_has(b2, st["rv"]["o"], "." + fld)]
        ck.verdict(bool(reads), "2", "T6-provenance", b, "tests-readiness.%s" % fld, "readiness.%s decides Ready" % fld, "%s does not test readiness.%s" % (q, fld), site=b.where(), nontrivial=False)

    # register_waker
    rwb = ck.body("2", "Async::register_waker")
    rr = [cs for cs in rwb.calls() if cs.name == "reregister" and not rwb.is_cleanup(cs.bb)]
    okret = [i for i, j, st in rwb.statements() if st["s"] == "assign" and st["pl"]["l"] in T.ret_locals(rwb) and st["rv"]["r"] == "agg" and st["rv"].get("variant") == "Ok" and not rwb.is_cleanup(i)]
    bad = T.t2_all_exits(rwb, [0], [c.bb for c in rr]) if rr else [0]
    ck.verdict(bad is None, "2", "T2-all-exits", rwb, "always-rearms-poller", "register_waker re-arms the poller on every path (the registration is one-shot: each wait needs its own arming)", "register_waker can return without re-arming the one-shot registration (e.g. when a waker is still stored): the fd's next readiness is never reported and the task is never woken", site=rwb.where(), path=path_descr(rwb, bad) if bad else None)
    st_i = [i for i, j, st in T.stores_to_field(rwb, "interest")]
    st_w = [i for i, j, st in T.stores_to_field(rwb, "waker")]
    # the stored waker may be kept when it already wakes the task that is polling (Waker::will_wake): the only way
    # around the waker store is the true edge of that test on the stored waker
    keep_e = []
    for c in rwb.calls():
        if c.name == "will_wake" and not rwb.is_cleanup(c.bb) and c.args and T.path_has(rwb, c.args[0], ".waker"):
            tr_, fa_ = T.bool_split(rwb, c.bb)
            keep_e += tr_
    def waker_ok(c):
        if T.t3_dominated_by_any(rwb, c.bb, st_w):
            return True
        if not keep_e:
            return False
        if c.bb not in rwb.reachable([0], removed_blocks=set(st_w), removed_edges=set(keep_e)):
            return True
        # the kept/new decision may be carried in a local across calls (`let new_waker = if keep {None} else {Some(..)}`):
        # ask the path-sensitive search whether a feasible path avoids the store
        import pathsens

        return pathsens.find_feasible_path(rwb, [0], [c.bb], removed_blocks=set(st_w), removed_edges=set(keep_e)) is None
    ok = bool(rr) and bool(st_i) and bool(st_w) and all(T.t3_dominated_by_any(rwb, c.bb, st_i) and waker_ok(c) for c in rr)
    ck.verdict(ok, "2", "T3-must-precede", rwb, "store-interest+waker<reregister", "interest and waker are stored before the poller is re-armed", "the poller is re-armed before the new interest/waker are stored (an event could arrive with no waker to wake)", site=rwb.where())
    for i, j, st in T.stores_to_field(rwb, "interest"):
        ck.verdict(T.resolves_to_arg(rwb, st["rv"]["o"], 2), "2", "T6-provenance", rwb, "interest:=parameter", "the stored interest is the requested one", "register_waker stores an interest other than the requested one", site=rwb.where(i))
    lr = ck.opt_body("<LoopInner as IoLoopInner>::reregister")
    if lr is None:
        ck.anchor_missing("2", "T6-provenance", "<LoopInner as IoLoopInner>::reregister")
    else:
        pr = [cs for cs in lr.calls() if cs.f and cs.f["path"] == "sys::Poll::reregister" and not lr.is_cleanup(cs.bb)]
        from props import common as _cmn

        hf = lambda op, fld: _cmn.has_field_through_callers(f, lr, op, fld)
        ok = bool(pr) and all(hf(c.args[2], ".interest") and T.agg_variant(lr, c.args[3]) == {("sys::Mode", "OneShot")} and hf(c.args[4], ".token") and hf(c.args[1], ".fd") or T.tainted_by_call(lr, c.args[1], [x.bb for x in lr.calls() if x.name == "borrow_raw"]) for c in pr)
        ok = ok and all(hf(c.args[2], ".interest") and T.agg_variant(lr, c.args[3]) == {("sys::Mode", "OneShot")} and hf(c.args[4], ".token") for c in pr)
        ck.verdict(ok, "2", "T6-provenance", lr, "rearm(disp.fd, disp.interest, OneShot, disp.token)", "the poller is re-armed with the dispatcher's own fd, interest and token in one-shot mode", "the re-arming does not use the dispatcher's interest/token in OneShot mode", site=lr.where())

    li = ck.opt_body("<LoopInner as IoLoopInner>::register")
    if li is None:
        ck.anchor_missing("2", "T6-provenance", "<LoopInner as IoLoopInner>::register")
    else:
        pr = [cs for cs in li.calls() if cs.f and cs.f["path"] == "sys::Poll::register" and not li.is_cleanup(cs.bb)]
        ok = bool(pr)
        for c in pr:
            ok = ok and T.const_name(li, c.args[2]).endswith("Interest::EMPTY") and T.agg_variant(li, c.args[3]) == {("sys::Mode", "OneShot")} and T.path_has(li, c.args[4], ".token")
        ck.verdict(ok, "2", "T6-provenance", li, "initial-registration:EMPTY+OneShot", "an adapter nobody awaits is registered with no interest, one-shot: it produces no events (not even a peer hang-up on every poll)", "the initial registration of an Async adapter is not (Interest::EMPTY, Mode::OneShot): an idle adapter whose peer hung up is reported on every poll and dispatch() spins", site=li.where())

    # ---- clause 3: event -> readiness recorded, waker woken --------------------------------------------------
    pe = ck.body("3", "<RefCell<IoDispatcher> as EventDispatcher>::process_events")
    lr_st = [(i, st) for i, j, st in T.stores_to_field(pe, "last_readiness")]
    ck.verdict(bool(lr_st) and all(T.resolves_to_arg(pe, st["rv"]["o"], 2) for i, st in lr_st) and T.t2_all_exits(pe, [0], [i for i, st in lr_st]) is None, "3", "T2-all-exits", pe, "readiness-recorded", "the event's readiness is recorded on every path", "the readiness of an event is not recorded", site=pe.where())
    tk = [cs for cs in T.calls(pe, name=("take", "as_ref", "clone", "as_mut")) if T.path_has(pe, cs.args[0], ".waker")]
    wk = [cs for cs in pe.calls() if cs.f and cs.f["path"] in ("std::task::Waker::wake", "std::task::Waker::wake_by_ref") and not pe.is_cleanup(cs.bb)]
    ok = False
    if tk and wk:
        some, none = T.option_split(pe, tk[0].bb)
        ok = bool(some) and T.t2_all_exits(pe, [x for _, x in some], [w.bb for w in wk]) is None
    ck.verdict(ok, "3", "T2-all-exits", pe, "stored-waker=>woken", "whenever a waker is stored it is woken", "an event can be processed without waking the stored waker: the awaiting task never completes", site=pe.where())

    # ---- clause 4: blocking mode ----------------------------------------------------------------------------------
    an = ck.body("4", "Async::new")
    snb = T.calls(an, name="set_nonblocking")
    from props import common as _cmn4

    on_val = _cmn4.nonblocking_on_value(f) or ("const", 1)
    first = [c for c in snb if _cmn4.payload_value(an, c.args[1]) == on_val]
    ck.verdict(bool(first) and an.dominates(first[0].bb, [cs for cs in an.calls() if cs.name == "register"][0].bb if [cs for cs in an.calls() if cs.name == "register"] else 0), "4", "T3-must-precede", an, "set_nonblocking(true)-on-creation", "the fd is made non-blocking when the adapter is created", "adapt_io does not make the fd non-blocking", site=an.where())
    agg = [st for i, j, st in an.statements() if st["s"] == "assign" and st["rv"]["r"] == "agg" and st["rv"].get("adt") == "io::Async"]
    ok = False
    was_field = None
    for st in agg:
        fld = dict(zip(st["rv"]["field_names"], st["rv"]["fields"]))
        # the field that remembers the previous mode: the one initialised from the first call's answer (whatever it is
        # called and however the mode is encoded)
        for n_, o_ in fld.items():
            if first and T.resolves_to_call(an, o_, [first[0].bb]):
                was_field = n_
        ok = was_field is not None
    ck.verdict(bool(ok), "4", "T6-provenance", an, "was_nonblocking=result-of-first-call", "the remembered mode is what the first set_nonblocking call reported", "Async::new does not remember the mode the fd had before", site=an.where())
    dr = ck.body("4", "<Async as Drop>::drop")
    rs = T.calls(dr, name="set_nonblocking")
    ck.verdict(bool(rs) and all(T.path_has(dr, c.args[1], "." + (was_field or "was_nonblocking")) for c in rs) and T.t2_all_exits(dr, [0], [c.bb for c in rs]) is None, "4", "T6-provenance", dr, "drop-restores-was_nonblocking", "Drop (also reached by into_inner) restores the remembered mode on every path", "dropping the adapter does not restore the fd's previous blocking mode", site=dr.where())
    sn = ck.body("4", "io::set_nonblocking")
    getfl = [cs for cs in sn.calls() if cs.name == "fcntl_getfl"]
    setfl = [cs for cs in sn.calls() if cs.name == "fcntl_setfl"]
    ors = [cs for cs in sn.calls() if cs.name == "bitor"]
    ands = [cs for cs in sn.calls() if cs.name == "bitand"]
    nots = [cs for cs in sn.calls() if cs.name == "not"]
    nb = lambda op: "NONBLOCK" in op.get("k", {}).get("s", "") or "NONBLOCK" in op.get("k", {}).get("const_path", "")
    ok = bool(getfl) and bool(setfl) and bool(ors) and bool(ands) and bool(nots)
    if ok:
        ok = all(nb(c.args[1]) and T.resolves_to_call(sn, c.args[0], [getfl[0].bb]) for c in ors) and all(nb(c.args[0]) for c in nots) and all(T.resolves_to_call(sn, c.args[0], [getfl[0].bb]) and T.resolves_to_call(sn, c.args[1], [n.bb for n in nots]) for c in ands)
        # which branch: the `true` edge of the parameter selects the OR
        for sw, blk in enumerate(sn.blocks):
            if blk["term"]["t"] == "switch" and 2 in T.copy_chain_locals(sn, blk["term"]["on"]):
                tr = T.edges_of_value(sn, sw, True)
                fa = T.edges_of_value(sn, sw, False)
                ok = ok and all(T.reachable_only_via(sn, c.bb, tr) for c in ors) and all(T.reachable_only_via(sn, c.bb, fa) for c in ands)
        ok = ok and all(any(r[0] == "call" and r[1] in [c.bb for c in ors + ands] for r, p in sn.resolve(c.args[1])) for c in setfl)
    if not ok and getfl and setfl:
        # the bitflags spelling: `let mut w = current; w.set(OFlags::NONBLOCK, on)` (insert when true, remove when false)
        sets = [cs for cs in sn.calls() if cs.name == "set" and cs.f and "OFlags" in (cs.f.get("full") or cs.f["path"]) and not sn.is_cleanup(cs.bb)]
        for c in sets:
            tgt = None
            for d in sn.defs().get(op_place(c.args[0])["l"], []) if op_place(c.args[0]) and not op_place(c.args[0])["p"] else []:
                if d[0] == "assign" and d[3]["rv"]["r"] == "ref" and not d[3]["rv"]["pl"]["p"]:
                    tgt = d[3]["rv"]["pl"]["l"]
            if tgt is None:
                continue
            init_ok = T.resolves_to_call(sn, {"c": {"l": tgt, "p": [], "t": 0}}, [getfl[0].bb])
            flag_ok = "NONBLOCK" in T.const_name(sn, c.args[1])
            on_ok = T.resolves_to_arg(sn, c.args[2], 2)
            wr_ok = all(tgt in T.copy_chain_locals(sn, w.args[1]) or any(r == ("local", tgt) for r, p_ in sn.resolve(w.args[1])) for w in setfl) and all(sn.dominates(c.bb, w.bb) for w in setfl)
            if init_ok and flag_ok and on_ok and wr_ok:
                ok = True
    ck.verdict(ok, "4", "T14-bit-provenance", sn, "sets/clears-exactly-NONBLOCK", "set_nonblocking(true) ORs NONBLOCK into the current flags, set_nonblocking(false) ANDs its complement, and writes that value back", "set_nonblocking does not set/clear exactly the NONBLOCK flag on the fd's current flags", site=sn.where())
    cont = [cs for cs in sn.calls() if cs.name == "contains"]
    ck.verdict(bool(cont) and all(T.resolves_to_call(sn, c.args[0], [getfl[0].bb]) and nb(c.args[1]) for c in cont) if getfl else False, "4", "T6-provenance", sn, "returns-previous-NONBLOCK", "the function reports whether NONBLOCK was set before", "set_nonblocking does not report the previous mode", site=sn.where())
    # the blocking mode is restored on the failure path of adapt_io as well (shared with C15.2), and a dropped /
    # unwrapped adapter leaves the poller (shared with C16.1): otherwise the fd cannot be adapted again
    from props import C15, C16, common

    common.import_results(ck, C15, "2", "Async::new", "4")
    common.import_results(ck, C16, "1", "Async", "4")
    common.import_results(ck, C16, "1", "IoLoopInner", "4")
    # a second adapt_io() of an fd that fails (EEXIST) must not delete the registration of the adapter that owns it: its
    # suspended task would never be woken (the registered flag is set only after the poller accepted the fd: C15.4)
    common.import_results(ck, C15, "4", "IoLoopInner", "2")
    # ---- shared clauses demonstrated by seeding round 7 (the property broken from a distant module) --------------
    from props import common as _c7
    import importlib as _il
    _m = lambda n: _il.import_module('props.' + n)
    _c7.import_results(ck, _m("C01"), "4", None, "4")  # the adapter's slot is not aliased by a stale token
    _c7.import_results(ck, _m("C20"), "4", "increment_version", "4")
    # ---- shared clauses demonstrated by seeding round 8 (the property broken by added code) --------------------
    from props import common as _c8
    import importlib as _il8
    _m8 = lambda n: _il8.import_module('props.' + n)
    _c8.import_results(ck, _m8("C14"), "4", "dispatch_events", "4")  # one-shot readiness past a batch cut-off is lost: the task is never woken
