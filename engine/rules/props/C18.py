"""C18 — TransientSource keeps its child's registration in step with its state (E3)."""
import os
import sys

sys.path.insert(0, os.path.join(os.path.dirname(os.path.abspath(__file__)), "..", "..", "typestate"))
import explore as E3
from core import AnchorMissing

LEVEL = "model_checking"
CONFIGS = ["full", "book", "default"]
NOT_DECIDED = [
    "children whose own register/unregister fail are explored only for 'the failing child and every registered child stay owned by the wrapper'; what the poller holds after a partial failure is not",
    "sequences that skip the documented re-registration after remove()/replace() (e.g. replace() twice before one reregister, or replace() followed by a parent unregister instead of a reregister): outside the protocol the statement quantifies over",
]
EXPLANATION = (
    "The state x call table of TransientSource (process_events x child result, register, reregister, unregister, remove, replace, "
    "map; replace_state and the replacer closures included) is extracted from the MIR on every run by symbolic execution (which "
    "child operation on which payload, next state, payloads dropped, value returned). The finite product automaton (state "
    "variant, registration status of every payload, parent registered?) is then explored breadth-first under the documented "
    "protocol — each burst (child post-action and/or remove()/replace()) is followed by the parent's reregister when the parent is "
    "registered; parent register/unregister alternate; update() at any time — checking at every transition: no register on a "
    "registered child, no unregister/reregister on an unregistered one, no payload dropped while registered, events forwarded "
    "only in Keep, process_events returns Continue/Reregister only, None is a no-op, and at quiescence the current child is "
    "registered iff the state is Keep and the parent is registered. Nothing is executed."
)
ASSUMPTIONS = [
    "the child's own register/reregister/unregister/process_events succeed (error exits are not explored)",
    "the environment follows the documented protocol (see coverage.not_decided)",
    "the symbolic executor (engine/typestate/symex.py) fails closed on any MIR construct it does not model",
]


def run(ck):
    depth = 6 if ck.tier == "quick" else 10
    r = E3.explore(ck.facts, max_depth=depth)
    ck._e3 = r
    if "error" in r:
        ck.anchor_missing("1", "T13-typestate", "TransientSource methods", r["error"])
        raise AnchorMissing("transient")
    for cell, why in sorted(r["extraction_errors"].items()):
        ck.anchor_missing("1", "T13-typestate", "extract:" + cell, "the cell %s could not be extracted (construct outside the modelled fragment: %s); nothing is claimed about it" % (cell, why))
    for key, v in sorted(r["findings"].items()):
        ck.violation("1", "T13-typestate", "TransientSource", key, "%s; shortest history: %s" % (v["what"], " ; ".join(v["history"][-4:])), site="src/sources/transient.rs", path=v["history"])
    seen_cells = set()
    for row in r["table"]:
        if row["cell"] in seen_cells:
            continue
        seen_cells.add(row["cell"])
        bad = any(k.startswith(row["cell"] + ":") for k in r["findings"])
        if not bad:
            ck.ok("1", "T13-typestate", "TransientSource", "cell:" + row["cell"], "child ops %s -> %s%s" % (row["child_ops"] or "none", row["next"], (" returns " + row["returns"]) if row["returns"] else ""), site="src/sources/transient.rs")
    ck.ok("1", "T13-typestate", "TransientSource", "explored", "%d reachable configurations, %d transitions, %d extracted cells, %d failing-child cells, depth %d" % (r["states"], r["transitions"], r["cells"], r.get("failure_cells", 0), depth), site="src/sources/transient.rs")
    ck.floor("1", "extracted (method x state x child result) cells", r["cells"], 40)
    ck.floor("1", "reachable configurations", r["states"], 8)
    ck.floor("1", "state variants", len(r["variants"]), 6)
    # the explorer assumes that an unregistered child is inert: the built-in fd child (Generic) must forget its poller
    # and token when unregistered, or the old child of a replace() deletes, when it is dropped after the new one was
    # registered, the registration of the new child on the same fd (shared with C07.2 / C16.1)
    from props import C07 as _C07, common as _cm

    _cm.import_results(ck, _C07, "2", "Generic", "2")
    # (round 7) .. and the timer child: Box<T> / &mut T forward reregister to the wrapper's own implementation rather than
    # to unregister-then-register (C01.6 wrappers), a re-registered timer retires its old arming (C01.7), and a replacement
    # timer does not take the replaced timer's expiry for its own (C05.6)
    import importlib as _il

    _il.import_module("props.C01").token_factory_rules(ck, "2")
    _cm.import_results(ck, _il.import_module("props.C01"), "6", None, "2")
    _cm.import_results(ck, _il.import_module("props.C05"), "6", "Timer", "2")
    # ---- shared clauses demonstrated by seeding round 8 (the property broken by added code) --------------------
    from props import common as _c8
    import importlib as _il8
    _m8 = lambda n: _il8.import_module('props.' + n)
    _c8.import_results(ck, _m8("C09"), "3", "dispatch_events", "2")  # every Reregister is applied (two children finishing in one batch ask twice)


def coverage_extra(checks):
    out = {}
    for c in checks:
        r = getattr(c, "_e3", None)
        if r and "states" in r:
            out = {"states": r["states"], "transitions": r["transitions"], "traces_validated_against_impl": 0, "extracted_cells": r["cells"], "exhaustive": True, "automaton_samples": r["samples"]}
    return out
