"""C19 — signals: signal-mask bookkeeping is exact; each pending signal reported once."""
from mir import op_place, place_str
import templates as T
from core import path_descr, AnchorMissing
from props import common

LEVEL = "other"
CONFIGS = ["full"]
NOT_DECIDED = ["signalfd / kernel delivery semantics; 'exactly once per pending instance'", "multi-threaded processes (the statement is about a single-threaded process)"]
EXPLANATION = (
    "Decides on the MIR of sources/signals.rs (feature `signals`): (1) in add_signals/remove_signals/set_signals the set given to "
    "SignalFd::set_mask is the value self.mask holds when the function returns Ok, and a thread-mask call is made on every such "
    "path; (2) the set handed to thread_unblock in a mutator is disjoint from the final mask by construction (each element added "
    "to it is removed from the final mask in the same iteration, or its insertion is guarded by !final.contains(s)); only Drop "
    "unblocks self.mask itself; (3) new() blocks, and creates the signalfd with, the same set, and records it; (4) the signalfd is "
    "registered level-triggered for READ, the read loop ends only on Ok(None)/Err, every siginfo read reaches the callback "
    "unchanged; (5) Signal::as_nix / from_num map every variant to the variant of the same name / number."
)

SIG = "nix::sys::signal::SigSet"


def sigcalls(b, name):
    return [cs for cs in b.calls() if cs.f and cs.f["path"] == SIG + "::" + name and not b.is_cleanup(cs.bb)]


def set_id(b, op, depth=0):
    """identity of a SigSet operand by *place*, not by value (SigSet is Copy: a local copy of
    self.mask is a different set): ('self.mask',) or ('local', local index)"""
    pl = op_place(op) if ("c" in op or "m" in op or "k" in op) else op
    if pl is None or depth > 8:
        return ("unknown", "?")
    if depth == 0:
        # a set reached through a reference parameter of an inlined helper or the environment of an expanded closure
        q = pl
        if b.facts.types[pl["t"]].get("k") == "ref" if isinstance(pl.get("t"), int) else False:
            q = {"l": pl["l"], "p": list(pl["p"]) + ["*"], "t": b.facts.types[pl["t"]]["t"]}
        org = T.place_origin(b, q)
        if org is not None:
            base, flds = org
            flds = tuple(x for x in flds if x != "*")
            bty = b.facts.types[b.facts.peel_refs(b.local_ty(base))]["s"]
            if not flds and bty == SIG and b.facts.types[b.local_ty(base)].get("k") != "ref" and (b.local_name(base) is not None or len(b.defs().get(base, [])) != 1 or b.defs()[base][0][0] != "assign" or b.defs()[base][0][3]["rv"]["r"] != "use"):
                return ("local", base)
            if flds and not (1 <= base <= b.arg_count) and b.facts.types[b.local_ty(base)].get("k") != "ref":
                # a SigSet field of a local struct value (sets bundled in a helper's result)
                return ("local", base, flds)
            if base == 1 and "mask" in flds:
                return ("self.mask",)
    names = [p["n"] for p in pl["p"] if isinstance(p, dict) and "f" in p]
    ty = b.facts.types[b.facts.peel_refs(pl["t"])]["s"]
    if "mask" in names and pl["l"] == 1:
        return ("self.mask",)
    if not pl["p"] and ty == SIG:
        if b.facts.types[pl["t"]].get("k") != "ref":
            # compiler temporaries are looked through; a user variable is an identity of its own
            if b.local_name(pl["l"]) is None and not (1 <= pl["l"] <= b.arg_count):
                ds = b.defs().get(pl["l"], [])
                if len(ds) == 1 and ds[0][0] == "assign" and ds[0][3]["rv"]["r"] == "use":
                    return set_id(b, ds[0][3]["rv"]["o"], depth + 1)
            return ("local", pl["l"])
    # a reference (or a reborrow of one): look at what it points to
    defs = b.defs().get(pl["l"], [])
    if len(defs) == 1 and defs[0][0] == "assign":
        rv = defs[0][3]["rv"]
        if rv["r"] == "ref":
            tgt = rv["pl"]
            tn = [p["n"] for p in tgt["p"] if isinstance(p, dict) and "f" in p]
            if "mask" in tn:
                base = b.resolve({"l": tgt["l"], "p": [], "t": 0})
                return ("self.mask",)
            if not tgt["p"]:
                return ("local", tgt["l"])
            if tgt["p"] == ["*"]:
                return set_id(b, {"l": tgt["l"], "p": [], "t": b.local_ty(tgt["l"])}, depth + 1)
        if rv["r"] == "use":
            return set_id(b, rv["o"], depth + 1)
    return ("unknown", place_str(pl))


def filters_out_final(b, fc, final_ids):
    """fc: an Iterator::filter call in b whose predicate is `!final.contains(x)` for a captured set that is
    (one of) the final mask(s)"""
    for cb in T.closure_bodies_passed(b, fc):
        caps = common.closure_captures(b, cb)
        negated = any(st["s"] == "assign" and st["pl"]["l"] == 0 and st["rv"]["r"] == "un" and st["rv"]["op"] == "Not" for i_, j_, st in cb.statements())
        cont = [c for c in cb.calls() if c.f and c.f["path"] == SIG + "::contains"]
        # (the captured set may be a reference parameter of an inlined helper: identify it by storage)
        cap_ok = any(loc is not None and (("local", loc) in final_ids or set_id(b, {"l": loc, "p": [], "t": b.local_ty(loc)}) in final_ids) for n_, (loc, aps, _) in caps.items())
        if negated and cont and cap_ok:
            return True
    return False


def run(ck):
    f = ck.facts
    if not ck.has("signals"):
        return
    okrets = lambda b: [i for i, j, st in b.statements() if st["s"] == "assign" and st["pl"]["l"] in T.ret_locals(b) and st["rv"]["r"] == "agg" and st["rv"].get("variant") == "Ok" and not b.is_cleanup(i)]
    for q in ("Signals::add_signals", "Signals::remove_signals", "Signals::set_signals"):
        b = ck.opt_body(q)
        if b is None:
            ck.anchor_missing("1", "T6-provenance", q)
            continue
        sm = [cs for cs in b.calls() if cs.name == "set_mask" and not b.is_cleanup(cs.bb)]
        rets = okrets(b)
        thread_calls = sigcalls(b, "thread_block") + sigcalls(b, "thread_unblock") + sigcalls(b, "thread_set_mask") + sigcalls(b, "thread_swap_mask")
        delegated = [cs for cs in b.calls() if cs.callee_body() is not None and cs.callee_body().qual in ("Signals::add_signals", "Signals::remove_signals", "Signals::set_signals") and not b.is_cleanup(cs.bb)]
        if not sm and not delegated:
            ck.violation("1", "T6-provenance", b, "signalfd-mask-updated", "%s never updates the signalfd's mask" % q, site=b.where())
            continue
        bad = T.t2_all_exits(b, [0], [c.bb for c in sm + delegated], exits=rets)
        ck.verdict(bad is None, "1", "T2-all-exits", b, "Ok=>signalfd-mask-updated", "every successful return has updated the signalfd's mask", "%s can return Ok without updating the signalfd's mask: the source keeps (not) reporting signals whose configuration changed" % q, site=b.where())
        bad = T.t2_all_exits(b, [0], [c.bb for c in thread_calls + delegated], exits=rets)
        ck.verdict(bad is None, "1", "T2-all-exits", b, "Ok=>thread-mask-updated", "every successful return has updated the thread's signal mask", "%s can return Ok without updating the thread's signal mask" % q, site=b.where())
        # the bookkeeping never runs ahead of the thread mask: once self.mask has been changed in place, no exit - error
        # exits included - is reached before the thread mask has at least been attempted (a fallible step between the
        # two, e.g. a validation inside the loop that adds the signals, leaves signals recorded that are neither blocked
        # nor in the signalfd; the next successful call then blocks signals its caller never asked for)
        muts = [c for nm in ("add", "remove", "clear", "extend") for c in sigcalls(b, nm) if c.args and set_id(b, c.args[0]) == ("self.mask",)]
        for c in muts:
            bad = T.t2_all_exits(b, [c.to], [x.bb for x in thread_calls + delegated]) if c.to is not None else None
            ck.verdict(bad is None, "1", "T2-all-exits", b, "self.mask-changed=>thread-mask-attempted", "after self.mask was changed in place every exit, error exits included, has gone through the thread-mask call", "%s can return (with an error) after having changed self.mask but before touching the thread mask: the recorded set contains signals that are neither blocked nor reported" % q, site=b.where(c.bb), path=path_descr(b, bad) if bad else None)
        final_ids = set()
        for c in sm:
            sid = set_id(b, c.args[1])
            final_ids.add(sid)
            if sid == ("self.mask",):
                later = [i for i, j, st in T.stores_to_field(b, "mask") if i in b.reachable([c.to]) and not b.is_cleanup(i)]
                ck.verdict(not later, "1", "T6-provenance", b, "set_mask(self.mask)=final-mask", "the signalfd gets self.mask and self.mask is not changed afterwards", "self.mask is overwritten after the signalfd was given the previous value", site=b.where(c.bb))
            elif sid[0] == "local":
                stores = [i for i, j, st in T.stores_to_field(b, "mask") if not b.is_cleanup(i) and st["rv"]["r"] == "use" and set_id(b, st["rv"]["o"]) == sid]
                bad = T.t2_all_exits(b, [c.to], stores, exits=rets) if stores else [0]
                ck.verdict(bad is None, "1", "T2-all-exits", b, "set_mask(local)=>self.mask:=local", "the set given to the signalfd is stored into self.mask on every successful path", "the signalfd is given a new set that is never stored into self.mask: the bookkeeping goes stale and a later add/remove/set re-blocks (or keeps reporting) the wrong signals", site=b.where(c.bb), path=path_descr(b, bad) if bad else None)
            else:
                ck.violation("1", "T6-provenance", b, "set_mask-argument", "the signalfd is given a set that is neither self.mask nor a local set stored into self.mask (%s)" % (sid,), site=b.where(c.bb))
        # a set that is stored into self.mask is (an alias of) the final mask
        for i, j, st in T.stores_to_field(b, "mask"):
            if not b.is_cleanup(i) and st["rv"]["r"] == "use" and ("self.mask",) in final_ids:
                sid = set_id(b, st["rv"]["o"])
                if sid[0] == "local":
                    final_ids.add(sid)
        # ---- clause 2 ----------------------------------------------------------------------------------
        for u in sigcalls(b, "thread_unblock"):
            rid = set_id(b, u.args[0])
            if rid == ("self.mask",):
                ck.violation("2", "T14-set-provenance", b, "unblock-disjoint-from-final-mask", "%s unblocks self.mask as a whole: signals that stay configured are unblocked for a moment, so a pending instance is delivered with its default disposition (the process is killed) instead of to the source" % q, site=b.where(u.bb))
                continue
            # the other way round: the *final mask* is what is left of the old one after filtering out the unblocked set
            # (`self.mask = old.iter().filter(|s| !removed.contains(s)).collect()`): disjoint by construction
            if rid[0] == "local":
                dis = False
                for i_, j_, st_ in T.stores_to_field(b, "mask"):
                    if b.is_cleanup(i_) or st_["rv"]["r"] != "use":
                        continue
                    work, seen_ = [], set()
                    for r_, p_ in b.resolve(st_["rv"]["o"]):
                        if r_[0] == "call":
                            work.append(b.call_at(r_[1]))
                    while work:
                        x = work.pop()
                        if x is None or x.bb in seen_:
                            continue
                        seen_.add(x.bb)
                        if x.name == "filter" and filters_out_final(b, x, {rid}):
                            dis = True
                        for a_ in x.args[:1]:
                            for r_, p_ in b.resolve(a_):
                                if r_[0] == "call":
                                    work.append(b.call_at(r_[1]))
                if dis:
                    ck.ok("2", "T14-set-provenance", b, "unblock-disjoint-from-final-mask", "the final mask is the old one filtered by !unblocked.contains(s): no signal of the final mask is in the unblocked set", site=b.where(u.bb))
                    continue
            adds = [a for a in sigcalls(b, "add") if set_id(b, a.args[0]) == rid]
            if rid[0] == "local" and not adds:
                # the set is collected from an iterator: `old.iter().filter(|s| !final.contains(s)).collect()`
                ds = b.defs().get(rid[1], [])
                coll = [b.call_at(d[1]) for d in ds if d[0] == "call" and b.call_at(d[1]).name in ("collect", "from_iter")]
                if coll and len(coll) == len(ds):
                    allok = True
                    for cc in coll:
                        chain, seen_bb, work = [], set(), [cc]
                        while work:
                            x = work.pop()
                            if x is None or x.bb in seen_bb:
                                continue
                            seen_bb.add(x.bb)
                            chain.append(x)
                            for r_, p_ in b.resolve(x.args[0]) if x.args else []:
                                if r_[0] == "call":
                                    work.append(b.call_at(r_[1]))
                        ok = False
                        for fc in chain:
                            if fc.name == "filter" and filters_out_final(b, fc, final_ids):
                                ok = True
                        allok = allok and ok
                    ck.verdict(allok, "2", "T14-set-provenance", b, "unblock-disjoint-from-final-mask", "the unblocked set is collected from an iterator filtered by !final.contains(s): no signal of the final mask is in it", "%s unblocks a collected set that is not filtered against the final mask: signals that stay configured are unblocked, so a pending instance is delivered with its default disposition" % q, site=b.where(u.bb))
                    continue
            if rid[0] != "local" or not adds:
                ck.violation("2", "T14-set-provenance", b, "unblock-disjoint-from-final-mask", "the set handed to thread_unblock (%s) is not built element by element in this function" % (rid,), site=b.where(u.bb))
                continue
            allok = True
            for a in adds:
                ok = False
                # (a) guarded by !final.contains(element)
                for c in sigcalls(b, "contains"):
                    if set_id(b, c.args[0]) in final_ids or (set_id(b, c.args[0])[0] == "local" and set_id(b, c.args[0]) != rid):
                        tr, fa = T.bool_split(b, c.bb)
                        same_el = b.resolve(c.args[1]) & b.resolve(a.args[1]) or T.copy_chain_locals(b, c.args[1]) & T.copy_chain_locals(b, a.args[1])
                        if fa and same_el and T.reachable_only_via(b, a.bb, fa):
                            ok = True
                # (a') the iterated collection is already filtered by `!final.contains(x)`
                for h, blk in b.loops().items():
                    if a.bb not in blk:
                        continue
                    hc = b.call_at(h)
                    if hc is None or hc.name != "next":
                        continue
                    for r_, p_ in b.resolve(hc.args[0]):
                        if r_[0] != "call":
                            continue
                        fc = b.call_at(r_[1])
                        if fc.name != "filter":
                            continue
                        if filters_out_final(b, fc, final_ids):
                            ok = True
                # (b) the same element is removed from the final mask in the same iteration
                for r_ in sigcalls(b, "remove"):
                    if set_id(b, r_.args[0]) in final_ids:
                        loops = b.loops()
                        same_loop = any(r_.bb in blk and a.bb in blk for blk in loops.values())
                        el_r = {rr for rr, pp in b.resolve(r_.args[1])}
                        el_a = {rr for rr, pp in b.resolve(a.args[1])}
                        same_src = False
                        for x in el_r:
                            for y in el_a:
                                if x[0] == "call" and y[0] == "call":
                                    cx, cy = b.call_at(x[1]), b.call_at(y[1])
                                    if cx.name == cy.name and T.copy_chain_locals(b, cx.args[0]) & T.copy_chain_locals(b, cy.args[0]):
                                        same_src = True
                        if same_loop and same_src and (b.dominates(r_.bb, a.bb) or b.dominates(a.bb, r_.bb)):
                            ok = True
                allok = allok and ok
            ck.verdict(allok, "2", "T14-set-provenance", b, "unblock-disjoint-from-final-mask", "every signal put into the set that is unblocked is, by construction, not in the final mask", "%s unblocks signals that may stay configured (their insertion into the unblocked set is neither guarded by !new_mask.contains(s) nor paired with a removal from the final mask): a pending instance is delivered with its default disposition" % q, site=b.where(u.bb))
        for d in delegated:
            if d.callee_body().qual == "Signals::remove_signals" and q == "Signals::set_signals":
                ck.violation("2", "T14-set-provenance", b, "unblock-disjoint-from-final-mask", "set_signals is implemented by removing signals through remove_signals and adding the new list: signals that stay configured are unblocked in between, so a pending instance is delivered with its default disposition instead of to the source", site=b.where(d.bb))
    # ---- clause 2b: the thread mask is only ever changed incrementally ---------------------------------------------
    # thread_block adds, thread_unblock removes. Installing a set as the *whole* mask (thread_set_mask / thread_swap_mask,
    # sigprocmask/pthread_sigmask with SIG_SETMASK) also unblocks every signal some other Signals source of the thread, or
    # the application, has blocked: "signals that are not configured ... keep their normal disposition" and the other
    # source's "exactly the configured signals are blocked" both break.
    nmask = 0
    for b in f.bodies.values():
        if not b.file.endswith("signals.rs"):
            continue
        for cs in b.calls():
            if b.is_cleanup(cs.bb) or not cs.f:
                continue
            pth = cs.f["path"]
            if pth in (SIG + "::thread_block", SIG + "::thread_unblock"):
                nmask += 1
            whole = pth in (SIG + "::thread_set_mask", SIG + "::thread_swap_mask") or (cs.name in ("sigprocmask", "pthread_sigmask") and any("SETMASK" in T.const_name(b, a) or any(v[1] == "SIG_SETMASK" for v in T.agg_variant(b, a)) for a in cs.args))
            if whole:
                ck.violation("2", "T7-who-may-call", b, "whole-mask-install:" + cs.name, "%s replaces the thread's entire signal mask: every signal blocked by another Signals source of this thread (or by the application) is unblocked, and is then delivered with its default disposition instead of to its source" % cs.name, site=b.where(cs.bb))
    ck.floor("2", "incremental thread-mask calls (thread_block / thread_unblock) in signals.rs", nmask, 3)

    # ---- clause 3: new / Drop ----------------------------------------------------------------------------------
    nw = ck.body("3", "Signals::new")
    tb = sigcalls(nw, "thread_block")
    wf = [cs for cs in nw.calls() if cs.name in ("with_flags", "new") and cs.f and "SignalFd" in cs.f["path"] and not nw.is_cleanup(cs.bb)]
    agg = [st for i, j, st in nw.statements() if st["s"] == "assign" and st["rv"]["r"] == "agg" and st["rv"].get("adt", "").endswith("signals::Signals")]
    ok = bool(tb) and bool(wf) and bool(agg)
    if ok:
        ids = {set_id(nw, tb[0].args[0]), set_id(nw, wf[0].args[0])}
        fld = dict(zip(agg[0]["rv"]["field_names"], agg[0]["rv"]["fields"]))
        if "mask" in fld:
            ids.add(set_id(nw, fld["mask"]))
            ok = len(ids) == 1 and list(ids)[0][0] == "local"
        else:
            ok = False  # the source no longer records its mask in a `mask` field: nothing to compare the blocked set with
    ck.verdict(ok, "3", "T6-provenance", nw, "block=signalfd=recorded-mask", "the set that is blocked, the set the signalfd is created with and the recorded mask are the same set", "Signals::new does not use one and the same set for the thread mask, the signalfd and its bookkeeping", site=nw.where())
    dr = ck.body("3", "<Signals as Drop>::drop")
    un = sigcalls(dr, "thread_unblock")
    ck.verdict(bool(un) and all(set_id(dr, c.args[0]) == ("self.mask",) for c in un) and T.t2_all_exits(dr, [0], [c.bb for c in un]) is None, "3", "T2-all-exits", dr, "drop-unblocks-self.mask", "dropping the source unblocks exactly the recorded mask", "dropping the source does not unblock the configured signals", site=dr.where())
    # ---- clause 4 ------------------------------------------------------------------------------------------------
    gn = T.calls(nw, name=("new", "new_with_error"), path="Generic")
    for c in gn:
        interest = T.const_name(nw, c.args[1])
        ck.verdict(interest.endswith("Interest::READ") and T.agg_variant(nw, c.args[2]) == {("sys::Mode", "Level")}, "4", "T6-provenance", nw, "signalfd-registered:READ+Level", "the signalfd is registered for READ, level-triggered", "the signalfd is not registered level-triggered for READ", site=nw.where(c.bb))
    pe = ck.body("4", "<Signals as EventSource>::process_events")
    cls = [c for cs in T.calls(pe, name="process_events", trait="EventSource") for c in T.closure_bodies_passed(pe, cs)]
    if not cls:
        ck.anchor_missing("4", "T5-loop-exit", "Signals::process_events: read closure")
    else:
        cl = cls[0]
        rs = [cs for cs in cl.calls() if cs.name == "read_signal"]
        cbs = T.calls(cl, name=("call_mut", "call", "call_once"), self_kind=("param",))
        if rs and cbs:
            r0 = rs[0]
            loops = [blk for h, blk in cl.loops().items() if r0.bb in blk]
            ok_e, err_e, _ = T.result_split(cl, r0.bb)
            some, none = T.option_split(cl, r0.bb)
            if loops:
                ex = [(a, x) for a, x, lab in T.loop_exit_edges(cl, loops[0]) if lab != "unwind" and cl.blocks[x]["term"]["t"] != "unreachable"]
                ck.verdict(set(ex) <= set(none) | set(err_e), "4", "T5-loop-exit", cl, "read-loop-exits-only-on-None-or-Err", "the read loop ends only when the signalfd is empty or failed", "the read loop can stop while signals are still queued in the signalfd", site=cl.where(r0.bb))
            else:
                ck.ok("4", "T5-loop-exit", cl, "single-read-per-dispatch(level-triggered)", "one read per dispatch; the level-triggered registration reports the rest again", site=cl.where(r0.bb))
            bad = T.t2_all_exits(cl, [x for _, x in some], [c.bb for c in cbs], exits={r0.bb} | set(cl.return_blocks()))
            ck.verdict(bool(some) and bad is None, "4", "T2-all-exits", cl, "siginfo-read=>callback", "every siginfo read from the signalfd reaches the callback", "a siginfo can be read from the signalfd and dropped without calling back (a signal instance is lost)", site=cl.where(r0.bb))
            for cb in cbs:
                okp = False
                for r, p in cl.resolve(cb.args[1]):
                    if r[0] == "agg":
                        ev = cl.agg_at(r[1], r[2])["fields"][0]
                        for r2, p2 in cl.resolve(ev):
                            if r2[0] == "agg":
                                info = cl.agg_at(r2[1], r2[2])["fields"][0]
                                okp = T.resolves_to_call(cl, info, [r0.bb])
                ck.verdict(okp, "4", "T6-provenance", cl, "Event{info}=siginfo-read", "the event carries the siginfo that was read, unchanged", "the event given to the callback is not the siginfo that was read", site=cl.where(cb.bb))
        else:
            ck.anchor_missing("4", "T5-loop-exit", "read_signal / callback in the read closure")
    # ---- clause 5: variant mapping -----------------------------------------------------------------------------------
    an = ck.opt_body("Signal::as_nix")
    sig = f.adts.get("sources::signals::Signal")
    if an is None or sig is None:
        ck.anchor_missing("5", "T9-layout", "Signal::as_nix")
    else:
        by_discr = {v["discr"]: v["name"] for v in sig["variants"]}
        sws = T.switches_on_discr_of(an, lambda pl: pl["l"] == 1 and not pl["p"])
        mism = []
        n = 0
        if sws:
            sw = sws[0]
            for v, tgt in an.blocks[sw]["term"]["targets"]:
                name = by_discr.get(v)
                # the arm's block assigns _0 = nix Signal::<Name>
                cur = tgt
                got = None
                for _ in range(3):
                    for st in an.blocks[cur]["st"]:
                        if st["s"] == "assign" and st["pl"]["l"] == 0 and st["rv"]["r"] == "agg":
                            got = st["rv"].get("variant")
                    if got or an.blocks[cur]["term"]["t"] != "goto":
                        break
                    cur = an.blocks[cur]["term"]["to"]
                n += 1
                if got != name:
                    mism.append((name, got))
        ck.verdict(n >= len(by_discr) - 1 and not mism, "5", "T9-layout", an, "as_nix:same-name", "%d variants map to the nix signal of the same name" % n, "Signal::as_nix maps %s" % mism[:4], site=an.where())
    # the decoder of signal numbers, found by its role: the local function with one integer parameter that returns Signal
    dec = [b_ for b_ in list(f.bodies.values()) + f.dropped_helper_bodies() if b_.kind in ("Fn", "AssocFn") and b_.arg_count == 1 and f.types[b_.local_ty(0)]["s"] == "sources::signals::Signal" and f.types[b_.local_ty(1)]["s"] in ("i32", "u32", "std::ffi::c_int", "u8", "i64", "usize")]
    fnm = dec[0] if len(dec) == 1 else None
    if fnm is None:
        ck.anchor_missing("5", "T9-layout", "Signal::from_num")
    if fnm is not None and sig is not None:
        by_discr = {v["discr"]: v["name"] for v in sig["variants"]}
        mism = []
        n = 0
        for sw, blk in enumerate(fnm.blocks):
            t = blk["term"]
            if t["t"] != "switch" or len(t["targets"]) < 10:
                continue
            for v, tgt in t["targets"]:
                cur = tgt
                got = None
                for _ in range(3):
                    for st in fnm.blocks[cur]["st"]:
                        if st["s"] == "assign" and st["pl"]["l"] == 0 and st["rv"]["r"] == "agg":
                            got = st["rv"].get("variant")
                    if got or fnm.blocks[cur]["term"]["t"] != "goto":
                        break
                    cur = fnm.blocks[cur]["term"]["to"]
                n += 1
                if by_discr.get(v) != got:
                    mism.append((v, by_discr.get(v), got))
        ck.verdict(n >= len(by_discr) - 1 and not mism, "5", "T9-layout", fnm, "from_num:number->same-variant", "%d signal numbers map to the variant whose discriminant is that number" % n, "Signal::from_num maps %s" % mism[:4], site=fnm.where())
    ev = ck.opt_body("Event::signal")
    if ev is not None:
        fn_ = [cs for cs in ev.calls() if fnm is not None and cs.callee_body() is fnm]
        inl = fnm is not None and fnm.key in ev.raw.get("inlined", []) and any(any(T.path_has(ev, a, ".ssi_signo") for a in c.args) for c in ev.calls() if c.name in ("try_from", "from", "try_into", "into") and not ev.is_cleanup(c.bb))
        ck.verdict((bool(fn_) and all(T.path_has(ev, c.args[0], ".ssi_signo") for c in fn_)) or inl, "5", "T6-provenance", ev, "signal()=from_num(ssi_signo)", "the reported signal is decoded from ssi_signo", "Event::signal does not decode ssi_signo", site=ev.where())
    # ---- shared clauses demonstrated by seeding round 7 (the property broken from a distant module) --------------
    from props import common as _c7
    import importlib as _il
    _m = lambda n: _il.import_module('props.' + n)
    _c7.dispatch_infra(ck, "6")  # a sibling's deferred Disable never reaches the signal source
    _c7.import_results(ck, _m("C05"), "1", "Poll::poll", "6")
    _c7.import_results(ck, _m("C02"), "2", "Poll::poll", "6")
    _c7.import_e3(ck, "6", lambda inst: True)  # a Signals source inside a TransientSource: map() reaches the current child


