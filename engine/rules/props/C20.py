"""C20 — poller keys encode (slot, generation, sub-source) injectively and reversibly."""
import os
import sys

sys.path.insert(0, os.path.join(os.path.dirname(os.path.abspath(__file__)), "..", "..", "bits"))
import bitdom as B
from mir import op_place, place_str
import templates as T
from core import path_descr, AnchorMissing

LEVEL = "proof"
CONFIGS = ["full", "book", "default"]
NOT_DECIDED = ["32- and 16-bit targets (not built here)", "that polling's reserved notification key is usize::MAX (documented API contract of polling::Event keys; assumed)"]
EXPLANATION = (
    "Abstract interpretation of the MIR of the pack/unpack conversions and of the token mutators over a bit-provenance domain "
    "(each output bit is 0, 1, a named input bit, or unknown): discharges, for every representable (id, version, sub_id) at once, "
    "injectivity of the key, pack/unpack round trips in both directions, key != usize::MAX unless id = 2^32-1, the shape of "
    "increment_version / forget_sub_id, the absence of overflow/shift panics, the constant relations, and (T4) that "
    "increment_sub_id returns only below the maximum and panics otherwise."
)
ASSUMPTIONS = [
    "64-bit target (usize = 64 bits), as built on this host",
    "polling reserves exactly the key usize::MAX for its notifier",
    "rustc's MIR for the analysed functions is what is compiled; u16::wrapping_add(x, 1) is a bijection on u16",
]


def run(ck):
    f = ck.facts
    obligations = []

    def ob(name, ok, why_ok, why_bad, fn=None, site=None):
        obligations.append((name, ok))
        ck.verdict(ok, name.split(":")[0], "T14-bit-provenance", fn or "<crate>", name.split(":", 1)[1], why_ok, why_bad, site=site if site is not None else (fn.where() if fn is not None else ""))

    pack = ck.body("1", "<usize as From>::from")
    unpack = ck.body("2", "<TokenInner as From>::from")
    W = {"id": 32, "version": 16, "sub_id": 16}
    adt = f.adts.get("token::TokenInner")
    if adt is None:
        ck.anchor_missing("1", "T14-bit-provenance", "token::TokenInner")
        raise AnchorMissing("TokenInner")
    for fld in adt["variants"][0]["fields"]:
        W[fld["name"]] = B.WIDTH.get(f.types[fld["ty"]]["s"], 0)
    sym_tok = {n: B.sym_input(n, w) for n, w in W.items()}
    # ---- 1: pack is injective ---------------------------------------------------------------------
    try:
        it = B.Interp(pack, {1: sym_tok})
        key = it.run()
        asserts = it.obligations
        no_top = all(x != "T" for x in key)
        occ = {}
        for pos, x in enumerate(key):
            if isinstance(x, tuple):
                occ.setdefault(x, []).append(pos)
        all_once = all(len(occ.get(("in", n, i), [])) == 1 for n, w in W.items() for i in range(w))
        ob("1:pack-is-a-bit-permutation", len(key) == 64 and no_top and all_once, "every bit of id(32), version(16), sub_id(16) occurs exactly once in the 64-bit key and no bit is unknown: the key is injective on all representable triples", "the packed key is not a bit permutation of (id, version, sub_id): %s" % ("unknown bits" if not no_top else "some input bit is missing or duplicated"), pack)
        for d, ok, where in asserts:
            ob("1:no-panic:" + d.split(": ", 1)[1][:60], ok, "overflow/shift assertion discharged (carry-free addition / constant shift in range)", "an overflow or shift assertion in the packing code can fail for some token", pack, where)
        # ---- 3: reserved notification key ---------------------------------------------------------------
        id_pos = sorted(p for (k, n, i), ps in occ.items() if n == "id" for p in ps) if occ else []
        ob("3:key!=usize::MAX-unless-id-all-ones", len(id_pos) == 32 and no_top, "32 distinct key bits are driven by the 32 id bits, so the key is all-ones only if id = 2^32-1", "the key can be all-ones for a slot index below 2^32-1", pack)
    except B.Undecided as e:
        key = None
        ob("1:pack-is-a-bit-permutation", False, "", "the packing function left the decidable fragment: %s" % e, pack)
    # ---- 2: round trips -------------------------------------------------------------------------------
    try:
        if key is not None:
            it2 = B.Interp(unpack, {1: key})
            tok = it2.run()
            ok = isinstance(tok, dict) and all(tok.get(n) == sym_tok[n] for n in W)
            ob("2:unpack(pack(t))==t", ok, "decoding the symbolic key yields exactly the original id, version and sub_id bits", "decoding a packed key does not give back the same (id, version, sub_id): %s" % ({n: "ok" if tok.get(n) == sym_tok[n] else "differs" for n in W} if isinstance(tok, dict) else tok), unpack)
            for d, ok2, where in it2.obligations:
                ob("2:no-panic:" + d.split(": ", 1)[1][:60], ok2, "assertion discharged", "a shift/overflow assertion in the unpacking code can fail", unpack, where)
        itv = B.Interp(unpack, {1: B.sym_input("key", 64)})
        tokv = itv.run()
        it3 = B.Interp(pack, {1: tokv})
        back = it3.run()
        ob("2:pack(unpack(k))==k", back == B.sym_input("key", 64), "re-encoding a decoded key yields the same 64 bits: the encoding is onto, every key names exactly one triple", "pack(unpack(key)) differs from key: some key bits are dropped by the decoder", unpack)
    except B.Undecided as e:
        ob("2:unpack(pack(t))==t", False, "", "the unpacking function left the decidable fragment: %s" % e, unpack)

    # ---- 4: increment_version / forget_sub_id ------------------------------------------------------------
    def wadd(args):
        a, b = args
        if a == sym_tok["version"] and B.is_const(b) and B.to_int(b) == 1:
            return [("f", "wrapping_add1", "version", i) for i in range(len(a))]
        raise B.Undecided("wrapping_add on something else than (version, 1)")

    iv = ck.body("4", "TokenInner::increment_version")
    try:
        it4 = B.Interp(iv, {1: sym_tok}, opaque_calls={"wrapping_add": wadd})
        nt = it4.run()
        ok_id = nt["id"] == sym_tok["id"]
        ok_sub = nt["sub_id"] == [0] * 16
        ok_ver = nt["version"] == [("f", "wrapping_add1", "version", i) for i in range(16)]
        ob("4:increment_version:id-unchanged", ok_id, "id bits are copied unchanged", "increment_version changes the slot index", iv)
        ob("4:increment_version:sub_id-cleared", ok_sub, "sub_id is zero", "increment_version does not clear the sub-id", iv)
        ob("4:increment_version:version=wrapping_add(version,1)-unmasked-bits", ok_ver, "the new version is wrapping_add(version, 1) with no bit masked away: a bijection on the 16-bit generation, carries cannot leave the field", "the new generation is not wrapping_add(version,1) over the whole field (bits masked away or polluted by other fields): %s" % nt["version"][:3], iv)
    except (B.Undecided, KeyError, TypeError) as e:
        # another arithmetic form ((v + 1) % 65536 on a wider type, ..): settle it by running the function on every
        # 16-bit generation (engine/bits/concrete.py)
        ex = exhaustive_increment_version(f, iv)
        if ex is None:
            ob("4:increment_version:shape", False, "", "increment_version left the decidable fragment (%s): the generation bump may carry into / depend on other fields" % e, iv)
        else:
            ob("4:increment_version:all-65536-generations", ex == "", "evaluated on every generation 0..65535 (and boundary ids / sub-ids): the result is (id, (version + 1) mod 2^16, 0)", "increment_version is wrong for some input: %s" % ex, iv)
    fs = ck.body("4", "TokenInner::forget_sub_id")
    try:
        it5 = B.Interp(fs, {1: sym_tok})
        nt = it5.run()
        ob("4:forget_sub_id:shape", nt["id"] == sym_tok["id"] and nt["version"] == sym_tok["version"] and nt["sub_id"] == [0] * 16, "id and version unchanged, sub_id zero", "forget_sub_id changes id/version or keeps the sub-id", fs)
    except (B.Undecided, KeyError, TypeError) as e:
        ob("4:forget_sub_id:shape", False, "", "forget_sub_id left the decidable fragment: %s" % e, fs)

    # ---- 5: increment_sub_id fails loudly ---------------------------------------------------------------------
    isi = ck.body("5", "TokenInner::increment_sub_id")
    ca = T.calls(isi, name="checked_add")
    rets = [(i, st) for i, j, st in isi.statements() if st["s"] == "assign" and st["pl"]["l"] in T.ret_locals(isi) and st["rv"]["r"] == "agg" and not isi.is_cleanup(i)]
    ok5 = False
    why = "no checked_add"
    if ca and rets:
        some, none = T.option_split(isi, ca[0].bb)
        # the bound test: Le/Lt(payload, MASK) true edge
        bound_edges = []
        for sw, blk in enumerate(isi.blocks):
            if blk["term"]["t"] != "switch":
                continue
            on = op_place(blk["term"]["on"])
            if on is None:
                continue
            for d in isi.defs().get(on["l"], []):
                if d[0] == "assign" and d[3]["rv"]["r"] == "bin" and d[3]["rv"]["op"] in ("Le", "Lt"):
                    rv = d[3]["rv"]
                    kb = rv["b"].get("k") or {}
                    bval = None
                    try:
                        bval = B.to_int(B.Interp(isi, {}).operand(rv["b"])) if "k" in rv["b"] else None
                    except Exception:
                        bval = None
                    if bval is None:
                        # `MASK as u16` temp
                        pb = op_place(rv["b"])
                        for d2 in isi.defs().get(pb["l"], []) if pb else []:
                            if d2[0] == "assign" and d2[3]["rv"]["r"] == "cast" and "k" in d2[3]["rv"]["o"]:
                                bval = d2[3]["rv"]["o"]["k"].get("v")
                    limit = bval if rv["op"] == "Le" else (bval - 1 if bval is not None else None)
                    if limit is not None and limit <= 0xFFFF and T.resolves_to_call(isi, rv["a"], [ca[0].bb]):
                        e, tr, fa = isi.bool_edges(sw)
                        bound_edges += [(sw, x) for x in tr]
        ok_ret = all(T.reachable_only_via(isi, i, some) and (not bound_edges or T.reachable_only_via(isi, i, bound_edges)) for i, st in rets)
        flds = dict(zip(rets[0][1]["rv"]["field_names"], rets[0][1]["rv"]["fields"]))
        ok_payload = T.resolves_to_call(isi, flds["sub_id"], [ca[0].bb]) and T.resolves_to_arg(isi, flds["id"], 1) and T.path_has(isi, flds["id"], ".id") and T.path_has(isi, flds["version"], ".version")
        arg_ok = T.path_has(isi, ca[0].args[0], ".sub_id") and (ca[0].args[1].get("k", {}).get("v") == 1)
        # the None edge must not reach a return
        none_ret = isi.find_path([x for _, x in none], isi.return_blocks()) if none else [0]
        ok5 = bool(some) and ok_ret and ok_payload and arg_ok and none_ret is None
        why = "return-guard=%s payload=%s arg=%s overflow-edge-returns=%s" % (ok_ret, ok_payload, arg_ok, none_ret is not None)
    if not ok5:
        ex5 = exhaustive_increment_sub_id(f, isi)
        if ex5 is not None:
            ob("5:increment_sub_id:all-65536-sub-ids", ex5 == "", "evaluated on every sub-id 0..65535: returns (id, version, sub_id + 1) below 65535 and panics at 65535", "increment_sub_id is wrong for some input: %s" % ex5, isi)
            ok5 = None
    if ok5 is not None:
      ob("5:increment_sub_id:returns-only-checked_add-Some-and-within-mask,-else-panics", ok5, "the non-panicking return is reachable only when checked_add(sub_id, 1) is Some (and within the mask); its payload becomes the new sub_id, id/version unchanged; the overflow edge cannot return", "increment_sub_id can return after the sub-id overflowed / wraps silently (%s)" % why, isi)

    # ---- 6: TokenFactory hands out the current token and advances (shared with C01.7) ----
    from props import C01
    n0 = len(ck.results)
    C01.token_factory_rules(ck, "6")
    # every key the poller reports is decoded into a PollEvent of its own (no merging of the events of different
    # sub-tokens of one source): shared with C02.2
    from props import C02 as _C02, common as _cm20

    _cm20.import_results(ck, _C02, "2", "Poll::poll", "6")
    # a slot that was handed out keeps its generation counter for good (the slot vector never shrinks): shared with C01.4
    _cm20.import_results(ck, C01, "4", None, "6")
    # .. and no event is merged into another one after the poll (its sub-token would be lost): shared with C14.4
    from props import C14 as _C14

    _cm20.import_results(ck, _C14, "4", "dispatch_events", "6")
    for r in ck.results[n0:]:
        obligations.append((r["key"], r["verdict"] == "ok"))

    # ---- 7: constants -------------------------------------------------------------------------------------------
    bv, bs = f.const_value("token::BITS_VERSION"), f.const_value("token::BITS_SUBID")
    mv, ms = f.const_value("token::MASK_VERSION"), f.const_value("token::MASK_SUBID")
    okc = None not in (bv, bs, mv, ms)
    ob("7:constants:BITS_VERSION<=width(version)", okc and bv <= W["version"], "BITS_VERSION=%s <= %d" % (bv, W["version"]), "BITS_VERSION=%s exceeds the width of the version field" % bv)
    ob("7:constants:BITS_SUBID<=width(sub_id)", okc and bs <= W["sub_id"], "BITS_SUBID=%s <= %d" % (bs, W["sub_id"]), "BITS_SUBID=%s exceeds the width of the sub_id field" % bs)
    ob("7:constants:id+version+sub_id-fit-usize", okc and W["id"] + bv + bs <= 64, "%d+%s+%s <= 64" % (W["id"], bv, bs), "the three fields do not fit a 64-bit key")
    ob("7:constants:masks=2^BITS-1", okc and mv == (1 << bv) - 1 and ms == (1 << bs) - 1, "MASK_VERSION=%s, MASK_SUBID=%s" % (mv, ms), "a mask is not 2^BITS-1 (MASK_VERSION=%s for %s bits, MASK_SUBID=%s for %s bits)" % (mv, bv, ms, bs))
    ob("7:constants:field-widths-fully-used", okc and bv == W["version"] and bs == W["sub_id"], "the masks cover the whole u16 fields, so every representable generation/sub-id is encodable", "the version/sub_id fields are wider than their masks: representable values are not encodable (BITS_VERSION=%s, BITS_SUBID=%s)" % (bv, bs))
    ck._obligations = obligations
    # ---- 7b: two tokens are equal exactly when id, generation and sub-id are (the lifecycle set, and users, compare
    # RegistrationTokens with ==): an equality that ignores the generation makes a stale token equal to the token of the
    # slot's new occupant
    token_equality_rules(ck, "6")
    # ---- shared clauses demonstrated by seeding round 7 (the property broken from a distant module) --------------
    from props import common as _c7
    import importlib as _il
    _m = lambda n: _il.import_module('props.' + n)
    _c7.import_results(ck, _m("C14"), "5", "EventIterator", "6")  # sub-tokens belong to their source: attributed by (slot, generation), not by the full token
    # ---- shared clauses demonstrated by seeding round 8 (the property broken by added code) --------------------
    from props import common as _c8
    import importlib as _il8
    _m8 = lambda n: _il8.import_module('props.' + n)
    _c8.import_results(ck, _m8("C16"), "3", "Generic", "6")  # every re-registration draws its sub-token and hands it to the poller (no unchanged-registration shortcut keeps an old sub-id)
    # ---- shared clause demonstrated by the twin round (seeding round 10) ---------------------------------------------
    from props import common as _c10
    import importlib as _il10
    _c10.import_results(ck, _il10.import_module("props.C01"), "1", "same_source_as", "6")  # a sub-token belongs to its source: same_source_as compares id and generation, whatever the sub-ids


def coverage_extra(checks):
    obs = []
    for c in checks:
        obs += getattr(c, "_obligations", [])
    return {
        "obligations": len(obs),
        "discharged": len([o for o in obs if o[1]]),
        "checker_cmd": "cd /verif && ./check C20 --tier thorough",
        "trusted_base": ["rustc nightly MIR construction", "engine/driver fact serialiser", "engine/bits/bitdom.py transfer functions (constant shifts, masks, zero-extension/truncation, carry-free addition)", "64-bit usize"],
    }


def token_equality_rules(ck, C):
    f = ck.facts
    te = ck.opt_body("<TokenInner as PartialEq>::eq")
    re_ = ck.opt_body("<RegistrationToken as PartialEq>::eq")
    if te is None or re_ is None:
        ck.anchor_missing(C, "T6-provenance", "<TokenInner as PartialEq>::eq / <RegistrationToken as PartialEq>::eq")
        return
    adt = f.adts.get("token::TokenInner") or {}
    fields = [fl["name"] for v in adt.get("variants", []) for fl in v.get("fields", [])]
    cmp_fields = set()
    for i, j, st in te.statements():
        if st["s"] == "assign" and st["rv"]["r"] == "bin" and st["rv"]["op"] == "Eq" and not te.is_cleanup(i):
            na = {e[1:] for r_, p_ in te.resolve(st["rv"]["a"]) for e in p_ if isinstance(e, str) and e.startswith(".")}
            nb = {e[1:] for r_, p_ in te.resolve(st["rv"]["b"]) for e in p_ if isinstance(e, str) and e.startswith(".")}
            cmp_fields |= (na & nb)
    if not (bool(fields) and set(fields) <= cmp_fields):
        # a hand-written equality (`same_source_as(other) && sub_id == other.sub_id`): decide it by evaluation - equal
        # tokens compare equal, and tokens that differ in exactly one field do not
        sem = semantic_token_equality(f, te, fields)
        if sem is not None:
            ck.verdict(sem == "", C, "T6-provenance", te, "TokenInner==compares-every-field", "evaluated: equal tokens are equal, tokens differing in any single field are not", "TokenInner equality is wrong: %s" % sem, site=te.where())
            cmp_fields = None
    if cmp_fields is not None:
      ck.verdict(bool(fields) and set(fields) <= cmp_fields, C, "T6-provenance", te, "TokenInner==compares-every-field", "TokenInner equality compares %s" % sorted(fields), "TokenInner equality does not compare all of %s (compared: %s): tokens of different generations / sub-sources are equal" % (sorted(fields), sorted(cmp_fields)), site=te.where())
    inner_eq = [c for c in re_.calls() if c.name == "eq" and (c.trait or "").endswith("PartialEq") and not re_.is_cleanup(c.bb) and len(c.args) == 2 and all(T.path_has(re_, a, ".inner") for a in c.args) and c.self_ty is not None and "TokenInner" in f.types[f.peel_refs(c.self_ty)]["s"]]
    ok = bool(inner_eq) and all(not c.dest["p"] and c.dest["l"] in T.ret_locals(re_) for c in inner_eq) and T.t2_all_exits(re_, [0], [c.bb for c in inner_eq]) is None
    ck.verdict(ok, C, "T6-provenance", re_, "RegistrationToken==is-TokenInner==", "RegistrationToken equality is the equality of the whole inner token", "RegistrationToken equality is not the equality of its whole inner token (e.g. the slot index only): the token of a removed source equals the token of the source that reuses its slot, so bookkeeping keyed by == (the lifecycle set) confuses the two", site=re_.where())


def _tok_fields(facts):
    adt = facts.adts.get("token::TokenInner") or {}
    return [fl["name"] for v in adt.get("variants", []) for fl in v.get("fields", [])]


def exhaustive_increment_version(facts, body):
    """"" if body maps (id, v, s) to (id, (v + 1) mod 2^16, 0) for every 16-bit v (ids / sub-ids at their boundaries),
    a description of the first counterexample otherwise, None if the function cannot be evaluated"""
    import sys, os

    sys.path.insert(0, os.path.join(os.path.dirname(__file__), "..", "..", "bits"))
    import concrete as CE

    names = _tok_fields(facts)
    if sorted(names) != ["id", "sub_id", "version"]:
        return None
    ix = {n: i for i, n in enumerate(names)}
    m = CE.Machine(facts)

    def mk(i, v, s):
        vals = [0, 0, 0]
        vals[ix["id"]], vals[ix["version"]], vals[ix["sub_id"]] = i, v, s
        return ("struct", vals)

    try:
        for v in range(65536):
            samples = [(7, 3)] if 2 < v < 65533 else [(0, 0), (7, 3), (0xFFFFFFFF, 0xFFFF), (0x7FFFFFFF, 1)]
            for i, s_ in samples:
                try:
                    r = m.run(body, [mk(i, v, s_)])
                except CE.Panic as e:
                    return "panics for (id=%d, version=%d, sub_id=%d): %s" % (i, v, s_, e)
                want = mk(i, (v + 1) & 0xFFFF, 0)
                if r != want:
                    return "(id=%d, version=%d, sub_id=%d) -> %s, expected %s" % (i, v, s_, r, want)
    except CE.Unsupported:
        return None
    return ""


def exhaustive_increment_sub_id(facts, body):
    import sys, os

    sys.path.insert(0, os.path.join(os.path.dirname(__file__), "..", "..", "bits"))
    import concrete as CE

    names = _tok_fields(facts)
    if sorted(names) != ["id", "sub_id", "version"]:
        return None
    ix = {n: i for i, n in enumerate(names)}
    m = CE.Machine(facts)

    def mk(i, v, s):
        vals = [0, 0, 0]
        vals[ix["id"]], vals[ix["version"]], vals[ix["sub_id"]] = i, v, s
        return ("struct", vals)

    try:
        for s_ in range(65536):
            for i, v in ([(7, 3)] if 2 < s_ < 65533 else [(0, 0), (7, 3), (0xFFFFFFFF, 0xFFFF)]):
                try:
                    r = m.run(body, [mk(i, v, s_)])
                    if s_ == 0xFFFF:
                        return "sub_id 65535 does not panic: returns %s (the sub-id wraps or is reused silently)" % (r,)
                    if r != mk(i, v, s_ + 1):
                        return "(id=%d, version=%d, sub_id=%d) -> %s, expected %s" % (i, v, s_, r, mk(i, v, s_ + 1))
                except CE.Panic:
                    if s_ != 0xFFFF:
                        return "panics for sub_id=%d (below the limit)" % s_
    except CE.Unsupported:
        return None
    return ""


def semantic_token_equality(facts, body, fields, want=None):
    """"" if the equality function answers `true` exactly for the all-fields-equal pattern, on every one of the 2^n
    equal/different patterns of the fields (several base values; a differing field differs in its lowest or in its
    highest bit), a counterexample otherwise. Only attempted when integers flow into nothing but `==` / `!=` in the
    function (then its answer is a function of the pattern); None = not evaluable, the structural verdict stands"""
    import sys, os, itertools

    sys.path.insert(0, os.path.join(os.path.dirname(__file__), "..", "..", "bits"))
    import concrete as CE

    # fragment: no integer arithmetic / masking in the function or the local functions it calls
    seen, work = set(), [body]
    while work:
        b_ = work.pop()
        if b_.key in seen:
            continue
        seen.add(b_.key)
        for i_, j_, st in b_.statements():
            if st["s"] == "assign" and st["rv"]["r"] == "bin" and st["rv"]["op"] not in ("Eq", "Ne"):
                o = st["rv"]["a"]
                pl = o.get("c") or o.get("m")
                ty = pl["t"] if pl is not None else (o.get("k") or {}).get("ty")
                if ty is None or facts.types[ty]["s"] != "bool":
                    return None
            if st["s"] == "assign" and st["rv"]["r"] == "cast":
                return None
        for cs in b_.calls():
            cb = cs.callee_body()
            if cb is not None:
                work.append(cb)
    m = CE.Machine(facts)
    n = len(fields)
    if not 1 <= n <= 4:
        return None
    widths = []
    adt = facts.adts.get("token::TokenInner") or {}
    for v in adt.get("variants", []):
        for fl in v.get("fields", []):
            it = CE._int_ty(facts.types[fl["ty"]]["s"]) if fl.get("ty") is not None else None
            widths.append(it[0] if it else 16)
    if len(widths) != n:
        widths = [16] * n
    try:
        for a in ([5, 9, 3, 11][:n], [0] * n, [(1 << min(widths)) - 1] * n):
            for pat in itertools.product((False, True), repeat=n):
                for hi in (False, True):
                    b = [x ^ ((1 << (widths[i] - 1)) if hi else 1) if pat[i] else x for i, x in enumerate(a)]
                    want_ = int(not any(pat)) if want is None else int(want(dict(zip(fields, pat))))
                    for l, r in ((a, b), (b, a)):
                        got = m.run(body, [("struct", list(l)), ("struct", list(r))])
                        if got != want_:
                            diff = [fields[i] for i in range(n) if pat[i]]
                            if want is not None:
                                return "for %s vs %s (differing in %s) the answer is %s, expected %s" % (dict(zip(fields, l)), dict(zip(fields, r)), diff or "nothing", bool(got), bool(want_))
                            return ("tokens that differ only in %s compare equal" % diff) if diff else ("%s is not equal to itself" % dict(zip(fields, a)))
    except (CE.Unsupported, CE.Panic):
        return None
    return ""
