"""Anchors shared by several property modules (found by role, never by line)."""
from mir import op_place, place_str
import templates as T
from core import AnchorMissing

DISPATCHER_TRAIT = "EventDispatcher"


class DispatchLoop:
    """The batch loop of EventLoop::dispatch_events, located by role: the natural loop whose
    body calls `dyn EventDispatcher::process_events`."""

    def __init__(self, ck, clause):
        f = ck.facts
        cands = []
        for b in f.bodies.values():
            pcs = T.calls(b, name="process_events", trait=DISPATCHER_TRAIT, self_kind=("dyn",))
            if pcs:
                cands.append((b, pcs))
        if len(cands) != 1 or len(cands[0][1]) != 1:
            ck.anchor_missing(clause, "anchor", "batch-dispatch site", "expected exactly one function with exactly one call of dyn EventDispatcher::process_events, found %s" % [(b.qual, len(p)) for b, p in cands])
            raise AnchorMissing("dispatch loop")
        self.body, (self.pe,) = cands[0][0], cands[0][1]
        b = self.body
        loops = b.loops()
        best = None
        for h, blocks in loops.items():
            if self.pe.bb in blocks:
                cs = b.call_at(h)
                if cs is not None and cs.name == "next":
                    if best is None or len(blocks) < len(best[1]):
                        best = (h, blocks, cs)
        if best is None:
            ck.anchor_missing(clause, "anchor", "batch loop", "the process_events call is not inside an iterator loop")
            raise AnchorMissing("batch loop")
        self.header, self.blocks, self.next_cs = best
        # the Some(event) edge of the header
        sws = [sw for sw, mode in b.switches_on_call(self.header) if mode == "discr"]
        self.header_switch = sws[0] if sws else None
        # the per-iteration registration token: result of forget_sub_id / or the token operand
        self.exits = set(b.return_blocks()) | {self.header}


def dyn_targets(cs):
    """local bodies a `dyn LocalTrait` method call may dispatch to"""
    f = cs.body.facts
    tr = cs.trait
    if not tr or cs.callee_body() is not None:
        return []
    out = []
    for b in f.bodies.values():
        if b.impl_trait == tr and b.name == cs.name:
            out.append(b)
    return out


def callee_bodies(cs):
    cb = cs.callee_body()
    if cb is not None:
        return [cb]
    st = cs.self_ty_desc()
    if st is not None and cs.body.facts.types[cs.body.facts.peel_refs(cs.self_ty)].get("k") == "dyn":
        return dyn_targets(cs)
    return []


def transitive_callers_of(facts, pred, through_dyn=True):
    """set of body keys that (transitively through resolved local calls, and dyn calls to local
    traits) contain a call satisfying pred"""
    has = set()
    for b in facts.bodies.values():
        for cs in b.calls():
            if not b.is_cleanup(cs.bb) and pred(cs):
                has.add(b.key)
                break
    changed = True
    while changed:
        changed = False
        for b in facts.bodies.values():
            if b.key in has:
                continue
            for cs in b.calls():
                if b.is_cleanup(cs.bb):
                    continue
                for cb in (callee_bodies(cs) if through_dyn else ([cs.callee_body()] if cs.callee_body() else [])):
                    if cb.key in has:
                        has.add(b.key)
                        changed = True
                        break
                if b.key in has:
                    break
    return has


WRAPPER_SKIP = ("Generic", "Timer", "TransientSource")


def event_source_impls(facts):
    """{self short type: {method name: body}} for every local impl of EventSource"""
    out = {}
    for b in facts.bodies.values():
        if b.impl_trait and b.impl_trait.endswith("::EventSource") and b.kind == "AssocFn":
            st = facts.short_ty(b.impl_self)
            out.setdefault(st, {})[b.name] = b
    return out


def wrapper_forwarding(ck, clause, methods=("register", "reregister", "unregister")):
    """T8: every wrapper source forwards m -> m of its inner source and calls no other
    registration method; returns number of (impl, method) instances evaluated"""
    f = ck.facts
    impls = event_source_impls(f)
    n = 0
    for st, meths in sorted(impls.items()):
        if st.split("<")[0] in WRAPPER_SKIP:
            continue
        for m in methods:
            b = meths.get(m)
            if b is None:
                continue
            inner = [cs for cs in T.calls(b, name=("register", "reregister", "unregister"), trait="EventSource")]
            same = [cs for cs in inner if cs.name == m]
            other = [cs for cs in inner if cs.name != m]
            n += 1
            ok = bool(same) and not other
            # the receiver is a field of self / self's pointee
            recv_ok = all(T.resolves_to_arg(b, cs.args[0], 1) for cs in same)
            # every path to an Ok return goes through the forwarded call
            bad = T.t2_all_exits(b, [0], [cs.bb for cs in same]) if same else [0]
            ck.verdict(ok and recv_ok and bad is None, clause, "T8-sibling-agreement", b, "forwards:%s->%s" % (m, m), "the wrapper forwards %s to its inner source's %s on every path and calls no other registration method" % (m, m), "the wrapper's %s %s" % (m, ("calls %s of its inner source" % sorted({c.name for c in other})) if other else ("does not forward to the inner source's %s on every path" % m)), site=b.where())
    return n


def closure_captures(parent, closure):
    """capture name -> (parent local or None, access path set) for a closure created in parent"""
    out = {}
    names = [c["name"] for c in closure.raw.get("captures", [])]
    for i, j, st in parent.statements():
        if st["s"] == "assign" and st["rv"]["r"] == "agg" and st["rv"].get("def") == closure.key:
            for n, op in zip(names, st["rv"]["fields"]):
                loc = None
                pl = op_place(op)
                if pl is not None and not pl["p"]:
                    ds = parent.defs().get(pl["l"], [])
                    if len(ds) == 1 and ds[0][0] == "assign" and ds[0][3]["rv"]["r"] == "ref" and not ds[0][3]["rv"]["pl"]["p"]:
                        loc = ds[0][3]["rv"]["pl"]["l"]
                out[n] = (loc, parent.resolve(op), (i, j))
    return out


class ClosureCells:
    """Boolean-like cells of a function that a closure it creates sets and the function tests afterwards: a captured
    `bool` (or `Option<_>`) local, or such a field of a captured struct local. A cell is identified by
    (local of the creating function, field names), whichever way either side reaches it (directly, through the
    reference parameter of a helper that was inlined, through the closure environment)."""

    def __init__(self, parent, closure):
        self.parent, self.closure = parent, closure
        self.caps = {n: loc for n, (loc, aps, _) in closure_captures(parent, closure).items() if loc is not None}

    def of_closure_place(self, pl):
        org = T.place_origin(self.closure, pl)
        if org is None:
            return None
        base, flds = org
        flds = [x for x in flds if x != "*"]
        if base != 1 or not flds or flds[0] not in self.caps:
            return None
        # the captured variable, normalised like every place of the creating function (a variable initialised by a
        # plain move of a temporary designates that temporary)
        o2 = T.place_origin(self.parent, {"l": self.caps[flds[0]], "p": [], "t": 0})
        base2, f2 = o2 if o2 is not None else (self.caps[flds[0]], ())
        return (base2, tuple(x for x in f2 if x != "*") + tuple(flds[1:]))

    def of_parent_place(self, x):
        org = T.place_origin(self.parent, x)
        if org is None:
            return None
        base, flds = org
        return (base, tuple(x_ for x_ in flds if x_ != "*"))

    def _set_value(self, body, rv):
        """the value a store puts into a cell, if it is one of the 'flag raised' shapes: `true` -> ('bool', 1),
        `Some(..)` -> ('discr', 1), a field-less variant of a local enum -> ('discr', its discriminant)"""
        agg = None
        if rv["r"] == "use":
            k = rv["o"].get("k")
            if k is not None:
                return ("bool", 1) if k.get("v") == 1 else None
            for r, p in body.resolve(rv["o"]):
                if r[0] == "agg" and not p:
                    agg = body.agg_at(r[1], r[2])
        elif rv["r"] == "agg":
            agg = rv
        if agg is None or agg.get("kind") != "adt" or "variant_idx" not in agg:
            return None
        if agg.get("adt") == "std::option::Option":
            return ("discr", 1) if agg.get("variant") == "Some" else None
        a = body.facts.adts.get(agg.get("adt"))
        if a is not None and a.get("kind") == "Enum" and not agg["fields"]:
            d = a["variants"][agg["variant_idx"]].get("discr")
            return ("discr", agg["variant_idx"] if d is None else d)
        return None

    def set_stores_valued(self):
        """[(bb, cell, value)]: statements of the closure that raise a cell. For an enum-valued cell the value the
        creating function *initialises* it with is not a raise (it is the 'nothing happened yet' state)."""
        out = []
        cl = self.closure
        for i, j, st in cl.statements():
            if st["s"] != "assign" or cl.is_cleanup(i):
                continue
            v = self._set_value(cl, st["rv"])
            if v is None:
                continue
            c = self.of_closure_place(st["pl"])
            if c is not None:
                out.append((i, c, v))
        return out

    def set_stores(self):
        return [(i, c) for i, c, v in self.set_stores_valued()]

    def cells(self):
        return sorted({c for _, c in self.set_stores()})

    def set_edges(self, cell, values=None):
        """edges of the creating function taken when the cell is raised (true / Some / the variant the closure
        stores), and when it is not. `values`: only these stored values count as 'raised' (an enum-valued cell that
        records one of several outcomes)"""
        b = self.parent
        values = {v for i, c, v in self.set_stores_valued() if c == cell} if values is None else set(values)
        yes, no = [], []
        for sw, blk in enumerate(b.blocks):
            t = blk["term"]
            if t["t"] != "switch" or b.is_cleanup(sw):
                continue
            e = b.expr(t["on"], at=sw)
            neg = False
            while e[0] == "not":
                neg = not neg
                e = e[1]
            if e[0] not in ("place", "discr"):
                continue
            if self.of_parent_place(e[2]) != cell:
                continue
            if e[0] == "discr" and any(v[0] == "discr" for v in values):
                want = {v[1] for v in values if v[0] == "discr"}
                listed = {v_: tgt for v_, tgt in t["targets"]}
                y = [(sw, listed[v_]) for v_ in want if v_ in listed]
                if any(v_ not in listed for v_ in want):
                    y.append((sw, t["otherwise"]))
                n_ = [(sw, tgt) for tgt, lab in b.succ_edges(sw) if (sw, tgt) not in y and b.blocks[tgt]["term"]["t"] != "unreachable"]
                yes += y
                no += n_
                continue
            zero = [(sw, tgt) for v_, tgt in t["targets"] if v_ == 0]
            nonzero = [(sw, tgt) for v_, tgt in t["targets"] if v_ != 0]
            if zero:
                nonzero = nonzero + [(sw, t["otherwise"])]
            else:
                zero = [(sw, t["otherwise"])]
            if neg:
                zero, nonzero = nonzero, zero
            yes += nonzero
            no += zero
        return yes, no


def lower_bound(body, op, depth=0):
    """a sound lower bound (unsigned) of an integer operand, following saturating_add / min /
    constants; unknown values have lower bound 0"""
    k = op.get("k")
    if k is not None:
        v = k.get("v")
        return v if isinstance(v, int) and v >= 0 else 0
    pl = op_place(op)
    if pl is None or depth > 10:
        return 0
    if pl["p"]:
        return _captured_lower_bound(body, op, depth)
    defs = body.defs().get(pl["l"], [])
    if len(defs) != 1:
        return 0
    d = defs[0]
    if d[0] == "assign":
        rv = d[3]["rv"]
        if rv["r"] in ("use", "cast"):
            return lower_bound(body, rv["o"], depth + 1)
        if rv["r"] == "ref" and not rv["pl"]["p"]:
            return lower_bound(body, {"c": rv["pl"]}, depth + 1)
        if rv["r"] == "bin" and rv["op"] in ("Add", "AddUnchecked", "AddWithOverflow"):
            return lower_bound(body, rv["a"], depth + 1) + lower_bound(body, rv["b"], depth + 1)
        return 0
    cs = body.call_at(d[1])
    if cs.name in ("saturating_add", "wrapping_add") and cs.name == "saturating_add":
        return lower_bound(body, cs.args[0], depth + 1) + lower_bound(body, cs.args[1], depth + 1)
    if cs.name == "min":
        return min(lower_bound(body, cs.args[0], depth + 1), lower_bound(body, cs.args[1], depth + 1))
    if cs.name == "max":
        return max(lower_bound(body, cs.args[0], depth + 1), lower_bound(body, cs.args[1], depth + 1))
    return 0


def _captured_lower_bound(body, op, depth):
    """the operand reads a captured variable of a closure: bound it in the creating function (the
    value computed once outside the closure is the same value inside it)"""
    parent_key = body.raw.get("parent")
    if parent_key is None:
        return 0
    rs = body.resolve(op)
    if len(rs) != 1:
        return 0
    root, path = next(iter(rs))
    fields = [x for x in path if x.startswith(".")]
    if root != ("arg", 1) or len(fields) != 1 or any(x not in ("*", "&") and not x.startswith(".") for x in path):
        return 0
    parents = [b for b in body.facts.bodies.values() if b.key == parent_key or parent_key in b.raw.get("inlined", [])]
    if len(parents) != 1:
        return 0
    cap = closure_captures(parents[0], body).get(fields[0][1:])
    if cap is None:
        return 0
    loc, _, (i, j) = cap
    if loc is not None:
        # by-reference capture: only sound when the variable is assigned exactly once
        if len(parents[0].defs().get(loc, [])) != 1 or loc in parents[0].mut_borrowed():
            return 0
        return lower_bound(parents[0], {"c": {"l": loc, "p": []}}, depth + 1)
    st = parents[0].blocks[i]["st"][j]
    names = [c["name"] for c in body.raw.get("captures", [])]
    return lower_bound(parents[0], st["rv"]["fields"][names.index(fields[0][1:])], depth + 1)


def import_results(ck, module, clause, func_substr, new_clause):
    """re-evaluate another property's clause inside this check (shared clauses): runs `module` on
    the same facts and copies the records of `clause` whose function contains func_substr"""
    from core import AnchorMissing

    if getattr(ck, "nested", False):
        return 0  # shared clauses are imported at top level only (no transitive / circular imports)
    cache = ck.facts.__dict__.setdefault("_module_results", {})
    ckey = (module.__name__, ck.prop)
    if ckey in cache:
        sub = cache[ckey]
    else:
        sub = type(ck)(ck.prop, ck.facts, ck.config, ck.tier)
        sub.nested = True
        sub._summaries = ck._summaries
        sub._flows = ck._flows
        try:
            module.run(sub)
        except AnchorMissing:
            pass
        cache[ckey] = sub
    try:
        pass
    except AnchorMissing:
        pass
    n = 0
    for r in sub.results:
        if r["clause"] == clause and (func_substr is None or func_substr in r["function"] or r["function"] == "<crate>"):
            r = dict(r)
            r["key"] = r["key"].replace("%s.%s/" % (ck.prop, clause), "%s.%s/" % (ck.prop, new_clause), 1)
            r["clause"] = new_clause
            ck.results.append(r)
            n += 1
    ck.floors += [dict(fl, clause=new_clause) for fl in sub.floors if fl["clause"] == clause and (func_substr is None or func_substr in fl["what"])]
    return n


def payload_value(body, op):
    """the small value an operand denotes, independent of its encoding: ('const', n) for an integer / bool constant,
    ('discr', adt, k) for a field-less variant of an enum; None otherwise"""
    v = T.const_value(body, op, 64)
    if v is not None:
        return ("const", v)
    vals = set()
    for r, p in body.resolve(op):
        if r[0] == "agg" and not p:
            a = body.agg_at(r[1], r[2])
            if a.get("kind") == "adt" and "variant_idx" in a and not a["fields"]:
                ad = body.facts.adts.get(a.get("adt"))
                d = ad["variants"][a["variant_idx"]].get("discr") if ad else None
                vals.add(("discr", a.get("adt"), a["variant_idx"] if d is None else d))
            else:
                return None
        elif r[0] == "const":
            return None
        else:
            return None
    return vals.pop() if len(vals) == 1 else None


def busy_value(facts, method):
    """what DispatcherInner::<method> answers when it cannot borrow its own cell (it is being dispatched): the payload of
    the `Ok(..)` returned on the failed try-borrow edge — `false`, or the variant of a small enum that replaced the bool"""
    b = facts.body("<RefCell<DispatcherInner> as EventDispatcher>::" + method)
    if b is None:
        return None
    trying = [cs for cs in T.calls(b, name=("try_borrow_mut", "try_borrow"), path="std::cell::RefCell") if T.resolves_to_arg(b, cs.args[0], 1)]
    vals = set()
    for t in trying:
        ok_e, err_e, _ = T.result_split(b, t.bb)
        for i, j, st in b.statements():
            if st["s"] == "assign" and st["pl"]["l"] in T.ret_locals(b) and st["rv"]["r"] == "agg" and st["rv"].get("variant") == "Ok" and not b.is_cleanup(i) and st["rv"]["fields"]:
                if err_e and T.reachable_only_via(b, i, err_e):
                    vals.add(payload_value(b, st["rv"]["fields"][0]))
    vals.discard(None)
    return vals.pop() if len(vals) == 1 else None


def value_test_edges(body, call_bb, value):
    """edges of `body` taken when the (Ok payload of the) result of call_bb equals `value` (see payload_value), however
    the test is written: a switch on the bool / on the discriminant, or `result == Enum::Variant` through PartialEq"""
    yes = []
    if value is None:
        return yes
    if value[0] == "const":
        for sw, mode in T.call_result_switches(body, call_bb):
            if mode == "bool":
                yes += T.edges_of_value(body, sw, bool(value[1]))
        tr, fa = T.bool_split(body, call_bb)
        yes += [e for e in (tr if value[1] else fa) if e not in yes]
        return yes

    def is_result(op):
        return any(r == ("call", call_bb) and all(x in (".branch", " as Continue", ".0", " as Ok", "&", "*", ".unwrap") for x in p) for r, p in body.resolve(op))

    for sw in T.switches_on_expr(body, lambda e: e[0] == "discr"):
        e = body.expr(body.blocks[sw]["term"]["on"], at=sw)
        if is_result({"c": e[2]}) and any(" as Continue" in p or " as Ok" in p or ".unwrap" in p for r, p in body.resolve(e[2])):
            yes += T.discr_edges(body, sw, value[2])
    # a derived `==` that was inlined: Eq(discriminant_value(&result), discriminant_value(&Enum::Variant))
    def discr_subject(op):
        """the operand a discriminant temp was read from: ('result',) | ('variant', adt, k) | None"""
        pl = op_place(op)
        if pl is None or pl["p"]:
            return None
        ds = body.defs().get(pl["l"], [])
        if len(ds) != 1:
            return None
        if ds[0][0] == "call":
            cs = body.call_at(ds[0][1])
            if cs is None or not (cs.path or "").endswith("intrinsics::discriminant_value") or not cs.args:
                return None
            src = cs.args[0]
        elif ds[0][3]["rv"]["r"] == "discr":
            src = {"c": ds[0][3]["rv"]["pl"]}
        elif ds[0][3]["rv"]["r"] in ("use", "cast"):
            return discr_subject(ds[0][3]["rv"]["o"])
        else:
            return None
        if is_result(src):
            return ("result",)
        pv = T.promoted_variant(body, src)
        if pv is not None:
            return ("variant", pv[0], pv[2])
        v = payload_value(body, src)
        if v is not None and v[0] == "discr":
            return ("variant", v[1], v[2])
        return None

    for i, j, st in body.statements():
        if st["s"] != "assign" or st["rv"]["r"] != "bin" or st["rv"]["op"] not in ("Eq", "Ne") or body.is_cleanup(i) or st["pl"]["p"]:
            continue
        a, b_ = discr_subject(st["rv"]["a"]), discr_subject(st["rv"]["b"])
        if a is None or b_ is None or (a[0] == "result") == (b_[0] == "result"):
            continue
        other = b_ if a[0] == "result" else a
        if other[1:] != value[1:]:
            continue
        for sw, blk in enumerate(body.blocks):
            t = blk["term"]
            if t["t"] == "switch" and not body.is_cleanup(sw) and any(r == ("rv", i, j) and not p for r, p in body.resolve(t["on"])):
                yes += T.edges_of_value(body, sw, st["rv"]["op"] == "Eq")
    for c in T.calls(body, name=("eq", "ne")):
        if body.is_cleanup(c.bb) or len(c.args) != 2:
            continue
        sides = [is_result(a) for a in c.args]
        if sides[0] == sides[1]:
            continue
        other = c.args[1] if sides[0] else c.args[0]
        ov = None
        for r, p in body.resolve(other):
            pp = tuple(x for x in p if x not in ("&", "*"))
            if r[0] == "agg" and not pp:
                ov = payload_value(body, {"c": {"l": body.blocks[r[1]]["st"][r[2]]["pl"]["l"], "p": [], "t": 0}})
            elif r[0] == "const":
                cv = body.facts.consts.get(r[1])
        if ov is None:
            pv = T.promoted_variant(body, other)
            if pv is not None:
                ov = ("discr", pv[0], pv[2])
        if ov is None:
            # a promoted constant `&Enum::Variant`: printed form of the constant
            nm = T.const_name(body, other) or " ".join(x for x in body.roots_str(other))
            ad = body.facts.adts.get(value[1])
            if ad:
                for v in ad["variants"]:
                    if (v.get("discr") == value[2]) and nm.endswith("::" + v["name"]):
                        ov = value
        if ov == value:
            tr, fa = T.bool_split(body, c.bb)
            yes += tr if c.name == "eq" else fa
    return yes


def nonblocking_on_value(facts):
    """the value of set_nonblocking's mode parameter that *sets* O_NONBLOCK (`true`, or the variant of a small enum that
    replaced the bool): the value whose edge of the test of that parameter leads to the `| NONBLOCK` / `set(.., true)` /
    `insert` side. Returns a payload_value-style tuple, or None"""
    sn = facts.body("io::set_nonblocking")
    if sn is None:
        return None
    setters = [cs for cs in sn.calls() if not sn.is_cleanup(cs.bb) and cs.name in ("bitor", "insert", "union")]
    if not setters:
        # `flags.set(NONBLOCK, on)`: the boolean itself is handed on
        if any(cs.name == "set" and not sn.is_cleanup(cs.bb) and len(cs.args) > 2 and T.resolves_to_arg(sn, cs.args[2], 2) for cs in sn.calls()):
            return ("const", 1)
        return None
    for sw, blk in enumerate(sn.blocks):
        t = blk["term"]
        if t["t"] != "switch" or sn.is_cleanup(sw):
            continue
        e = sn.expr(t["on"])
        neg = False
        while e[0] == "not":
            neg = not neg
            e = e[1]
        if e[0] == "place" and any(r == ("arg", 2) and not p for r, p in sn.resolve(e[2])):
            for val in (1, 0):
                ed = T.edges_of_value(sn, sw, bool(val))
                if all(T.reachable_only_via(sn, c.bb, ed) for c in setters):
                    return ("const", val)
        if e[0] == "discr" and any(r == ("arg", 2) and not p for r, p in sn.resolve(e[2])):
            ty = facts.types[sn.local_ty(2)]
            adt = ty.get("path")
            for v, tgt in t["targets"]:
                if all(T.reachable_only_via(sn, c.bb, [(sw, tgt)]) for c in setters):
                    return ("discr", adt, v)
    return None


def eventfd_writer(facts):
    """the function that adds to the ping eventfd's counter, found by its role: the local function of ping/eventfd.rs that
    calls rustix's write() and takes the amount as a u64 (whatever its name and wherever its fd comes from).
    Returns (body, index of the u64 parameter) or None"""
    out = []
    for b in list(facts.bodies.values()) + facts.dropped_helper_bodies():
        if b.kind not in ("Fn", "AssocFn") or not b.file.endswith("ping/eventfd.rs"):
            continue
        if not any(cs.f and cs.f["path"].startswith("rustix::io::write") for cs in b.calls()):
            continue
        u = [i for i in range(1, b.arg_count + 1) if facts.types[b.local_ty(i)]["s"] == "u64"]
        if len(u) == 1:
            out.append((b, u[0]))
    return out[0] if len(out) == 1 else None


def eventfd_writes(facts, b):
    """[(block, operand holding the amount)]: the places where body b adds to the eventfd counter — calls of the writer
    function, or its body inlined (then the amount is what is serialised by to_ne_bytes)"""
    w = eventfd_writer(facts)
    out = []
    if w is None:
        return out
    wb, idx = w
    for cs in b.calls():
        if not b.is_cleanup(cs.bb) and cs.callee_body() is wb and idx - 1 < len(cs.args):
            out.append((cs.bb, cs.args[idx - 1]))
    if wb.key in b.raw.get("inlined", []):
        for cs in b.calls():
            if not b.is_cleanup(cs.bb) and cs.name in ("to_ne_bytes", "to_le_bytes", "to_be_bytes") and cs.args:
                out.append((cs.bb, cs.args[0]))
    return out


def callers_of_body(facts, body):
    """call sites (in any body) that reach `body`: statically, or through a `dyn Trait` receiver it implements"""
    out = []
    for b in facts.bodies.values():
        for cs in b.calls():
            if b.is_cleanup(cs.bb):
                continue
            if cs.callee_body() is body or body in dyn_targets(cs):
                out.append(cs)
    return out


def has_field_through_callers(facts, body, op, field):
    """the operand reads `.field` of something — in this function, or, when the operand is one of the function's own
    parameters, in every caller (a private function that takes `disp.fd` as a parameter instead of `disp`)"""
    if T.path_has(body, op, field):
        return True
    args = {r[1] for r, p in body.resolve(op) if r[0] == "arg"}
    if len(args) != 1 or any(r[0] != "arg" for r, p in body.resolve(op)):
        return False
    n = args.pop()
    callers = callers_of_body(facts, body)
    def caller_ok(cs):
        if n - 1 >= len(cs.args):
            return False
        a = cs.args[n - 1]
        if T.path_has(cs.body, a, field):
            return True
        # .. or the very value the caller stores into that field (it hands the callee what it has just recorded)
        ra = cs.body.resolve(a)
        for i, j, st in T.stores_to_field(cs.body, field[1:]):
            if not cs.body.is_cleanup(i) and st["rv"]["r"] == "use" and cs.body.resolve(st["rv"]["o"]) == ra and cs.body.dominates(i, cs.bb):
                return True
        return False

    return bool(callers) and all(caller_ok(cs) for cs in callers)


def event_builder(facts):
    """the function that builds the poller's `Event` for a registration, found by its role: a local function returning
    polling::Event with one `sys::Interest` parameter and one token parameter (`sys::Token` or `token::TokenInner`), in
    any order and under any name. Returns (body, interest parameter index, token parameter index, token is TokenInner)"""
    out = []
    for b in list(facts.bodies.values()) + facts.dropped_helper_bodies():
        if b.kind not in ("Fn", "AssocFn") or b.arg_count != 2:
            continue
        tys = [facts.types[b.local_ty(i)]["s"] for i in range(3)]
        if not tys[0].endswith("polling::Event"):
            continue
        ii = [i for i in (1, 2) if tys[i] == "sys::Interest"]
        ti = [i for i in (1, 2) if tys[i] in ("sys::Token", "token::TokenInner")]
        if len(ii) == 1 and len(ti) == 1:
            out.append((b, ii[0], ti[0], tys[ti[0]] == "token::TokenInner"))
    return out[0] if len(out) == 1 else None


def mode_converter(facts):
    """the function translating calloop's Mode into the poller's PollMode, found by its role: a local function whose
    parameters are one `sys::Mode` and one `bool` (in either order) and whose return type is polling::PollMode.
    Returns (body, index of the Mode parameter, index of the bool parameter) or None"""
    out = []
    for b in list(facts.bodies.values()) + facts.dropped_helper_bodies():
        if b.kind not in ("Fn", "AssocFn") or b.arg_count != 2:
            continue
        tys = [facts.types[b.local_ty(i)]["s"] for i in range(3)]
        if not tys[0].endswith("PollMode"):
            continue
        if tys[1] == "sys::Mode" and tys[2] == "bool":
            out.append((b, 1, 2))
        elif tys[2] == "sys::Mode" and tys[1] == "bool":
            out.append((b, 2, 1))
        elif tys[1] == "sys::Mode" and "Poller" in tys[2]:
            out.append((b, 1, -2))  # asks the poller itself whether it supports other modes
        elif tys[2] == "sys::Mode" and "Poller" in tys[1]:
            out.append((b, 2, -1))
    return out[0] if len(out) == 1 else None


def import_e3(ck, new_clause, pred):
    """copies into this check the records of C18's exploration (E3) selected by pred(instance), plus
    its summary record; the exploration runs once per fact set"""
    from core import AnchorMissing
    from props import C18

    if getattr(ck, "nested", False):
        return 0
    cache = ck.facts.__dict__.setdefault("_e3_results", {})
    key = (ck.prop, ck.tier)
    if key not in cache:
        sub = type(ck)(ck.prop, ck.facts, ck.config, ck.tier)
        sub.nested = True
        try:
            C18.run(sub)
        except AnchorMissing:
            pass
        cache[key] = sub
    n = 0
    for r in cache[key].results:
        if r["instance"] == "explored" or r["verdict"] == "anchor-missing" or (r["verdict"] != "ok" and pred(r["instance"])):
            r = dict(r)
            r["key"] = r["key"].replace("%s.1/" % ck.prop, "%s.%s/" % (ck.prop, new_clause), 1)
            r["clause"] = new_clause
            ck.results.append(r)
            n += 1
    return n


def dispatch_infra(ck, clause):
    if getattr(ck, "nested", False):
        return
    """necessary conditions every source that is dispatched through the loop relies on: the deferred
    post-action is consumed by the source that asked for it (C09.1/C09.4) and every event reaches the
    dispatcher looked up for its own token (C01.3)"""
    from props import C09, C01
    from core import AnchorMissing

    try:
        dl = DispatchLoop(ck, clause)
        C09.take_and_reset(ck, clause, dl)
        C09.who_may_defer(ck, clause, dl.body)
    except AnchorMissing:
        pass
    import_results(ck, C01, "3", "dispatch_events", clause)
    if ck.prop != "C09":
        import_results(ck, C09, "2", "dispatch_events", clause)
    if ck.prop != "C15":
        from props import C15
        import core as _core

        # the error exits of the batch loop are C15's recorded finding (F-C15-2) and stay C15's to report; any *other*
        # early exit of the loop (a break on stop(), a return) strands the rest of the batch for every property
        known15 = {k["key"].split("/", 1)[1] for k in _core.load_known() if k.get("property") == "C15" and k.get("status") == "open"}
        before = len(ck.results)
        import_results(ck, C15, "5", "dispatch_events", clause)
        ck.results[before:] = [r for r in ck.results[before:] if r["key"].split("/", 1)[1] not in known15]


def ping_infra(ck, clause):
    if getattr(ck, "nested", False):
        return
    """necessary conditions of every ping-backed source (channel, executor, stream): the eventfd is
    registered level-triggered for READ (C03.5), the close marker maps to Remove (C03.3), and the
    underlying Generic keeps its token/poller in step with the poller (C01.5, C15.4)"""
    from props import C03, C01, C15

    import_results(ck, C03, "5", None, clause)
    import_results(ck, C03, "2", "Ping::ping", clause)
    import_results(ck, C01, "5", "Generic", clause)
    import_results(ck, C15, "4", "Generic", clause)
