"""Anchors shared by several property modules (found by role, never by line)."""
from mir import op_place, place_str
import templates as T
from core import AnchorMissing

DISPATCHER_TRAIT = "EventDispatcher"


class DispatchLoop:
    """The batch loop of EventLoop::dispatch_events, located by role: the natural loop whose
    body calls `dyn EventDispatcher::process_events`."""

    def __init__(self, ck, clause):
        f = ck.facts
        cands = []
        for b in f.bodies.values():
            pcs = T.calls(b, name="process_events", trait=DISPATCHER_TRAIT, self_kind=("dyn",))
            if pcs:
                cands.append((b, pcs))
        if len(cands) != 1 or len(cands[0][1]) != 1:
            ck.anchor_missing(clause, "anchor", "batch-dispatch site", "expected exactly one function with exactly one call of dyn EventDispatcher::process_events, found %s" % [(b.qual, len(p)) for b, p in cands])
            raise AnchorMissing("dispatch loop")
        self.body, (self.pe,) = cands[0][0], cands[0][1]
        b = self.body
        loops = b.loops()
        best = None
        for h, blocks in loops.items():
            if self.pe.bb in blocks:
                cs = b.call_at(h)
                if cs is not None and cs.name == "next":
                    if best is None or len(blocks) < len(best[1]):
                        best = (h, blocks, cs)
        if best is None:
            ck.anchor_missing(clause, "anchor", "batch loop", "the process_events call is not inside an iterator loop")
            raise AnchorMissing("batch loop")
        self.header, self.blocks, self.next_cs = best
        # the Some(event) edge of the header
        sws = [sw for sw, mode in b.switches_on_call(self.header) if mode == "discr"]
        self.header_switch = sws[0] if sws else None
        # the per-iteration registration token: result of forget_sub_id / or the token operand
        self.exits = set(b.return_blocks()) | {self.header}
