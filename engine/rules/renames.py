"""Rename normalisation.

The rule instances are anchored in crate-private names (functions, fields, variants, types). A pure
rename of such an item is the most common behaviour-preserving change there is, and a missing
anchor cannot otherwise be told apart from a removed mechanism. So before anything else the loader
compares the item table of the tree under analysis with the table of the reference tree
(reference_items.json, written by tools/gen_reference_items.py from the tree the rules were
confirmed on) and, where exactly one new item takes the place of exactly one vanished item with the
same shape, gives it its reference name back:

* a function: same container (module / impl self type / trait), same parameter and return types;
  if several candidates remain, the one with the most similar set of callees;
* a field or an enum variant: same ADT, same position, same type(s), and a name that is new to
  the crate (so that a global rename cannot collide);
* a type: same module, same kind, same variants and fields, and a name that is new to the crate.

Everything else (an item that vanished without a successor, a changed signature, a changed layout)
is left as it is and the rules fail closed as before. Renaming is applied to the JSON facts; the
list of applied renames is kept on the Facts object and printed in the evidence."""
import json
import os
import re

REF = os.path.join(os.path.dirname(os.path.abspath(__file__)), "reference_items.json")
_ref_cache = None


def reference():
    global _ref_cache
    if _ref_cache is None:
        _ref_cache = json.load(open(REF)) if os.path.exists(REF) else {}
    return _ref_cache


def config_key(cfg):
    return ",".join(sorted(cfg))


def snapshot(d):
    """item table of a raw fact dict"""
    types = d["types"]
    fns = {}
    for b in d["bodies"]:
        if b["kind"] not in ("Fn", "AssocFn"):
            continue
        callees = set()
        for blk in b["blocks"]:
            t = blk["term"]
            if t["t"] == "call" and t.get("f") and not blk.get("cleanup"):
                if (t["sp"][1] or "") in ("trace", "warn", "debug", "info", "error", "event"):
                    continue
                callees.add(t["f"]["path"])
        sig = [types[l["ty"]]["s"] for l in b["locals"][: b["arg_count"] + 1]]
        import mir as _mir

        if "impl_self" in b:
            st = _mir.short_ty_of(types, b["impl_self"])
            qual = "<%s as %s>::%s" % (st, b["impl_trait"].split("::")[-1], b.get("name")) if "impl_trait" in b else "%s::%s" % (st, b.get("name"))
        elif "in_trait" in b:
            qual = "%s::%s" % (b["in_trait"].split("::")[-1], b.get("name"))
        else:
            qual = b["path"]
        fns[b["path"]] = {
            "qual": qual,
            "key": b["key"],
            "name": b.get("name"),
            "container": b["path"].rsplit("::", 1)[0] if "::" in b["path"] else "",
            "impl_self": types[b["impl_self"]]["s"] if "impl_self" in b else None,
            "impl_trait": b.get("impl_trait"),
            "sig": sig,
            "callees": sorted(callees),
        }
    adts = {}
    for a in d["adts"]:
        adts[a["path"]] = {
            "kind": a["kind"],
            "variants": [{"name": v["name"], "fields": [{"name": f["name"], "ty": types[f["ty"]]["s"]} for f in v["fields"]]} for v in a["variants"]],
        }
    consts = {}
    for c in d.get("consts", []):
        if "__CALLSITE" in c["path"] or "v" not in c:
            continue
        consts[c["path"]] = {"key": c["key"], "name": c.get("name"), "ty": c.get("ty_s"), "v": c.get("v")}
    return {"fns": fns, "adts": adts, "consts": consts}


def _idents(snap):
    out = set()
    for p, f in snap["fns"].items():
        out.update(re.findall(r"[A-Za-z_][A-Za-z0-9_]*", p))
    for p, a in snap["adts"].items():
        out.update(re.findall(r"[A-Za-z_][A-Za-z0-9_]*", p))
        for v in a["variants"]:
            out.add(v["name"])
            for f in v["fields"]:
                out.add(f["name"])
    return out


def _last_segments(s):
    return re.sub(r"(?:[A-Za-z_][A-Za-z0-9_]*::)+([A-Za-z_])", r"\1", s)


def _norm_ty(s, type_map):
    for new, old in type_map.items():
        s = re.sub(r"\b%s\b" % re.escape(new), old, s)
    return s


def detect(d):
    """returns dict with 'types' {new ident: old ident}, 'fields' {new: old}, 'variants' {new: old},
    'fns' [(new path, old path, new name, old name)]"""
    ref_all = reference()
    ref = ref_all.get(config_key(d.get("cfg", [])))
    out = {"types": {}, "fields": {}, "variants": {}, "fns": []}
    if not ref:
        return out
    cur = snapshot(d)
    ref_ids = _idents(ref)
    # a renamed field / variant is rewritten wherever a projection carries its name, so the new name must not
    # be the name of another field / variant anywhere in the crate (reference or current tree)
    ref_fields = {f["name"] for a in ref["adts"].values() for v in a["variants"] for f in v["fields"]}
    ref_variants = {v["name"] for a in ref["adts"].values() if a["kind"] == "Enum" for v in a["variants"]}

    def count_field(name):
        return sum(1 for a in cur["adts"].values() for v in a["variants"] for f in v["fields"] if f["name"] == name)

    def count_variant(name):
        return sum(1 for a in cur["adts"].values() if a["kind"] == "Enum" for v in a["variants"] if v["name"] == name)
    # ---- types ---------------------------------------------------------------------------------
    # iterated: the field types of one renamed type may mention another renamed type. Field *names* are not
    # compared here (a field of the renamed type may have been renamed as well; that is found below).
    missing = [p for p in ref["adts"] if p not in cur["adts"]]
    new = [p for p in cur["adts"] if p not in ref["adts"]]
    for _ in range(4):
        progress = False
        for m in missing:
            mm, mn = m.rsplit("::", 1) if "::" in m else ("", m)
            if mn in out["types"].values():
                continue
            cands = []
            for c in new:
                cm, cn = c.rsplit("::", 1) if "::" in c else ("", c)
                if _norm_ty(cm, out["types"]) != mm or cn in ref_ids or cn in out["types"]:
                    continue
                a, b = ref["adts"][m], cur["adts"][c]
                if a["kind"] != b["kind"] or len(a["variants"]) != len(b["variants"]):
                    continue
                trial = dict(out["types"])
                trial[cn] = mn
                same = True
                names_equal = True
                for va, vb in zip(a["variants"], b["variants"]):
                    if len(va["fields"]) != len(vb["fields"]):
                        same = False
                        break
                    # a struct's single variant carries the type's name
                    if va["name"] != vb["name"] and not (va["name"] == mn and vb["name"] == cn):
                        same = False
                        break
                    for fa, fb in zip(va["fields"], vb["fields"]):
                        if _norm_ty(fb["ty"], trial) != fa["ty"]:
                            same = False
                            break
                        if fa["name"] != fb["name"]:
                            names_equal = False
                if same:
                    cands.append((names_equal, cn))
            if len(cands) > 1 and sum(1 for ne, cn in cands if ne) == 1:
                cands = [x for x in cands if x[0]]
            if len(cands) == 1:
                out["types"][cands[0][1]] = mn
                progress = True
        if not progress:
            break
    tm = out["types"]
    # ---- moved types: same name and shape, another module (or out of a function body to module level) --------------
    out["moves"] = {}
    still_missing = [p for p in ref["adts"] if p not in cur["adts"] and p.rsplit("::", 1)[-1] not in tm.values()]
    for m in still_missing:
        mn = m.rsplit("::", 1)[-1]
        cands = []
        for c in cur["adts"]:
            if c in ref["adts"] or c.rsplit("::", 1)[-1] != mn:
                continue
            a, b = ref["adts"][m], cur["adts"][c]
            if a["kind"] != b["kind"] or len(a["variants"]) != len(b["variants"]):
                continue
            ok = True
            for va, vb in zip(a["variants"], b["variants"]):
                if va["name"] != vb["name"] or len(va["fields"]) != len(vb["fields"]):
                    ok = False
                    break
                for fa, fb in zip(va["fields"], vb["fields"]):
                    # other items (traits, helper types) may have moved along: compare with paths cut to their last segment
                    if fa["name"] != fb["name"] or _last_segments(_norm_ty(fb["ty"], tm)) != _last_segments(fa["ty"]):
                        ok = False
                        break
            if ok:
                cands.append(c)
        if len(cands) == 1:
            out["moves"][cands[0]] = m

    def cur_adt_path(p):
        # reference path of a current ADT path
        return out["moves"].get(p, _norm_ty(p, tm))

    # ---- fields and variants ---------------------------------------------------------------------
    for cp, b in cur["adts"].items():
        rp = cur_adt_path(cp)
        a = ref["adts"].get(rp)
        if a is None or a["kind"] != b["kind"] or len(a["variants"]) != len(b["variants"]):
            continue
        for va, vb in zip(a["variants"], b["variants"]):
            if len(va["fields"]) != len(vb["fields"]):
                continue
            if not all(_norm_ty(fb["ty"], tm) == fa["ty"] for fa, fb in zip(va["fields"], vb["fields"])):
                continue
            old_names = [f["name"] for f in va["fields"]]
            new_names = [f["name"] for f in vb["fields"]]
            if sorted(old_names) == sorted(new_names):
                pass  # reordered at most: names are resolved by name
            else:
                for fa, fb in zip(va["fields"], vb["fields"]):
                    if fa["name"] != fb["name"] and fb["name"] not in ref_fields and count_field(fb["name"]) == 1 and fb["name"] not in old_names and fa["name"] not in new_names and not fb["name"].isdigit():
                        out["fields"][fb["name"]] = fa["name"]
            if va["name"] != vb["name"] and b["kind"] == "Enum" and vb["name"] not in ref_variants and count_variant(vb["name"]) == 1 and va["name"] not in [v["name"] for v in b["variants"]]:
                out["variants"][vb["name"]] = va["name"]
                out.setdefault("variant_ctors", []).append((rp.rsplit("::", 1)[-1], vb["name"], va["name"]))
    # ---- functions -------------------------------------------------------------------------------
    def rpath(p):
        p = _norm_ty(p, tm)
        for c_, m_ in out["moves"].items():
            if c_ in p:
                p = p.replace(c_, m_)
        return p

    cur_by_ref = {rpath(p): p for p in cur["fns"]}
    missing = [p for p in ref["fns"] if p not in cur_by_ref]
    new = [p for p in cur["fns"] if rpath(p) not in ref["fns"]]
    taken = set()
    for m in sorted(missing):
        fm = ref["fns"][m]
        cands = []
        for c in new:
            if c in taken:
                continue
            fc = cur["fns"][c]
            if rpath(fc["container"]) != fm["container"] or (fc.get("impl_trait") or None) != (fm.get("impl_trait") or None):
                continue
            if [_norm_ty(s, tm) for s in fc["sig"]] != fm["sig"]:
                continue
            if fc["name"] in ref_ids and fc["name"] in [f["name"] for f in ref["fns"].values()]:
                # the "new" name is the name of a reference function elsewhere: still fine (a different container)
                pass
            a, b = set(fm["callees"]), set(_norm_ty(x, tm) for x in fc["callees"])
            j = len(a & b) / float(len(a | b)) if (a | b) else 1.0
            cands.append((j, c))
        if not cands:
            continue
        cands.sort(reverse=True)
        if len(cands) == 1 or cands[0][0] > cands[1][0]:
            j, c = cands[0]
            if j >= 0.34 or len(cands) == 1:
                taken.add(c)
                out["fns"].append((c, m, cur["fns"][c]["name"], fm["name"], cur["fns"][c]["key"]))
    # ---- moved functions: same name, same parameters after the receiver, same return type, another container ----
    renamed_new = {c for c, m, cn, mn, ck_ in out["fns"]}
    renamed_old = {m for c, m, cn, mn, ck_ in out["fns"]}
    for m in sorted(missing):
        if m in renamed_old:
            continue
        fm = ref["fns"][m]
        cands = []
        for c in new:
            if c in taken or c in renamed_new:
                continue
            fc = cur["fns"][c]
            if fc["name"] != fm["name"] or (fc.get("impl_trait") or None) != (fm.get("impl_trait") or None):
                continue
            sc = [rpath(x) for x in fc["sig"]]
            if len(sc) != len(fm["sig"]) or sc[0] != fm["sig"][0] or sc[2:] != fm["sig"][2:]:
                continue
            cands.append(c)
        if len(cands) == 1:
            c = cands[0]
            taken.add(c)
            out["fns"].append((c, m, cur["fns"][c]["name"], fm["name"], cur["fns"][c]["key"]))
    # ---- constants ---------------------------------------------------------------------------------
    out["consts"] = []
    rc, cc = ref.get("consts", {}), cur.get("consts", {})
    cur_c_by_ref = {rpath(p): p for p in cc}
    for m in [p for p in rc if p not in cur_c_by_ref]:
        mm = m.rsplit("::", 1)[0] if "::" in m else ""
        cands = [c for c in cc if rpath(c) not in rc and rpath(c.rsplit("::", 1)[0] if "::" in c else "") == mm and _norm_ty(cc[c]["ty"] or "", tm) == rc[m]["ty"] and cc[c]["v"] == rc[m]["v"] and cc[c]["name"] not in ref_ids]
        if len(cands) == 1:
            out["consts"].append((cands[0], m, cc[cands[0]]["key"], cc[cands[0]]["name"], rc[m]["name"]))
    return out


def apply(d, rn):
    """rewrites the raw fact dict in place"""
    tm, fm, vm = rn["types"], rn["fields"], rn["variants"]
    fn_paths = {}  # new path prefix -> old
    fn_keys = {}
    for c, m, cn, mn, ckey in rn["fns"]:
        fn_paths[c] = _denorm_target(m, c, tm)
        fn_keys[ckey] = ckey[: len(ckey) - len(cn)] + mn
    const_names = {}
    for c, m, ckey, cn, mn in rn.get("consts", []):
        fn_paths[c] = m
        fn_keys[ckey] = ckey[: len(ckey) - len(cn)] + mn
        const_names[ckey] = mn
    moves = rn.get("moves", {})
    if not (tm or fm or vm or fn_paths or moves):
        return 0
    # type renames first, so that enum names in variant paths are reference names already
    type_re = re.compile(r"\b(%s)\b" % "|".join(re.escape(x) for x in tm)) if tm else None
    n = [0]

    def fix_str(s):
        s0 = s
        for k_new, k_old in fn_keys.items():
            if s == k_new or s.startswith(k_new + "::"):
                s = k_old + s[len(k_new) :]
        for p_new, p_old in fn_paths.items():
            if s == p_new or s.startswith(p_new + "::"):
                s = p_old + s[len(p_new) :]
        if type_re is not None:
            s = type_re.sub(lambda mo: tm[mo.group(1)], s)
        for c_, m_ in moves.items():
            if c_ in s:
                s = s.replace(c_, m_)
        for enum, vnew, vold in rn.get("variant_ctors", []):
            # the variant used as a constructor function / in a printed path: Enum::Variant, Enum::<T>::Variant
            if vnew in s and enum in s:
                s = re.sub(r"(\b%s(?:::<[^>]*>)?::)%s\b" % (re.escape(enum), re.escape(vnew)), lambda mo: mo.group(1) + vold, s)
        if s != s0:
            n[0] += 1
        return s

    fn_new_names = {cn: mn for c, m, cn, mn, ckey in rn["fns"]}
    fn_key_names = {ckey: mn for c, m, cn, mn, ckey in rn["fns"]}

    def walk(x):
        if isinstance(x, dict):
            # field / variant projections and definitions
            if "n" in x and ("f" in x or "d" in x) and isinstance(x["n"], str):
                if "f" in x and x["n"] in fm:
                    x["n"] = fm[x["n"]]
                    n[0] += 1
                elif "d" in x and x["n"] in vm:
                    x["n"] = vm[x["n"]]
                    n[0] += 1
            if x.get("r") == "agg":
                if x.get("variant") in vm:
                    x["variant"] = vm[x["variant"]]
                if "field_names" in x:
                    x["field_names"] = [fm.get(a, a) for a in x["field_names"]]
            old_key = x.get("key")
            for k, v in list(x.items()):
                if isinstance(v, str):
                    if k in ("key", "path", "full", "parent", "root", "def", "s", "impl", "self_s", "trait", "impl_trait", "const_path", "const_def", "in_trait", "adt"):
                        x[k] = fix_str(v)
                    elif k == "name" and isinstance(old_key, str) and (old_key in fn_key_names or old_key in const_names):
                        x[k] = fn_key_names.get(old_key) or const_names[old_key]
                        n[0] += 1
                else:
                    walk(v)
            if isinstance(old_key, str) and old_key in fn_keys and x.get("full"):
                # the monomorphic spelling of the callee ends in ::name or ::name::<..>
                for cn, mn in fn_new_names.items():
                    x["full"] = re.sub(r"::%s(?=$|::<)" % re.escape(cn), "::" + mn, x["full"])
        elif isinstance(x, list):
            for v in x:
                walk(v)

    ref = reference().get(config_key(d.get("cfg", []))) or {}
    moved_quals = {}
    for c, m, cn, mn, ckey in rn["fns"]:
        rq = (ref.get("fns", {}).get(m) or {}).get("qual")
        if rq and c.rsplit("::", 1)[0] != m.rsplit("::", 1)[0]:
            moved_quals[ckey] = rq
    for b in d["bodies"]:
        if b["key"] in moved_quals:
            b["qual_override"] = moved_quals[b["key"]]
    walk(d["bodies"])
    walk(d["impls"])
    walk(d["consts"])
    for t in d["types"]:
        for k in ("s", "path", "name"):
            if isinstance(t.get(k), str):
                t[k] = fix_str(t[k])
    for a in d["adts"]:
        a["path"] = fix_str(a["path"])
        a["key"] = fix_str(a["key"])
        for v in a["variants"]:
            if a["kind"] == "Enum":
                v["name"] = vm.get(v["name"], v["name"])
            else:
                v["name"] = tm.get(v["name"], v["name"])
            for f in v["fields"]:
                f["name"] = fm.get(f["name"], f["name"])
    return n[0]


def _denorm_target(ref_path, cur_path, tm):
    return ref_path


def normalise(d):
    rn = detect(d)
    cnt = apply(d, rn)
    listing = []
    for new, old in rn["types"].items():
        listing.append("type %s -> %s" % (new, old))
    for new, old in rn["fields"].items():
        listing.append("field %s -> %s" % (new, old))
    for new, old in rn["variants"].items():
        listing.append("variant %s -> %s" % (new, old))
    for c_, m_ in rn.get("moves", {}).items():
        listing.append("moved type %s -> %s" % (c_, m_))
    for c, m, cn, mn, ckey in rn["fns"]:
        listing.append("fn %s -> %s" % (c, m))
    for c, m, ckey, cn, mn in rn.get("consts", []):
        listing.append("const %s -> %s" % (c, m))
    return listing
