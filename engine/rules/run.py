#!/usr/bin/env python3
"""./check <ID> [--tier quick|thorough] — MANIFEST quick_cmd / thorough_cmd entry point."""
import argparse
import importlib
import os
import sys
import time
import traceback

sys.path.insert(0, os.path.dirname(os.path.abspath(__file__)))
import core
import extract
import mir


def run_prop(prop, tier, configs=None, repo=None, tag=None, only=None):
    mod = importlib.import_module("props." + prop)
    wanted = configs or (["full"] if tier == "quick" else mod.CONFIGS)
    checks = []
    for cfg in wanted:
        if cfg not in mod.CONFIGS:
            continue
        path, secs, reused = extract.extract(cfg, repo=repo or extract.REPO, tag=tag)
        facts = mir.load(path)
        ck = core.Check(prop, facts, cfg, tier)
        ck.extract_s = secs
        try:
            mod.run(ck)
        except core.AnchorMissing:
            pass
        checks.append(ck)
    return mod, checks


def main():
    ap = argparse.ArgumentParser()
    ap.add_argument("prop")
    ap.add_argument("--tier", default=os.environ.get("VERIF_TIER", "quick"))
    ap.add_argument("--config", action="append")
    ap.add_argument("--repo")
    ap.add_argument("--tag")
    ap.add_argument("--only")
    ap.add_argument("--verbose", "-v", action="store_true")
    a = ap.parse_args()
    seed = int(os.environ.get("VERIF_SEED", "0") or 0)
    t0 = time.time()
    try:
        mod, checks = run_prop(a.prop, a.tier, a.config, a.repo, a.tag, a.only)
        extra = {}
        if a.tier == "thorough":
            import witness

            wprops = ("C03", "C04", "C06", "C08", "C10", "C13", "C16", "C20")
            if a.prop in wprops and checks:
                res = witness.run_witnesses(a.repo)
                n = witness.record(checks[0], None, res)
                extra["witnesses"] = {k: v for k, v in res.items() if k.startswith(a.prop)} if "error" not in res else res
            import selftest

            extra["self_test"] = selftest.run(a.prop, checks[0] if checks else None)
        if a.tier == "thorough" and hasattr(mod, "thorough"):
            extra.update(mod.thorough(checks) or {})
        if hasattr(mod, "coverage_extra"):
            extra.update(mod.coverage_extra(checks))
    except SystemExit as e:
        print(str(e))
        print("VIOLATION property=%s replay=%s" % (a.prop, "/verif/DESIGN.md"))
        print("  why=the analysis could not be carried out (see message above); nothing was decided")
        return 1
    except Exception:
        traceback.print_exc()
        print("VIOLATION property=%s replay=%s" % (a.prop, "/verif/DESIGN.md"))
        print("  why=internal error of the rule engine; nothing was decided")
        return 1
    if a.verbose:
        for c in checks:
            for r in c.results:
                print("  [%s] %-9s %s :: %s" % (c.config, r["verdict"], r["key"], r["why"]))
    return core.finish(
        a.prop,
        a.tier,
        checks,
        getattr(mod, "LEVEL", "other"),
        t0,
        seed,
        extra_cov=extra,
        assumptions=getattr(mod, "ASSUMPTIONS", None) or DEFAULT_ASSUMPTIONS,
        not_decided=getattr(mod, "NOT_DECIDED", []),
        explanation=getattr(mod, "EXPLANATION", ""),
        evidence_dir=(os.path.join(core.WORK, "evidence-" + (a.tag or "scratch")) if (a.repo or a.tag) else None),
    )


DEFAULT_ASSUMPTIONS = [
    "rustc nightly's MIR construction, drop elaboration and Instance::try_resolve are correct; the fact extractor serialises them faithfully",
    "std (RefCell, Cell, Rc, mpsc, atomics, BinaryHeap) and the crates polling, rustix, nix, async-task, slab behave as documented",
    "Linux epoll/eventfd/signalfd semantics",
    "only the clauses named in coverage.explanation are decided; the behavioural remainder listed under coverage.not_decided is not",
]

if __name__ == "__main__":
    sys.exit(main())
