"""Checker self-test (thorough tier): every stored seeded change that this property's check is
documented to catch is applied to a scratch copy of /repo's *current* tree (outside /repo and
/verif), analysed statically, and must produce a violation with the expected key; every stored
benign variant must produce none. The scratch copy and its build output are removed immediately.
A patch that no longer applies is reported as skipped, not as a failure."""
import glob
import importlib
import json
import os
import shutil
import subprocess
import tempfile

import core
import extract
import mir

VERIF = extract.VERIF


def _scratch(repo):
    d = tempfile.mkdtemp(prefix="verif-selftest-")
    subprocess.run(["rsync", "-a", "--exclude", "target", "--exclude", ".git", repo.rstrip("/") + "/", d + "/"], check=True)
    return d


def _apply(d, patch, reverse=False):
    cmd = ["git", "apply"] + (["-R"] if reverse else []) + [patch]
    return subprocess.run(cmd, cwd=d, capture_output=True, text=True).returncode == 0


def _analyse(prop, d, tag):
    mod = importlib.import_module("props." + prop)
    path, secs, reused = extract.extract("full", repo=d, tag=tag)
    facts = mir.load(path)
    ck = core.Check(prop, facts, "full", "thorough")
    try:
        mod.run(ck)
    except core.AnchorMissing:
        pass
    return [r for r in ck.results if r["verdict"] in (core.VIOLATION, core.ANCHOR)]


def _worker(args):
    prop, items, wid, known, base = args
    tag = "selftest-%s-%d" % (prop, wid)
    d = _scratch(extract.REPO)
    out = {"seeded": [], "benign": []}
    try:
        for kind, x, meta in items:
            if kind == "seed":
                sdir = x
                patch = os.path.join(sdir, "patch.rebased.diff")  # rebased onto the current /repo HEAD after a `fix:` commit
                if not os.path.exists(patch):
                    patch = os.path.join(sdir, "patch.diff")
                name = os.path.basename(sdir)
                if not _apply(d, patch):
                    out["seeded"].append({"seed": name, "result": "skipped (patch does not apply to the current tree)"})
                    continue
                try:
                    viol = _analyse(prop, d, tag)
                    keys = [v["key"] for v in viol if v["key"] not in known and v["key"] not in base]
                    want = meta["detected_by"][prop]
                    hit = [k for k in keys if any(w in k for w in want)]
                    own = meta.get("property", prop) == prop
                    res = "detected" if hit else ("detected-by-other-rule" if keys else ("MISSED" if own else "not reported (incidental: this change was written against %s)" % meta.get("property")))
                    out["seeded"].append({"seed": name, "result": res, "keys": keys[:6]})
                except SystemExit as e:
                    out["seeded"].append({"seed": name, "result": "error: %s" % e})
                finally:
                    _apply(d, patch, reverse=True)
            else:
                patch = x
                name = os.path.basename(os.path.dirname(patch))
                if os.path.exists(os.path.join(os.path.dirname(patch), "patch.rebased.diff")):
                    patch = os.path.join(os.path.dirname(patch), "patch.rebased.diff")
                if not _apply(d, patch):
                    out["benign"].append({"variant": name, "result": "skipped (patch does not apply to the current tree)"})
                    continue
                try:
                    viol = _analyse(prop, d, tag)
                    keys = [v["key"] for v in viol if v["key"] not in known and v["key"] not in base]
                    out["benign"].append({"variant": name, "result": "silent" if not keys else "FALSE-ALARM", "keys": keys[:6]})
                except SystemExit as e:
                    out["benign"].append({"variant": name, "result": "error: %s" % e})
                finally:
                    _apply(d, patch, reverse=True)
    finally:
        shutil.rmtree(d, ignore_errors=True)
        shutil.rmtree(os.path.join(extract.WORK, "tgt-%s-full" % tag), ignore_errors=True)
        for f_ in glob.glob(os.path.join(extract.WORK, "facts", "%s-*" % tag)):
            os.remove(f_)
    return out


def run(prop, base_check):
    seeded = []
    for m in sorted(glob.glob(os.path.join(VERIF, "seeded", "*", "meta.json"))):
        meta = json.load(open(m))
        if prop in meta.get("detected_by", {}):
            seeded.append((os.path.dirname(m), meta))
    # hand-written mutants recorded as caught by this property (mutants/matrix.json)
    mm = os.path.join(VERIF, "mutants", "matrix.json")
    if os.path.exists(mm):
        for k, v in sorted(json.load(open(mm)).items()):
            name = os.path.basename(k)
            if name.startswith("<"):
                continue
            if isinstance(v, dict) and prop in v and os.path.exists(os.path.join(VERIF, "mutants", name, "patch.diff")):
                aimed = open(os.path.join(VERIF, "mutants", name, "descr.txt")).read()[:3]
                seeded.append((os.path.join(VERIF, "mutants", name), {"property": aimed, "detected_by": {prop: [kk.split("/", 1)[1] for kk in v[prop]]}}))
    benign = sorted(glob.glob(os.path.join(VERIF, "benign", "*", "patch.diff")))
    if not seeded and not benign:
        return {"seeded": [], "benign": [], "note": "no stored variants for this property"}
    known = {k["key"] for k in core.load_known() if k.get("status") == "open"}
    base = {r["key"] for r in (base_check.results if base_check else []) if r["verdict"] in (core.VIOLATION, core.ANCHOR)}
    # the variants are independent: they are spread over worker processes, each with its own scratch copy and
    # extraction tag (VERIF_SELFTEST_JOBS, default: half of the cores, at most 8)
    jobs = max(1, min(int(os.environ.get("VERIF_SELFTEST_JOBS", "0")) or (os.cpu_count() or 2) // 2, 8))
    items = [("seed", sdir, meta) for sdir, meta in seeded] + [("benign", patch, None) for patch in benign]
    chunks = [items[k::jobs] for k in range(jobs)]
    chunks = [c for c in chunks if c]
    out = {"seeded": [], "benign": []}
    if len(chunks) <= 1:
        parts = [_worker((prop, chunks[0] if chunks else [], 0, known, base))]
    else:
        import multiprocessing

        with multiprocessing.get_context("fork").Pool(len(chunks)) as pool:
            parts = pool.map(_worker, [(prop, c, k, known, base) for k, c in enumerate(chunks)])
    for part in parts:
        out["seeded"] += part["seeded"]
        out["benign"] += part["benign"]
    out["seeded"].sort(key=lambda x: x["seed"])
    out["benign"].sort(key=lambda x: x["variant"])
    for s in out["seeded"]:
        if s["result"] == "MISSED":
            print("SELFTEST-MISS property=%s seed=%s (the check no longer detects a stored seeded change)" % (prop, s["seed"]))
    for s in out["benign"]:
        if s["result"] == "FALSE-ALARM":
            print("SELFTEST-FALSE-ALARM property=%s variant=%s keys=%s" % (prop, s["variant"], s["keys"]))
    return out
