"""T1 — no RefCell guard of loop state is live where user code may run (whole-crate enumeration)."""
from collections import defaultdict

import flow
from mir import place_str


class Site:
    __slots__ = ("body", "bb", "cls", "descr", "live", "inherited", "via", "line")

    def __init__(self, body, bb, cls, descr, live, inherited, via=None):
        self.body = body
        self.bb = bb
        self.cls = cls
        self.descr = descr
        self.live = live  # [(local, kind, payload tyid)]
        self.inherited = inherited  # [(from body qual, kind, payload tyid)]
        self.via = via
        self.line = body.blocks[bb]["term"]["sp"][0]

    def payloads(self):
        f = self.body.facts
        out = []
        for l, kind, p in self.live:
            out.append((kind, f.short_ty(p), f.types[p], self.body.local_name(l) or "_%d" % l, None))
        for src, kind, p in self.inherited:
            out.append((kind, f.short_ty(p), f.types[p], "(held by caller)", src))
        return out


def enumerate_sites(ck):
    facts = ck.facts
    summ = ck.summaries()
    # inherited guards of closures (fixpoint)
    inherited = defaultdict(set)
    changed = True
    rounds = 0
    while changed and rounds < 10:
        changed = False
        rounds += 1
        for ck_key, uses in summ.closure_uses.items():
            for pk, bb in uses:
                parent = facts.bodies[pk]
                gf = ck.guardflow(parent)
                new = set()
                for l, kind, p in gf.live_payloads(bb):
                    new.add((parent.qual, kind, p))
                new |= inherited[pk]
                if not new <= inherited[ck_key]:
                    inherited[ck_key] |= new
                    changed = True
    sites = []
    for key, b in facts.bodies.items():
        gf = ck.guardflow(b)
        inh = sorted(inherited.get(key, ()))
        for cs in b.calls():
            if b.is_cleanup(cs.bb):
                continue
            c = flow.classify_call(cs)
            live = gf.live_payloads(cs.bb)
            # a guard passed *by move* into this very call is not held across it by the caller
            if c:
                sites.append(Site(b, cs.bb, c, cs.describe(), live, inh))
                continue
            cb = cs.callee_body()
            if cb is not None and cb.key != key:
                for k in sorted(summ.classes(cb.key)):
                    sites.append(Site(b, cs.bb, k, "call " + cb.qual, live, inh, via=[cb.qual] + summ.chain(cb.key, k)))
        for bb, t in b.drops():
            if b.is_cleanup(bb):
                continue
            r = flow.classify_drop(b, t)
            if r:
                live = [x for x in gf.live_payloads(bb) if x[0] != t["pl"]["l"]]
                cat = flow.drop_category(r)
                cls = "DROP" if cat in ("dispatcher", "runnable", "param") else "DROP-" + cat
                sites.append(Site(b, bb, cls, "drop %s: %s" % (place_str(t["pl"]), facts.short_ty(t["ty"])), live, inh, via=[r]))
    return sites
