"""Rule templates T1..T12 (DESIGN.md section 3) as reusable functions over mir.Body."""
import os
from mir import op_place, place_str, op_str, TRACE_MACROS
from core import path_descr

# ------------------------------------------------------------------------------------------
# site finders
# ------------------------------------------------------------------------------------------


def calls(body, name=None, trait=None, path=None, self_kind=None, pred=None, cleanup=False):
    out = []
    for cs in body.calls():
        if not cleanup and body.is_cleanup(cs.bb):
            continue
        if name is not None:
            if isinstance(name, (set, tuple, list)):
                if cs.name not in name:
                    continue
            elif cs.name != name:
                continue
        if trait is not None:
            tr = cs.trait or (cs.f.get("impl_trait") if cs.f else None)
            if tr is None or not (tr == trait or tr.endswith("::" + trait)):
                continue
        if path is not None and path not in (cs.path or ""):
            continue
        if self_kind is not None:
            st = cs.self_ty
            if st is None:
                continue
            k = body.facts.types[body.facts.peel_refs(st)].get("k")
            if k not in (self_kind if isinstance(self_kind, (set, tuple, list)) else (self_kind,)):
                continue
        if pred is not None and not pred(cs):
            continue
        out.append(cs)
    return out


def path_has(body, x, *elems):
    """does some access path of operand/place x contain all of the given path elements in order?"""
    for root, path in body.resolve(x):
        i = 0
        for p in path:
            if i < len(elems) and p == elems[i]:
                i += 1
        if i == len(elems):
            return True
    return False


def roots_of(body, x):
    return {r for r, _ in body.resolve(x)}


def resolves_to_call(body, x, bbs):
    bbs = set(bbs)
    return any(r[0] == "call" and r[1] in bbs for r in roots_of(body, x))


SEQ_IDENTITY = ("collect", "into_iter", "from_iter", "into", "from", "by_ref", "fuse")


def same_sequence_as_call(body, x, bbs, depth=4):
    """operand x is the result of one of the calls at `bbs`, possibly passed through conversions that keep
    every element and their order (`.into_iter()`, `.collect()`, Vec <-> VecDeque `from`/`into`)"""
    bbs = set(bbs)
    for r in roots_of(body, x):
        if r[0] != "call":
            continue
        if r[1] in bbs:
            return True
        c = body.call_at(r[1])
        if depth > 0 and c is not None and c.name in SEQ_IDENTITY and len(c.args) == 1 and same_sequence_as_call(body, c.args[0], bbs, depth - 1):
            # the destination is itself a sequence (not a set / map / reversed adaptor)
            ty = body.facts.types[body.local_ty(c.dest["l"])]["s"] if not c.dest["p"] else ""
            if any(x in ty for x in ("Vec<", "VecDeque<", "IntoIter<", "Drain<", "Box<[", "SmallVec<")) and "Rev<" not in ty:
                return True
    return False


def resolves_to_arg(body, x, n):
    return ("arg", n) in roots_of(body, x)


def agg_variant(body, x):
    """if operand x is (a copy of) an enum-variant/struct aggregate, return set of (adt, variant)"""
    out = set()
    for r in roots_of(body, x):
        if r[0] == "agg":
            rv = body.agg_at(r[1], r[2])
            if rv.get("kind") == "adt":
                out.add((rv["adt"], rv.get("variant")))
        elif r[0] == "const":
            out.add(("const", r[1]))
    return out


def ret_locals(body):
    """locals whose whole value is copied/moved into the return place _0 (including _0): a helper
    inlined in tail position builds the value in its own return local first"""
    c = getattr(body, "_ret_locals", None)
    if c is not None:
        return c
    out = {0}
    changed = True
    while changed:
        changed = False
        for i, j, st in body.statements():
            if st["s"] == "assign" and not st["pl"]["p"] and st["pl"]["l"] in out and st["rv"]["r"] == "use" and not body.is_cleanup(i):
                pl = op_place(st["rv"]["o"])
                if pl is not None and not pl["p"] and pl["l"] not in out and pl["l"] > body.arg_count:
                    out.add(pl["l"])
                    changed = True
    body._ret_locals = out
    return out


def ok_returns(body, variant="Ok"):
    """[(bb, set of (adt, variant))]: the sites that decide the payload of `return Ok(payload)`.
    `Ok(if c { A } else { B })` assigns the payload in each arm and wraps it in a shared join block:
    then every arm is a site of its own (the block where the payload aggregate is built)."""
    out = []
    for i, j, st in body.statements():
        if not (st["s"] == "assign" and st["pl"]["l"] in ret_locals(body) and not st["pl"]["p"] and st["rv"]["r"] == "agg" and st["rv"].get("variant") == variant) or body.is_cleanup(i):
            continue
        if not st["rv"]["fields"]:
            out.append((i, set()))
            continue
        op = st["rv"]["fields"][0]
        pl = op_place(op)
        split = False
        # follow plain copies to the local the payload is really assigned in (an inlined helper's return local)
        hops = 0
        while pl is not None and not pl["p"] and hops < 6:
            ds = body.defs().get(pl["l"], [])
            srcs = {(op_place(d[3]["rv"]["o"]) or {}).get("l") if d[0] == "assign" and d[3]["rv"]["r"] == "use" and op_place(d[3]["rv"]["o"]) is not None and not op_place(d[3]["rv"]["o"])["p"] else None for d in ds}
            if ds and len(srcs) == 1 and None not in srcs:
                # one source local (copied once, or once per cloned epilogue of an inlined helper)
                pl = op_place(ds[0][3]["rv"]["o"])
                hops += 1
            else:
                break
        if pl is not None and not pl["p"]:
            ds = body.defs().get(pl["l"], [])
            if len(ds) > 1 and all(d[0] == "assign" for d in ds):
                for d in ds:
                    rv = d[3]["rv"]
                    if rv["r"] == "agg" and rv.get("kind") == "adt":
                        out.append((d[1], {(rv["adt"], rv.get("variant"))}))
                    elif rv["r"] == "use":
                        out.append((d[1], agg_variant(body, rv["o"])))
                    else:
                        out.append((d[1], set()))
                split = True
        if not split:
            out.append((i, agg_variant(body, op)))
    return out


def stores_to_field(body, field, cleanup=False):
    """(bb, idx, stmt) of assignments whose destination place ends in .field (or passes through it)"""
    out = []
    for i, j, st in body.statements():
        if st["s"] != "assign":
            continue
        if not cleanup and body.is_cleanup(i):
            continue
        pl = st["pl"]
        names = [p["n"] for p in pl["p"] if isinstance(p, dict) and "f" in p]
        if names and names[-1] == field:
            out.append((i, j, st))
    # `mem::replace(&mut P.field, v)` stores v into P.field (the old value is the call's result): the same store,
    # spelled as a call. Reported as a pseudo-assignment at the end of the calling block.
    for cs in body.calls():
        if cs.f is None or cs.f.get("path") != "std::mem::replace" or len(cs.args) != 2 or (not cleanup and body.is_cleanup(cs.bb)):
            continue
        pl = _borrowed_place(body, cs.args[0])
        if pl is None:
            continue
        names = [p["n"] for p in pl["p"] if isinstance(p, dict) and "f" in p]
        if names and names[-1] == field:
            out.append((cs.bb, len(body.blocks[cs.bb]["st"]), {"s": "assign", "pl": pl, "rv": {"r": "use", "o": cs.args[1]}, "sp": cs.term.get("sp"), "via": "mem::replace"}))
    # `P.field.replace(v)` / `P.field.insert(v)` on an Option field store Some(v) into it
    for cs in body.calls():
        if cs.f is None or cs.f.get("path") not in ("std::option::Option::<T>::replace", "std::option::Option::<T>::insert") or len(cs.args) != 2 or (not cleanup and body.is_cleanup(cs.bb)):
            continue
        pl = _borrowed_place(body, cs.args[0])
        if pl is None:
            continue
        names = [p["n"] for p in pl["p"] if isinstance(p, dict) and "f" in p]
        if names and names[-1] == field:
            out.append((cs.bb, len(body.blocks[cs.bb]["st"]), {"s": "assign", "pl": pl, "rv": {"r": "agg", "kind": "adt", "adt": "std::option::Option", "variant": "Some", "variant_idx": 1, "field_names": ["0"], "fields": [cs.args[1]]}, "sp": cs.term.get("sp"), "via": "Option::" + cs.name}))
    return out


def _borrowed_place(body, op, depth=0):
    """the place P when the operand is a local defined once as `&mut P` (through whole-local moves and `&mut *r` reborrows)"""
    pl = op.get("m") or op.get("c")
    if pl is None or pl["p"] or depth > 4:
        return None
    ds = body.defs().get(pl["l"], [])
    if len(ds) != 1 or ds[0][0] != "assign":
        return None
    rv = ds[0][3]["rv"]
    if rv["r"] == "use":
        return _borrowed_place(body, rv["o"], depth + 1)
    if rv["r"] == "ref":
        if rv["pl"]["p"] == ["*"]:
            return _borrowed_place(body, {"c": {"l": rv["pl"]["l"], "p": []}}, depth + 1)
        return rv["pl"]
    return None


def drops_of_field(body, field, cleanup=False):
    out = []
    for bb, t in body.drops():
        if not cleanup and body.is_cleanup(bb):
            continue
        names = [p["n"] for p in t["pl"]["p"] if isinstance(p, dict) and "f" in p]
        if names and names[-1] == field:
            out.append((bb, t))
    return out


def variant_discr(facts, adt_path, variant):
    for v in facts.adts[adt_path]["variants"]:
        if v["name"] == variant:
            return v.get("discr")
    return None


# ------------------------------------------------------------------------------------------
# T2 all-exits pairing
# ------------------------------------------------------------------------------------------


def t2_all_exits(body, starts, pass_blocks, exits=None, removed_edges=(), also_removed=()):
    """every normal path from the entry of any block in `starts` to an exit passes a block of
    pass_blocks. Returns None if it holds, else an offending block path."""
    if exits is None:
        exits = body.return_blocks()
    pass_blocks = set(pass_blocks) | set(also_removed)
    # a start may be given as an edge (a, b): the search starts at b, and the path-sensitive second opinion knows
    # what taking that edge decides (the arm of a switch)
    start_edges = [s for s in starts if isinstance(s, tuple)]
    starts = [s[1] if isinstance(s, tuple) else s for s in starts if s is not None]
    bad = body.find_path(starts, exits, removed_blocks=pass_blocks, removed_edges=removed_edges)
    if bad is not None and not os.environ.get("VERIF_NO_PATHSENS"):
        # second opinion: is there an avoiding path that no decided test refutes? (pathsens.py)
        import pathsens

        ps = pathsens.find_feasible_path(body, [s for s in starts if s not in {e[1] for e in start_edges}] + start_edges, exits, removed_blocks=pass_blocks, removed_edges=removed_edges)
        if ps is None:
            return None
        if isinstance(ps, list):
            return ps
    return bad


# ------------------------------------------------------------------------------------------
# T3 dominance
# ------------------------------------------------------------------------------------------


def t3_dominated_by_any(body, site, candidates):
    """is block `site` unreachable from entry once all candidate blocks are removed (collective
    dominance)?"""
    if site in candidates:
        return True
    r = body.reachable([0], removed_blocks=set(candidates))
    return site not in r


def t3_dominated_by_edges(body, site, edges):
    """is `site` unreachable from entry once the given edges (a, b) are removed?"""
    r = body.reachable([0], removed_edges=set(edges))
    return site not in r


# ------------------------------------------------------------------------------------------
# T4 guarded-by
# ------------------------------------------------------------------------------------------


def edges_of_value(body, sw, want_true):
    """for a boolean switch block: the out-edges taken when the un-negated root expression is
    true (want_true) / false"""
    e, tr, fa = body.bool_edges(sw)
    return [(sw, t) for t in (tr if want_true else fa)]


def discr_edges(body, sw, value):
    """edges of a discriminant switch taken for `value` (list of (sw, target)); handles the
    otherwise edge when the value is not listed explicitly"""
    t = body.blocks[sw]["term"]
    listed = {v: tgt for v, tgt in t["targets"]}
    if value in listed:
        return [(sw, listed[value])]
    return [(sw, t["otherwise"])]


def discr_other_edges(body, sw, value):
    t = body.blocks[sw]["term"]
    keep = set(discr_edges(body, sw, value))
    out = []
    for tgt, _ in body.succ_edges(sw):
        if (sw, tgt) not in keep:
            out.append((sw, tgt))
    return out


def reachable_only_via(body, site, edges, frm=None, barrier=()):
    """site (block) is reachable from `frm` (default entry) only through one of `edges`"""
    start = [0] if frm is None else list(frm)
    r = body.reachable(start, removed_edges=set(edges), removed_blocks=set(barrier))
    return site not in r


def switches_on_expr(body, pred):
    """switch blocks whose un-negated root expression satisfies pred(expr)"""
    out = []
    for i, b in enumerate(body.blocks):
        if b["term"]["t"] != "switch" or body.is_cleanup(i):
            continue
        e = body.expr(b["term"]["on"], at=i)
        while e[0] == "not":
            e = e[1]
        if pred(e):
            out.append(i)
    return out


def switch_reads(body, sw):
    """access paths whose value the switch at sw decides on (un-negated root): a place / its
    discriminant, or the *old* value handed back by mem::replace / mem::take / Cell::replace on it
    (`if mem::replace(&mut x.flag, false)` tests x.flag). Returns (kind, set of (root, path)) with
    kind 'place' | 'discr' | None"""
    e = body.expr(body.blocks[sw]["term"]["on"], at=sw)
    while e[0] == "not":
        e = e[1]
    if e[0] in ("place", "discr"):
        return e[0], set(body.resolve(e[2]))
    if e[0] == "call":
        cs = body.call_at(e[1])
        if cs is not None and cs.f and cs.f["path"] in ("std::mem::replace", "std::mem::take", "std::cell::Cell::<T>::replace", "std::cell::Cell::<T>::take", "std::cell::Cell::<T>::get") and cs.args:
            out = set()
            for root, path in body.resolve(cs.args[0]):
                path = tuple(path[:-1]) if path and path[-1] == "&" else tuple(path)
                out.add((root, path))
            return "place", out
    return None, set()


def switches_on_discr_of(body, match_place):
    """switch blocks on discriminant(P) where match_place(P) holds"""
    return switches_on_expr(body, lambda e: e[0] == "discr" and match_place(e[2]))


def call_result_switches(body, call_bb, first_only=True):
    """switches deciding on the boolean result of call_bb, or on the discriminant of its result
    (directly, through copies/moves, or through Try::branch). Only the switch(es) not dominated
    by another switch on the same value are returned (drop elaboration re-tests discriminants
    later on; those tests are not decisions of the program)."""
    out = []
    for i, b in enumerate(body.blocks):
        t = b["term"]
        if t["t"] != "switch" or body.is_cleanup(i):
            continue
        e = body.expr(t["on"], at=i)
        while e[0] == "not":
            e = e[1]
        if e == ("call", call_bb):
            out.append((i, "bool"))
        elif e[0] in ("discr", "place"):
            pl = e[2]
            for root, path in body.resolve(pl):
                if root == ("call", call_bb) and all(x in (".branch",) for x in path):
                    out.append((i, "discr" if e[0] == "discr" else "bool"))
                    break
                if e[0] == "place" and root == ("call", call_bb) and all(x in (".branch", " as Continue", ".0") for x in path):
                    # the bool payload of `call(..)?`
                    out.append((i, "bool"))
                    break
    if first_only and len(out) > 1:
        keep = []
        for i, m in out:
            if not any(j != i and body.dominates(j, i) for j, m2 in out if m2 == m):
                keep.append((i, m))
        out = keep
    return out


# ------------------------------------------------------------------------------------------
# loops
# ------------------------------------------------------------------------------------------


def loop_of_next(body, item_pred=None, self_pred=None):
    """natural loops whose header block ends in Iterator::next; returns [(header_bb, blocks, cs)]"""
    out = []
    loops = body.loops()
    for h, blocks in loops.items():
        cs = body.call_at(h)
        if cs is None or cs.name != "next":
            continue
        if self_pred is not None and not self_pred(cs):
            continue
        out.append((h, blocks, cs))
    return out


def loop_exit_edges(body, blocks):
    out = []
    for b in blocks:
        for tgt, lab in body.succ_edges(b):
            if tgt not in blocks:
                out.append((b, tgt, lab))
    return out


# ------------------------------------------------------------------------------------------
# Result / Option continuations of a call
# ------------------------------------------------------------------------------------------


def result_split(body, call_bb):
    """(ok_edges, err_edges, returned_directly) for a call producing a Result (or ControlFlow via
    `?`): edges are (switch_bb, target). Discriminant 0 = Ok/Continue, 1 = Err/Break.
    returned_directly: the result (or a move of it) is the function's return value without any
    branch on it."""
    ok, err = [], []
    for sw, mode in call_result_switches(body, call_bb):
        if mode != "discr":
            continue
        ok += discr_edges(body, sw, 0)
        err += discr_edges(body, sw, 1)
    # `let r = call(); if r.is_ok() { .. } r`: the boolean test of is_ok / is_err on the (borrowed) result
    for c2 in body.calls():
        if c2.name in ("is_ok", "is_err") and c2.f and c2.f["path"].startswith("std::result::Result") and not body.is_cleanup(c2.bb) and c2.args:
            if any(r == ("call", call_bb) and all(x in ("&", "*", ".branch") for x in p) for r, p in body.resolve(c2.args[0])):
                tr, fa = bool_split(body, c2.bb)
                ok += tr if c2.name == "is_ok" else fa
                err += fa if c2.name == "is_ok" else tr
    cs = body.call_at(call_bb)
    direct = False
    if cs is not None and not ok and not err:
        if cs.dest["l"] == 0:
            direct = True
        else:
            for i, j, st in body.statements():
                if st["s"] == "assign" and st["pl"]["l"] == 0 and not st["pl"]["p"] and st["rv"]["r"] == "use":
                    if resolves_to_call(body, st["rv"]["o"], [call_bb]) and not body.is_cleanup(i):
                        direct = True
    return ok, err, direct


def option_split(body, call_bb):
    """(some_edges, none_edges) for a call producing an Option, or a Result<Option<_>, _> whose
    Ok payload is tested after `?` / `if let Ok(..)`"""
    some, none = [], []
    found = []
    for i, b in enumerate(body.blocks):
        t = b["term"]
        if t["t"] != "switch" or body.is_cleanup(i):
            continue
        e = body.expr(t["on"], at=i)
        if e[0] != "discr":
            continue
        for root, path in body.resolve(e[2]):
            if root == ("call", call_bb) and path in ((), (".branch", " as Continue", ".0"), (" as Ok", ".0"), (".branch",)):
                found.append((i, path))
                break
    # payload tests take precedence over the outer Result test
    payload = [x for x in found if x[1] not in ((), (".branch",))]
    use = payload or found
    use = [i for i, _ in use if not any(j != i and body.dominates(j, i) for j, _ in use)]
    paths = dict(found)
    for sw in use:
        if paths.get(sw) == (".branch",):
            # Option through `?`: ControlFlow::Continue (= Some) is variant 0, Break (= None) is 1
            some += discr_edges(body, sw, 0)
            none += discr_edges(body, sw, 1)
        else:
            none += discr_edges(body, sw, 0)
            some += discr_edges(body, sw, 1)
    for c2 in body.calls():
        if c2.name in ("is_some", "is_none") and c2.f and c2.f["path"].startswith("std::option::Option") and not body.is_cleanup(c2.bb) and c2.args:
            if any(r == ("call", call_bb) and all(x in ("&", "*") for x in p) for r, p in body.resolve(c2.args[0])):
                tr, fa = bool_split(body, c2.bb)
                some += tr if c2.name == "is_some" else fa
                none += fa if c2.name == "is_some" else tr
    return some, none


def _bool_polarity(body, op, call_bb, depth=0):
    """+1 / -1 if operand op is the boolean result of call_bb / its negation, seen through copies, `Ok(..)`/`Some(..)`
    wrappers, `?` and multiply assigned locals (all alternatives must agree); None otherwise"""
    if depth > 6:
        return None
    pols = set()
    for root, path in body.resolve(op):
        if root == ("call", call_bb) and all(x in (".branch", " as Continue", ".0", " as Ok", " as Some", ".unwrap") for x in path):
            pols.add(1)
        elif root[0] == "rv" and not path:
            rv = body.blocks[root[1]]["st"][root[2]]["rv"]
            if rv["r"] == "un" and rv.get("op") == "Not":
                p = _bool_polarity(body, rv["a"], call_bb, depth + 1)
                pols.add(-p if p else None)
            else:
                pols.add(None)
        elif root[0] == "infeasible":
            continue
        else:
            pols.add(None)
    if len(pols) == 1 and None not in pols:
        return pols.pop()
    return None


def bool_split(body, call_bb):
    tr, fa = [], []
    seen = set()
    for sw, mode in call_result_switches(body, call_bb):
        if mode != "bool":
            continue
        seen.add(sw)
        tr += edges_of_value(body, sw, True)
        fa += edges_of_value(body, sw, False)
    # the same value tested after it travelled through a negation and/or a Result/Option wrapper (a helper returning
    # `Ok(!list.is_empty())`, tested by its caller after `?`)
    for sw, blk in enumerate(body.blocks):
        t = blk["term"]
        if t["t"] != "switch" or sw in seen or body.is_cleanup(sw):
            continue
        pol = _bool_polarity(body, t["on"], call_bb)
        if pol is None:
            continue
        zero = [(sw, tgt) for v, tgt in t["targets"] if v == 0]
        nonzero = [(sw, tgt) for v, tgt in t["targets"] if v != 0]
        if zero:
            nonzero = nonzero + [(sw, t["otherwise"])]
        else:
            zero = [(sw, t["otherwise"])]
        if pol > 0:
            tr += nonzero
            fa += zero
        else:
            tr += zero
            fa += nonzero
    return tr, fa


def closure_bodies_passed(body, cs):
    """local closure bodies handed to this call as arguments"""
    out = []
    facts = body.facts
    for a in cs.args:
        for r, _ in body.resolve(a):
            if r[0] == "agg":
                rv = body.agg_at(r[1], r[2])
                if rv.get("kind") == "closure" and rv.get("def") in facts.bodies:
                    out.append(facts.bodies[rv["def"]])
    return out


# ------------------------------------------------------------------------------------------
# T12 error discipline: what happens to the result of a call
# ------------------------------------------------------------------------------------------

FOLLOW_RESULT = {"map_err", "map", "and_then", "or_else", "into", "from", "branch", "inspect_err"}


def _local_uses(body, l):
    """(kind, bb, info) for every read of local l as a whole operand or as a place base"""
    uses = []
    for i, blk in enumerate(body.blocks):
        if body.is_cleanup(i):
            continue
        for j, st in enumerate(blk["st"]):
            if st["s"] != "assign":
                continue
            rv = st["rv"]
            ops = []
            r = rv["r"]
            if r in ("use", "cast", "repeat", "wrap_binder"):
                ops = [rv["o"]]
            elif r == "bin":
                ops = [rv["a"], rv["b"]]
            elif r == "un":
                ops = [rv["a"]]
            elif r == "agg":
                ops = rv["fields"]
            for o in ops:
                pl = op_place(o)
                if pl is not None and pl["l"] == l:
                    uses.append(("assign", i, st))
            if r in ("ref", "rawptr", "discr") and rv["pl"]["l"] == l:
                uses.append((r, i, st))
        t = blk["term"]
        if t["t"] == "call":
            for k, a in enumerate(t["args"]):
                pl = op_place(a)
                if pl is not None and pl["l"] == l:
                    uses.append(("arg", i, k))
        elif t["t"] == "drop" and t["pl"]["l"] == l and not t["pl"]["p"]:
            uses.append(("drop", i, None))
        elif t["t"] == "switch":
            pl = op_place(t["on"])
            if pl is not None and pl["l"] == l:
                uses.append(("switch", i, None))
    return uses


def result_uses(body, call_bb, _depth=0, _local=None):
    """how the result of the call ending call_bb is consumed: subset of
    {'?', 'match', 'returned', 'ok()-discarded', 'ok()-used', 'unwrap', 'dropped', 'unused',
     'passed:<callee>', 'stored'}"""
    out = set()
    if _local is None:
        cs = body.call_at(call_bb)
        d = cs.dest
        if d["p"]:
            return {"stored"}
        l = d["l"]
    else:
        l = _local
    if l == 0:
        return {"returned"}
    if _depth > 8:
        return {"deep"}
    uses = _local_uses(body, l)
    real = [u for u in uses if u[0] != "drop"]
    if not real:
        return {"dropped" if uses else "unused"}
    for kind, bb, info in real:
        if kind == "discr" and body.blocks[bb]["term"].get("desugared") and info["pl"]["l"] == op_place(body.blocks[bb]["term"]["on"])["l"]:
            # the expansion of an Option / Result combinator applied to the value (desugar.py): classify it as the
            # combinator it was written as
            t = body.blocks[bb]["term"]
            n = t["desugared"]
            dl = t["desugared_dest"]["l"]
            if n == "ok" and t.get("desugared_adt", "").endswith("Result"):
                sub = result_uses(body, call_bb, _depth + 1, dl)
                out.add("ok()-discarded" if sub <= {"dropped", "unused"} else "ok()-used")
            elif n in FOLLOW_RESULT:
                out |= result_uses(body, call_bb, _depth + 1, dl)
            else:
                out.add("match")
        elif kind == "discr" or kind == "switch":
            out.add("match")
        elif kind == "assign":
            st = info
            if st["pl"]["p"]:
                out.add("stored")
            else:
                out |= result_uses(body, call_bb, _depth + 1, st["pl"]["l"])
        elif kind in ("ref", "rawptr"):
            st = info
            out |= {x for x in result_uses(body, call_bb, _depth + 1, st["pl"]["l"]) if x not in ("dropped", "unused")} or {"match"}
        elif kind == "arg":
            c2 = body.call_at(bb)
            n = c2.name
            if n == "branch":
                out.add("?")
            elif n in ("unwrap", "expect", "unwrap_unchecked"):
                out.add("unwrap")
            elif n == "ok" and c2.path and "Result" in c2.path:
                sub = result_uses(body, bb)
                out.add("ok()-discarded" if sub <= {"dropped", "unused"} else "ok()-used")
            elif n in FOLLOW_RESULT:
                out |= result_uses(body, bb)
            elif n in ("is_err", "is_ok"):
                out.add("match")
            elif n == "drop":
                out.add("dropped")
            else:
                out.add("passed:" + (c2.describe()))
    return out


# ------------------------------------------------------------------------------------------
# taint: does a value derive from the result of given calls (through any intermediate calls)?
# ------------------------------------------------------------------------------------------


def _raw_derives(body, x, call_bbs, seen, depth=0):
    """definition-chain walk that does not look through 'transparent' std calls (iter, deref, ..):
    does operand/place x derive from the result of one of the calls?"""
    pl = x if ("l" in x and "p" in x) else op_place(x)
    if pl is None or depth > 30:
        return False
    l = pl["l"]
    key = (l, pl["p"][0]["f"] if pl["p"] and isinstance(pl["p"][0], dict) and "f" in pl["p"][0] else None)
    if key in seen:
        return False
    seen.add(key)
    for d in body.defs().get(l, []):
        if d[0] == "call":
            if d[1] in call_bbs:
                return True
            for a in d[2]["args"]:
                if _raw_derives(body, a, call_bbs, seen, depth + 1):
                    return True
        else:
            rv = d[3]["rv"]
            ops = []
            if rv["r"] in ("use", "cast", "repeat", "wrap_binder"):
                ops = [rv["o"]]
            elif rv["r"] in ("ref", "rawptr", "discr"):
                ops = [rv["pl"]]
            elif rv["r"] == "agg":
                ops = rv["fields"]
                # `(t.0)` of a tuple / struct literal: only that field
                fp = [p for p in pl["p"] if isinstance(p, dict) and "f" in p]
                if pl["p"] and isinstance(pl["p"][0], dict) and "f" in pl["p"][0] and pl["p"][0]["f"] < len(ops) and rv.get("kind") in ("tuple", "adt") and "variant_idx" not in rv or (pl["p"] and isinstance(pl["p"][0], dict) and "f" in pl["p"][0] and rv.get("kind") == "tuple" and pl["p"][0]["f"] < len(ops)):
                    ops = [ops[pl["p"][0]["f"]]]
            elif rv["r"] == "bin":
                ops = [rv["a"], rv["b"]]
            elif rv["r"] == "un":
                ops = [rv["a"]]
            for o in ops:
                if _raw_derives(body, o, call_bbs, set(seen) if len(ops) == 1 and rv["r"] == "agg" else seen, depth + 1):
                    return True
    return False


def tainted_by_call(body, x, call_bbs, _depth=0, _seen=None):
    call_bbs = set(call_bbs)
    if _depth == 0 and _raw_derives(body, x, call_bbs, set()):
        return True
    _seen = _seen if _seen is not None else set()
    for root, path in body.resolve(x):
        if root[0] == "call":
            if root[1] in call_bbs:
                return True
            if root[1] in _seen or _depth > 12:
                continue
            _seen.add(root[1])
            cs = body.call_at(root[1])
            for a in cs.args:
                if tainted_by_call(body, a, call_bbs, _depth + 1, _seen):
                    return True
        elif root[0] == "agg":
            rv = body.agg_at(root[1], root[2])
            for a in rv["fields"]:
                if tainted_by_call(body, a, call_bbs, _depth + 1, _seen):
                    return True
    return False


# ------------------------------------------------------------------------------------------
# modelled std combinators: abstract value of an operand given the variant of an origin call
# ------------------------------------------------------------------------------------------


def eval_combinators(body, op, subst, _depth=0):
    """abstract value in {'Ok','Err','Some','None',('const', v),'unknown'} of operand `op` when
    the call results listed in subst {call_bb: abstract value} take the given variants. Follows
    Result::ok/err, Option::map/and_then/filter/as_ref, unwrap_or, is_some/is_none/is_ok/is_err."""
    if _depth > 16:
        return "unknown"
    k = op.get("k")
    if k is not None:
        return ("const", k.get("v", k.get("s")))
    pl = op_place(op)
    if pl is None or pl["p"]:
        return "unknown"
    defs = body.defs().get(pl["l"], [])
    if len(defs) != 1:
        return "unknown"
    d = defs[0]
    if d[0] == "assign":
        rv = d[3]["rv"]
        if rv["r"] in ("use", "cast"):
            return eval_combinators(body, rv["o"], subst, _depth + 1)
        if rv["r"] == "un" and rv["op"] == "Not":
            v = eval_combinators(body, rv["a"], subst, _depth + 1)
            if isinstance(v, tuple) and v[0] == "const" and v[1] in (0, 1):
                return ("const", 1 - v[1])
            return "unknown"
        if rv["r"] == "agg" and rv.get("kind") == "adt" and rv.get("variant") in ("Some", "None", "Ok", "Err"):
            return rv["variant"]
        return "unknown"
    bb = d[1]
    if bb in subst:
        return subst[bb]
    cs = body.call_at(bb)
    n = cs.name
    path = cs.path or ""
    if not (path.startswith("std::option::Option") or path.startswith("std::result::Result")):
        return "unknown"
    a = eval_combinators(body, cs.args[0], subst, _depth + 1) if cs.args else "unknown"
    if n == "ok":
        return {"Ok": "Some", "Err": "None"}.get(a, "unknown")
    if n == "err":
        return {"Ok": "None", "Err": "Some"}.get(a, "unknown")
    if n in ("map", "as_ref", "as_mut", "copied", "cloned", "inspect", "as_deref", "as_deref_mut"):
        return a if a in ("None", "Some", "Ok", "Err") else "unknown"
    if n in ("and_then", "filter"):
        return "None" if a == "None" else "unknown"
    if n == "map_err":
        return a if a in ("Ok", "Err") else "unknown"
    if n == "unwrap_or":
        if a in ("None", "Err"):
            return eval_combinators(body, cs.args[1], subst, _depth + 1)
        return "unknown"
    if n == "is_none":
        return {"None": ("const", 1), "Some": ("const", 0)}.get(a, "unknown")
    if n == "is_some":
        return {"None": ("const", 0), "Some": ("const", 1)}.get(a, "unknown")
    if n == "is_err":
        return {"Ok": ("const", 0), "Err": ("const", 1)}.get(a, "unknown")
    if n == "is_ok":
        return {"Ok": ("const", 1), "Err": ("const", 0)}.get(a, "unknown")
    if n in ("is_some_and", "is_ok_and"):
        return ("const", 0) if a in ("None", "Err") else "unknown"
    if n in ("is_none_or",):
        return ("const", 1) if a == "None" else "unknown"
    if n == "map_or":
        if a in ("None", "Err"):
            return eval_combinators(body, cs.args[1], subst, _depth + 1)
        return "unknown"
    return "unknown"


# ------------------------------------------------------------------------------------------
# small-function path enumeration
# ------------------------------------------------------------------------------------------


def enumerate_paths(body, limit=4000, max_len=200):
    """all acyclic normal paths entry -> return as lists of (bb, edge_label_to_next | None)"""
    out = []
    stack = [(0, [])]
    while stack:
        bb, path = stack.pop()
        if len(out) > limit:
            return None
        if any(p[0] == bb for p in path) or len(path) > max_len:
            continue
        t = body.blocks[bb]["term"]["t"]
        if t == "return":
            out.append(path + [(bb, None)])
            continue
        for tgt, lab in body.succ_edges(bb):
            stack.append((tgt, path + [(bb, (tgt, lab))]))
    return out


def field_cmp(body, rv):
    """for `Eq/Ne/Lt..(a, b)` over two field reads: (op, fieldA, rootA, fieldB, rootB)"""
    if rv["r"] != "bin":
        return None

    def side(op):
        for root, path in body.resolve(op):
            flds = [p[1:] for p in path if p.startswith(".") and not p[1:].isdigit()]
            return (flds[-1] if flds else None, root)
        return (None, None)

    a, b = side(rv["a"]), side(rv["b"])
    return (rv["op"], a[0], a[1], b[0], b[1])


def copy_chain_locals(body, op, depth=0):
    """locals whose *current value* an operand copies, following plain copies/moves and
    tuple/struct field round-trips (stops at locals that are mutably borrowed or multiply
    defined, which is exactly what makes it usable for flags written through a closure)"""
    pl = op_place(op) if ("c" in op or "m" in op) else (op if "l" in op else None)
    if pl is None or depth > 12:
        return set()
    l = pl["l"]
    proj = pl["p"]
    out = set()
    if not proj:
        out.add(l)
    if l in body.mut_borrowed():
        return out
    defs = body.defs().get(l, [])
    if len(defs) != 1 or defs[0][0] != "assign":
        return out
    rv = defs[0][3]["rv"]
    if rv["r"] in ("use", "cast") and not proj:
        out |= copy_chain_locals(body, rv["o"], depth + 1)
    elif rv["r"] == "use" and proj:
        src = op_place(rv["o"])
        if src is not None:
            out |= copy_chain_locals(body, {"l": src["l"], "p": src["p"] + proj, "t": pl["t"]}, depth + 1)
    elif rv["r"] == "agg" and len(proj) == 1 and isinstance(proj[0], dict) and "f" in proj[0]:
        idx = proj[0]["f"]
        if idx < len(rv["fields"]):
            out |= copy_chain_locals(body, rv["fields"][idx], depth + 1)
    return out


# ------------------------------------------------------------------------------------------
# constant folding of an operand (for masks written as expressions, e.g. u64::MAX - 1)
# ------------------------------------------------------------------------------------------


def place_origin(body, x, _depth=0):
    """(base local, tuple of field names) a place / operand ultimately designates, following whole-local copies,
    references, derefs and the environment of a closure literal expanded in place, but *stopping at the variable
    itself* (its own definition — a call, an aggregate — is not looked through). Identity of a mutable cell: two places
    with the same origin are the same storage."""
    pl = x if ("l" in x and "p" in x) else op_place(x)
    if pl is None or _depth > 12:
        return None
    base = pl["l"]
    proj = list(pl["p"])
    while True:
        defs = body.defs().get(base, [])
        if len(defs) > 1 and all(d[0] == "assign" for d in defs) and all(d[3]["rv"] == defs[0][3]["rv"] for d in defs):
            defs = defs[:1]  # copies of one statement (tail duplication by the threading pass)
        if len(defs) != 1 or defs[0][0] != "assign" or (1 <= base <= body.arg_count):
            break
        rv = defs[0][3]["rv"]
        if rv["r"] == "use":
            src = op_place(rv["o"])
            if src is None:
                break
            base, proj = src["l"], list(src["p"]) + proj
        elif rv["r"] in ("ref", "rawptr"):
            if not proj or proj[0] != "*":
                break  # the reference itself, not what it points to
            base, proj = rv["pl"]["l"], list(rv["pl"]["p"]) + proj[1:]
        elif rv["r"] == "agg" and rv.get("kind") in ("tuple",) and proj and isinstance(proj[0], dict) and "f" in proj[0] and proj[0]["f"] < len(rv["fields"]):
            # a value carried out of a block in a tuple: `let (flag, action) = { ..; (flag, action) }`
            src = op_place(rv["fields"][proj[0]["f"]])
            if src is None:
                break
            base, proj = src["l"], list(src["p"]) + proj[1:]
        elif rv["r"] == "agg" and rv.get("kind") == "closure" and proj and isinstance(proj[0], dict) and "f" in proj[0]:
            names = body.facts.capture_names.get(rv.get("def"), [])
            idx = proj[0]["f"]
            if idx >= len(rv["fields"]) or idx >= len(names):
                break
            src = op_place(rv["fields"][idx])
            if src is None:
                break
            base, proj = src["l"], list(src["p"]) + proj[1:]
        else:
            break
        _depth += 1
        if _depth > 40:
            break
    # drop a leading deref of a reference-typed parameter-less local? keep as is: `*` stays in the field list as '*'
    fields = tuple(p["n"] if isinstance(p, dict) and "f" in p else ("*" if p == "*" else "?") for p in proj)
    return base, fields


def arg_by_type(body, cs, ty_s, fallback):
    """the argument of a call whose type is `ty_s` (exactly one such argument), else the positional fallback: the order
    of a private function's parameters is not part of its meaning"""
    hits = []
    for i, a in enumerate(cs.args):
        pl = op_place(a)
        t = pl["t"] if pl is not None else (a.get("k") or {}).get("ty")
        if isinstance(t, int) and body.facts.types[t]["s"] == ty_s:
            hits.append(a)
    if len(hits) == 1:
        return hits[0]
    return cs.args[fallback] if fallback < len(cs.args) else None


def promoted_variant(body, op, _depth=0):
    """(adt path, variant name, discriminant) if the operand is (a copy / reborrow of) a promoted constant that refers to a
    field-less enum variant, e.g. the `&Enum::Variant` operand of a derived `==`; None otherwise"""
    if not isinstance(op, dict) or _depth > 10:
        return None
    k = op.get("k")
    if k is not None:
        if "promoted" in k and "const_def" in k:
            pv = body.facts.promoted.get((k["const_def"], k["promoted"]))
            if pv:
                ad = body.facts.adts.get(pv["adt"])
                d = ad["variants"][pv["variant_idx"]].get("discr") if ad else None
                return (pv["adt"], pv["variant"], pv["variant_idx"] if d is None else d)
        return None
    pl = op_place(op)
    if pl is None or any(p != "*" for p in pl["p"]):
        return None
    defs = body.defs().get(pl["l"], [])
    if len(defs) != 1 or defs[0][0] != "assign":
        return None
    rv = defs[0][3]["rv"]
    if rv["r"] == "use":
        return promoted_variant(body, rv["o"], _depth + 1)
    if rv["r"] in ("ref", "rawptr") and all(p == "*" for p in rv["pl"]["p"]):
        return promoted_variant(body, {"c": {"l": rv["pl"]["l"], "p": [], "t": 0}}, _depth + 1)
    return None


def const_name(body, op, _depth=0):
    """path (or printed form) of the named constant an operand is, followed through single
    assignment copies (e.g. a constant passed to a helper that was inlined); "" if it is none"""
    if not isinstance(op, dict):
        return ""
    k = op.get("k")
    if k is not None:
        return k.get("const_path", k.get("s", "")) or ""
    pl = op_place(op)
    if pl is None or pl["p"] or _depth > 8 or pl["l"] in body.mut_borrowed():
        return ""
    defs = body.defs().get(pl["l"], [])
    if len(defs) != 1 or defs[0][0] != "assign" or defs[0][3]["rv"]["r"] != "use":
        return ""
    return const_name(body, defs[0][3]["rv"]["o"], _depth + 1)


def const_value(body, op, bits=64, _depth=0):
    """integer value of an operand if it is a compile-time constant expression, else None"""
    mask = (1 << bits) - 1
    k = op.get("k")
    if k is not None:
        v = k.get("v")
        return v & mask if isinstance(v, int) else None
    pl = op_place(op)
    if pl is None or _depth > 12:
        return None
    proj = pl["p"]
    defs = body.defs().get(pl["l"], [])
    if len(defs) != 1 or defs[0][0] != "assign" or pl["l"] in body.mut_borrowed():
        return None
    rv = defs[0][3]["rv"]
    if proj:
        # (x WithOverflow y).0
        if len(proj) == 1 and isinstance(proj[0], dict) and proj[0].get("f") == 0 and rv["r"] == "bin" and rv["op"].endswith("WithOverflow"):
            a, b = const_value(body, rv["a"], bits, _depth + 1), const_value(body, rv["b"], bits, _depth + 1)
            if a is None or b is None:
                return None
            base = rv["op"][: -len("WithOverflow")]
            return {"Add": a + b, "Sub": a - b, "Mul": a * b}.get(base, 0) & mask
        return None
    if rv["r"] in ("use", "cast"):
        return const_value(body, rv["o"], bits, _depth + 1)
    if rv["r"] == "un" and rv["op"] == "Not":
        a = const_value(body, rv["a"], bits, _depth + 1)
        return None if a is None else (~a) & mask
    if rv["r"] == "bin":
        a, b = const_value(body, rv["a"], bits, _depth + 1), const_value(body, rv["b"], bits, _depth + 1)
        if a is None or b is None:
            return None
        op_ = rv["op"].replace("Unchecked", "")
        table = {"Add": a + b, "Sub": a - b, "BitAnd": a & b, "BitOr": a | b, "BitXor": a ^ b, "Shl": a << (b & 127), "Shr": a >> (b & 127), "Mul": a * b}
        return table[op_] & mask if op_ in table else None
    return None


def refers_to_local(body, op, l, depth=0):
    """operand is (a copy of) local l, or a reference/reborrow chain to it"""
    pl = op_place(op)
    if pl is None or depth > 8:
        return False
    if pl["l"] == l and all(p == "*" for p in pl["p"]):
        return True
    if l in copy_chain_locals(body, op):
        return True
    for d in body.defs().get(pl["l"], []):
        if d[0] == "assign":
            rv = d[3]["rv"]
            if rv["r"] in ("ref", "rawptr") and rv["pl"]["l"] == l and all(p == "*" for p in rv["pl"]["p"]):
                return True
            if rv["r"] in ("ref", "rawptr") and rv["pl"]["p"] == ["*"]:
                if refers_to_local(body, {"c": {"l": rv["pl"]["l"], "p": [], "t": 0}}, l, depth + 1):
                    return True
            if rv["r"] == "use" and refers_to_local(body, rv["o"], l, depth + 1):
                return True
    return False


PROJECTION_CALLS = ("deref", "deref_mut", "as_mut", "as_ref", "as_deref", "as_deref_mut", "unwrap", "expect", "get_mut", "as_pin_mut", "borrow_mut", "borrow", "unwrap_unchecked", "get_or_insert_with", "index", "index_mut")


def derives_from_local(body, op, l, depth=0, seen=None):
    """the operand designates (part of) what local `l` holds or guards: `l` itself, a field / reborrow of it, or the
    result of a projection-like call (`deref_mut`, `as_mut`, `unwrap`, ..) on such a value"""
    pl = op if ("l" in op and "p" in op) else op_place(op)
    if pl is None or depth > 12:
        return False
    if pl["l"] == l:
        return True
    seen = seen if seen is not None else set()
    if pl["l"] in seen:
        return False
    seen.add(pl["l"])
    # through copies, aggregates built and taken apart again, `?` on literal Ok/Some (Body.resolve)
    if depth == 0:
        own = body.resolve({"l": l, "p": []})
        for r, p_ in body.resolve(op):
            for r2, p2 in own:
                if r == r2 and p2 and r[0] not in ("unknown", "infeasible", "const") and tuple(p_[: len(p2)]) == tuple(p2):
                    return True
    for r, p_ in body.resolve(op):
        if r[0] == "local" and r[1] == l:
            return True
        if r[0] == "call":
            cs = body.call_at(r[1])
            if cs is None:
                continue
            if cs.dest["l"] == l and not cs.dest["p"]:
                return True
            if cs.name in PROJECTION_CALLS and cs.args and ("bb", r[1]) not in seen:
                seen.add(("bb", r[1]))
                if derives_from_local(body, cs.args[0], l, depth + 1, seen):
                    return True
    for d in body.defs().get(pl["l"], []):
        if d[0] == "assign":
            rv = d[3]["rv"]
            src = rv.get("o") if rv["r"] in ("use", "cast") else rv.get("pl") if rv["r"] in ("ref", "rawptr") else None
            if src is not None and derives_from_local(body, src, l, depth + 1, seen):
                return True
        elif d[0] == "call":
            cs = body.call_at(d[1])
            if cs is not None and cs.name in PROJECTION_CALLS and cs.args and derives_from_local(body, cs.args[0], l, depth + 1, seen):
                return True
    return False
