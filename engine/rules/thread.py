"""Known-value jump threading on the MIR facts (a semantics-preserving normalisation).

Source-level idioms such as

    let removed = match entry { Ok(e) => e.source.take(), Err(_) => None };
    let Some(source) = removed else { return };

    if let Some(x) = helper() { .. }          // helper() inlined: `return None` / `return Some(v)`

assign a value whose enum variant (or boolean constant) is known in one predecessor and test it in
a shared join block. A path-insensitive reading of that CFG contains the infeasible path
"Err arm -> Some arm". This pass computes, by a forward must-dataflow, which locals hold a known
constant / known variant at the end of every block, and for every edge P -> N into a join block N
whose switch is decided by what is known at the end of P it redirects the edge to a copy of N that
jumps straight to the selected arm (N's statements are kept in the copy, only the dead test is
dropped). Empty goto / drop blocks between P and the test are copied along.

Only infeasible paths disappear: every feasible execution of the original CFG has the same
sequence of statements, calls and drops in the threaded CFG. Nothing here depends on calloop."""
import copy

DISCR_BY_INDEX = ("std::option::Option", "std::result::Result", "std::ops::ControlFlow")
ADT_DISCR = {}


def _normal_succs(blk):
    t = blk["term"]
    k = t["t"]
    if k == "switch":
        return [b for _, b in t["targets"]] + [t["otherwise"]]
    if k == "goto":
        return [t["to"]]
    if k in ("drop", "assert", "call", "yield") and t.get("to") is not None:
        out = [t["to"]]
        if k == "yield" and t.get("drop") is not None:
            out.append(t["drop"])
        return out
    return []


def _all_succs(blk):
    t = blk["term"]
    ss = _normal_succs(blk)
    if isinstance(t.get("unwind"), int):
        ss = ss + [t["unwind"]]
    return ss


def _whole_local(op):
    pl = op.get("c") or op.get("m")
    if pl is None or pl["p"]:
        return None
    return pl["l"]


def _discr_of(rv):
    if rv.get("kind") != "adt" or "variant_idx" not in rv:
        return None
    if rv["adt"] in DISCR_BY_INDEX:
        return rv["variant_idx"]
    vs = ADT_DISCR.get(rv["adt"])
    if vs and rv["variant_idx"] < len(vs):
        return vs[rv["variant_idx"]]
    return None


def _lookup(known, pl):
    """known value of a place: follows `(X as V).0` into the payload of a known variant"""
    k = known.get(pl["l"])
    ps = list(pl["p"])
    while ps:
        if k is None or k[0] != "variant":
            return None
        if len(ps) >= 2 and isinstance(ps[0], dict) and "d" in ps[0] and isinstance(ps[1], dict) and ps[1].get("f") == 0:
            if k[3] is None or ps[0]["d"] != k[3]:
                return None
            k = k[4]
            ps = ps[2:]
        else:
            return None
    return k


def _op_value(known, op):
    k = op.get("k")
    if k is not None:
        v = k.get("v")
        if isinstance(v, bool):
            return ("const", int(v))
        if isinstance(v, int):
            return ("const", v)
        return None
    pl = op.get("c") or op.get("m")
    if pl is None:
        return None
    return _lookup(known, pl)


def _kill_base(known, pl):
    if not pl["p"] or pl["p"][0] != "*":
        known.pop(pl["l"], None)


def flow_statements(blk, known, untracked):
    """known: dict local -> value, mutated and returned"""
    for st in blk["st"]:
        s = st["s"]
        if s == "setdiscr":
            _kill_base(known, st["pl"])
            continue
        if s != "assign":
            continue
        rv = st["rv"]
        r = rv["r"]
        val = None
        if r == "use":
            val = _op_value(known, rv["o"])
        elif r == "discr":
            k = _lookup(known, rv["pl"])
            if k is not None and k[0] == "variant" and k[2] is not None:
                val = ("const", k[2])
        elif r == "agg":
            d = _discr_of(rv)
            if d is not None:
                child = None
                if len(rv["fields"]) == 1:
                    child = _op_value(known, rv["fields"][0])
                val = ("variant", rv["adt"], d, rv["variant_idx"], child)
        elif r == "un" and rv.get("op") == "Not":
            a = _op_value(known, rv["a"])
            if a is not None and a[0] == "const" and a[1] in (0, 1):
                val = ("const", 1 - a[1])
        pl = st["pl"]
        if pl["p"]:
            _kill_base(known, pl)
        elif val is not None and pl["l"] not in untracked:
            known[pl["l"]] = val
        else:
            known.pop(pl["l"], None)
    return known


def flow_terminator(blk, known, untracked):
    """effect of the terminator itself on `known` (before edge refinement)"""
    t = blk["term"]
    k = t["t"]
    if k == "call":
        dest = t["dest"]
        val = None
        f = t.get("f") or {}
        if f.get("name") == "from_residual":
            full = f.get("full", "")
            if full.startswith("<std::option::Option<"):
                val = ("variant", "std::option::Option", 0, 0, None)
            elif full.startswith("<std::result::Result<"):
                val = ("variant", "std::result::Result", 1, 1, None)
        elif f.get("name") == "branch" and f.get("trait") == "std::ops::Try" and len(t["args"]) == 1:
            a = _op_value(known, t["args"][0])
            if a is not None and a[0] == "variant":
                if a[1] == "std::result::Result":
                    val = ("variant", "std::ops::ControlFlow", 0, 0, a[4]) if a[3] == 0 else ("variant", "std::ops::ControlFlow", 1, 1, None)
                elif a[1] == "std::option::Option":
                    val = ("variant", "std::ops::ControlFlow", 0, 0, a[4]) if a[3] == 1 else ("variant", "std::ops::ControlFlow", 1, 1, None)
        if dest["p"]:
            _kill_base(known, dest)
        elif val is not None and dest["l"] not in untracked:
            known[dest["l"]] = val
        else:
            known.pop(dest["l"], None)
    elif k == "drop":
        _kill_base(known, t["pl"])
    elif k == "yield":
        known.clear()
    return known


def _switch_subject(blk):
    """(operand local, place whose discriminant it holds or None) for a switch terminator"""
    t = blk["term"]
    l = _whole_local(t["on"])
    if l is None:
        return None, None
    for st in reversed(blk["st"]):
        if st["s"] == "assign" and not st["pl"]["p"] and st["pl"]["l"] == l:
            if st["rv"]["r"] == "discr" and not st["rv"]["pl"]["p"]:
                return l, st["rv"]["pl"]["l"]
            return l, None
    return l, None


def _edge_states(blk, known, untracked):
    """[(target, state)] for every normal out-edge"""
    t = blk["term"]
    if t["t"] != "switch":
        return [(s_, known) for s_ in _normal_succs(blk)]
    l, subj = _switch_subject(blk)
    out = []
    for v, tgt in t["targets"]:
        st = known
        if subj is not None and subj not in untracked and known.get(subj) is None:
            st = dict(known)
            st[subj] = ("variant", None, v, None, None)
        out.append((tgt, st))
    out.append((t["otherwise"], known))
    return out


def _meet(a, b):
    if a is None:
        return dict(b)
    return {k: v for k, v in a.items() if b.get(k) == v}


def analyse(body):
    blocks = body["blocks"]
    n = len(blocks)
    untracked = set()
    for blk in blocks:
        for st in blk["st"]:
            if st["s"] == "assign" and st["rv"]["r"] in ("ref", "rawptr") and st["rv"].get("mut", True):
                pl = st["rv"]["pl"]
                if not pl["p"] or pl["p"][0] != "*":
                    untracked.add(pl["l"])
    IN = [None] * n
    IN[0] = {}
    OUT = [None] * n
    work = [0]
    it = 0
    while work and it < 40 * n + 1000:
        it += 1
        b = work.pop()
        blk = blocks[b]
        st = flow_statements(blk, dict(IN[b]), untracked)
        st = flow_terminator(blk, st, untracked)
        OUT[b] = st
        edges = _edge_states(blk, st, untracked)
        t = blk["term"]
        if isinstance(t.get("unwind"), int):
            edges.append((t["unwind"], {}))
        for tgt, s2 in edges:
            new = _meet(IN[tgt], s2)
            if IN[tgt] is None or new != IN[tgt]:
                IN[tgt] = new
                work.append(tgt)
    return IN, OUT, untracked


class _Threader:
    def __init__(self, body):
        self.body = body
        self.blocks = body["blocks"]
        self.memo = {}
        self.uses = None

    def use_counts(self):
        if self.uses is None:
            cnt = {}

            def walk(x):
                if isinstance(x, dict):
                    if "l" in x and "p" in x and isinstance(x.get("p"), list):
                        cnt[x["l"]] = cnt.get(x["l"], 0) + 1
                        for p in x["p"]:
                            if isinstance(p, dict) and "i" in p:
                                cnt[p["i"]] = cnt.get(p["i"], 0) + 1
                        return
                    for k, v in x.items():
                        if k not in ("f", "sp"):
                            walk(v)
                elif isinstance(x, list):
                    for v in x:
                        walk(v)

            for blk in self.blocks:
                for st in blk["st"]:
                    if st["s"] == "assign":
                        walk(st["rv"])
                        for p in st["pl"]["p"]:
                            if isinstance(p, dict) and "i" in p:
                                cnt[p["i"]] = cnt.get(p["i"], 0) + 1
                    else:
                        walk(st)
                t = blk["term"]
                for k in ("on", "pl", "args", "cond", "indirect"):
                    if k in t:
                        walk(t[k])
            self.uses = cnt
        return self.uses

    def specialise(self, n, known, budget):
        if budget <= 0 or not known:
            return n
        blk = self.blocks[n]
        if blk.get("cleanup"):
            return n
        key = (n, tuple(sorted(known.items(), key=lambda kv: kv[0])))
        if key in self.memo:
            return self.memo[key]
        self.memo[key] = n  # cycle guard
        res = self._spec(n, blk, known, budget)
        self.memo[key] = res
        return res

    def _spec(self, n, blk, known, budget):
        t = blk["term"]
        k = t["t"]
        if k == "switch":
            st = flow_statements(blk, dict(known), self.untracked)
            v = _op_value(st, t["on"])
            if v is None or v[0] != "const":
                return n
            val = int(v[1])
            tgt = t["otherwise"]
            hit = False
            for tv, tb in t["targets"]:
                if tv == val:
                    tgt = tb
                    hit = True
            l, subj = _switch_subject(blk)
            if hit and subj is not None and subj not in self.untracked and st.get(subj) is None:
                st[subj] = ("variant", None, val, None, None)
            tgt = self.specialise(tgt, st, budget - 1)
            nb = copy.deepcopy(blk)
            # the test is decided: its operand's definition is dead in the copy
            if l is not None and self.use_counts().get(l, 0) <= 1:
                for j in range(len(nb["st"]) - 1, -1, -1):
                    s_ = nb["st"][j]
                    if s_["s"] == "assign" and not s_["pl"]["p"] and s_["pl"]["l"] == l and s_["rv"]["r"] in ("discr", "use", "un"):
                        del nb["st"][j]
                        break
            nb["term"] = {"t": "goto", "to": tgt, "sp": t["sp"], "threaded_from": n}
            self.blocks.append(nb)
            return len(self.blocks) - 1
        # blocks between the assignment and the test are copied along when they only drop values and set
        # drop flags (constant stores to whole locals)
        # (.. and read discriminants into temporaries: the drop elaboration's `_n = discriminant(_m)`; and negate a
        # bool: the `!` of `!matches!(..)` / `!helper()` between the arms that produce the constant and its test)
        if any(not (s_["s"] == "assign" and not s_["pl"]["p"] and ((s_["rv"]["r"] == "use" and (s_["rv"]["o"].get("k") is not None or _whole_local(s_["rv"]["o"]) is not None)) or s_["rv"]["r"] == "discr" or (s_["rv"]["r"] == "un" and s_["rv"].get("op") == "Not" and (s_["rv"]["a"].get("k") is not None or _whole_local(s_["rv"]["a"]) is not None)) or (s_["rv"]["r"] == "agg" and s_["rv"].get("kind") == "adt" and "variant_idx" in s_["rv"] and len(s_["rv"]["fields"]) <= 1))) for s_ in blk["st"]):
            return n
        known = flow_statements(blk, dict(known), self.untracked)
        if k == "goto":
            tgt = self.specialise(t["to"], known, budget - 1)
            if tgt == t["to"]:
                return n
            if not blk["st"]:
                return tgt
            nb = copy.deepcopy(blk)
            nb["term"]["to"] = tgt
            nb["term"]["threaded_from"] = n
            self.blocks.append(nb)
            return len(self.blocks) - 1
        if k == "drop" and t.get("to") is not None:
            st = flow_terminator(blk, dict(known), self.untracked)
            tgt = self.specialise(t["to"], st, budget - 1)
            if tgt == t["to"]:
                return n
            nb = copy.deepcopy(blk)
            nb["term"]["to"] = tgt
            nb["term"]["threaded_from"] = n
            self.blocks.append(nb)
            return len(self.blocks) - 1
        if k == "call" and (t.get("f") or {}).get("name") == "branch" and (t.get("f") or {}).get("trait") == "std::ops::Try" and t.get("to") is not None:
            st = flow_terminator(blk, dict(known), self.untracked)
            if st.get(t["dest"]["l"]) is None:
                return n
            tgt = self.specialise(t["to"], st, budget - 1)
            if tgt == t["to"]:
                return n
            nb = copy.deepcopy(blk)
            nb["term"]["to"] = tgt
            nb["term"]["threaded_from"] = n
            self.blocks.append(nb)
            return len(self.blocks) - 1
        return n

    def run(self):
        IN, OUT, self.untracked = analyse(self.body)
        n0 = len(self.blocks)
        npred = {}
        for i in range(n0):
            if self.blocks[i].get("cleanup"):
                continue
            for s_ in _normal_succs(self.blocks[i]):
                npred[s_] = npred.get(s_, 0) + 1
        changed = 0
        for p in range(n0):
            blk = self.blocks[p]
            if blk.get("cleanup") or IN[p] is None or not OUT[p]:
                continue
            t = blk["term"]
            if t["t"] not in ("goto", "call", "drop", "assert") or t.get("to") is None:
                continue
            nxt = t["to"]
            if npred.get(nxt, 0) < 2:
                continue
            tgt = self.specialise(nxt, OUT[p], 6)
            if tgt != nxt:
                t["to"] = tgt
                t["threaded_to"] = nxt
                changed += 1
        if changed:
            blank_unreachable(self.body)
        return changed


def blank_unreachable(body):
    blocks = body["blocks"]
    seen = {0}
    work = [0]
    while work:
        b = work.pop()
        for s_ in _all_succs(blocks[b]):
            if s_ not in seen:
                seen.add(s_)
                work.append(s_)
    for i, blk in enumerate(blocks):
        if i not in seen and (blk["st"] or blk["term"]["t"] != "unreachable"):
            blk["st"] = []
            blk["term"] = {"t": "unreachable", "sp": blk["term"]["sp"], "blanked": True}


def thread_body(body, rounds=2):
    total = 0
    for _ in range(rounds):
        c = _Threader(body).run()
        total += c
        if not c:
            break
    return total
