"""E5 runner: compiles the compile_fail witnesses and their twins against /repo's current source."""
import os
import re
import shutil
import subprocess

import extract

VERIF = extract.VERIF
WDIR = os.path.join(VERIF, "witness")


def run_witnesses(repo=None):
    """returns {name: {'kind': 'compile_fail'|'twin', 'ok': bool}} or {'error': text}"""
    repo = repo or extract.REPO
    lock = os.path.join(repo, "Cargo.lock")
    if os.path.exists(lock):
        shutil.copy(lock, os.path.join(WDIR, "Cargo.lock"))
    e = extract.env_base()
    e["CARGO_TARGET_DIR"] = os.path.join(extract.WORK, "witness-target")
    import fcntl

    os.makedirs(extract.WORK, exist_ok=True)
    with open(os.path.join(extract.WORK, "witness.lock"), "w") as lk:
        fcntl.flock(lk, fcntl.LOCK_EX)
        r = subprocess.run(["cargo", "+nightly", "test", "--doc", "--offline"], cwd=WDIR, env=e, capture_output=True, text=True)
        fcntl.flock(lk, fcntl.LOCK_UN)
    out = r.stdout + r.stderr
    res = {}
    for m in re.finditer(r"^test src/lib\.rs - (\w+) \(line \d+\)( - compile fail)? \.\.\. (\w+)", out, re.M):
        name, cf, verdict = m.group(1), m.group(2), m.group(3)
        res.setdefault(name, {})["compile_fail" if cf else "twin"] = verdict == "ok"
    if not res:
        return {"error": out[-3000:]}
    return res


def record(ck, clause_of, results):
    """clause_of: {witness name prefix: (clause, what it shows)}"""
    if "error" in results:
        ck.anchor_missing("W", "E5-witness", "witness crate", "the witness crate did not build against /repo: %s" % results["error"][-600:])
        return
    prop = ck.prop
    n = 0
    for name, r in sorted(results.items()):
        if not name.startswith(prop):
            continue
        n += 1
        if not r.get("twin", False):
            ck.anchor_missing("W", "E5-witness", "twin:" + name, "the compiling twin of witness %s does not compile any more: the API it relies on moved; the witness proves nothing until it is updated" % name)
        elif r.get("compile_fail", False):
            ck.ok("W", "E5-witness", "witness::" + name, "compile_fail+twin", "the violating user program is rejected by the compiler with the expected error code, and its twin (same program without the offending line) compiles", site="witness/src/lib.rs")
        else:
            ck.violation("W", "E5-witness", "witness::" + name, "compile_fail", "a user program that must not type-check now compiles (or fails with a different error): the type-level guarantee %s is gone" % name, site="witness/src/lib.rs")
    return n
