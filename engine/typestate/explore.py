"""E3 explorer: product automaton (state variant, registration status of every payload, parent
registered?) under the documented protocol; checks the C18 invariants at every transition."""
import itertools
from collections import deque

import symex
from symex import St, Machine, Unsupported

PA = ["Continue", "Reregister", "Disable", "Remove"]


class Table:
    def __init__(self, facts):
        self.facts = facts
        self.methods = {}
        for name in ("process_events", "register", "reregister", "unregister"):
            self.methods[name] = facts.body("<TransientSource as EventSource>::" + name)
        for name in ("remove", "replace", "map"):
            self.methods[name] = facts.body("TransientSource::" + name)
        self.cache = {}
        self.cells = 0

    def missing(self):
        return [k for k, v in self.methods.items() if v is None]

    def step(self, method, st, child_result="Continue", fresh="n", fail_at=None):
        """returns (events, new state, return value)"""
        key = (method, st.key(), child_result, fresh) if fail_at is None else (method, st.key(), child_result, fresh, fail_at)
        if key in self.cache:
            return self.cache[key]
        m = Machine(self.facts, St(st.variant, st.fields), child_result=child_result, fail_at=fail_at)
        body = self.methods[method]
        args = {1: ("ref", "self")}
        if method in ("register", "reregister"):
            args[2] = ("opaque",)
            args[3] = ("opaque",)
        elif method == "unregister":
            args[2] = ("opaque",)
        elif method == "process_events":
            args[2] = ("opaque",)
            args[3] = ("opaque",)
            args[4] = ("opaque",)
        elif method == "replace":
            args[2] = ("payload", fresh)
        elif method == "map":
            args[2] = ("userfn",)
        ret = m.run(body, args)
        res = (m.events, m.state, ret)
        self.cache[key] = res
        self.cells += 1
        return res


def explore(facts, max_depth=6, bursts=None):
    tab = Table(facts)
    missing = tab.missing()
    if missing:
        return {"error": "methods not found: %s" % missing}
    variants = [v["name"] for v in facts.adts[symex.STATE_ADT]["variants"]]
    findings = {}
    extraction_errors = {}
    samples = []
    transitions = 0
    failures_explored = [0]

    def apply(conf, ops):
        """conf = (St, frozenset(registered payload ids), parent_registered, next_id). ops = list of
        (method, child_result). Returns (new conf, trace events, violations)"""
        st, reg, P, nid = conf
        reg = set(reg)
        trace = []
        viol = []
        for method, cr in ops:
            fresh = "p%d" % nid
            try:
                events, st2, ret = tab.step(method, st, cr, fresh)
            except Unsupported as e:
                extraction_errors["%s x %s" % (st.variant, method)] = str(e)
                return None, trace, viol
            if method == "replace":
                nid += 1
            cell = "%s x %s%s" % (st.variant, method, "(%s)" % cr if method == "process_events" and st.variant == "Keep" else "")
            for ev in events:
                trace.append((cell, ev))
                if ev[0] == "child":
                    _, op, pid = ev
                    if op == "register":
                        if pid in reg:
                            viol.append((cell, "register on an already registered child"))
                        if reg - {pid}:
                            viol.append((cell, "a child is registered while another child of the same wrapper is still registered (the outgoing child must be unregistered first: both may wrap the same fd)"))
                        reg.add(pid)
                    elif op in ("unregister", "reregister"):
                        if pid not in reg:
                            viol.append((cell, "%s on an unregistered child" % op))
                        if op == "unregister":
                            reg.discard(pid)
                    elif op == "process_events":
                        if st.variant != "Keep":
                            viol.append((cell, "events forwarded outside the Keep state"))
                        if pid not in reg:
                            viol.append((cell, "events forwarded to an unregistered child"))
                elif ev[0] == "drop":
                    if ev[1] in reg:
                        viol.append((cell, "child dropped while still registered"))
                        reg.discard(ev[1])
            if method == "reregister" and st.variant == "Disabled":
                # "Disabled: .. kept until the wrapper itself is registered anew": a re-registration (update(), a
                # sibling's Reregister) must leave a child that asked to be disabled alone
                if st2.variant != "Disabled" or any(ev[0] in ("child", "child-failed") for ev in events):
                    viol.append((cell, "a re-registration re-enables a child that asked to be disabled (only the wrapper's own register() may do that): its callback runs again without enable()"))
            if method == "map":
                # map() gives the user access to the *current* child: while a replacement is pending that is the new one
                # (what is done to the outgoing child is lost when it is dropped at the next registration)
                cur_m = st.fields.get("new") if st.variant == "Replace" else st.fields.get("0")
                for ev in events:
                    if ev[0] == "user" and ev[1] is not None and cur_m is not None and ev[1] != cur_m:
                        viol.append((cell, "map() hands the user the outgoing child instead of the current one: changes made through it (signals added, a deadline set) are applied to a source that is about to be dropped"))
            if method in ("register", "reregister") and st.variant == "Keep":
                # the kept child takes part in every (re)registration of the wrapper: token factories are positional
                # (a child that draws no token shifts its siblings onto its own), a changed interest / deadline of the
                # child only takes effect through its own (re)registration, and enable() after disable() goes through
                # register() with the wrapper still in Keep
                cur0 = st.fields.get("0")
                if not any(ev[0] == "child" and ev[1] in ("register", "reregister") and ev[2] == cur0 for ev in events) and not any(ev[0] == "child-failed" for ev in events):
                    viol.append((cell, "%s() of the wrapper does not %s the kept child: its tokens, interest or deadline are not renewed (a wrapped timer is not re-armed, enable() after disable() leaves the child out of the poller, a sibling is handed the child's token)" % (method, method)))
            if method == "process_events":
                pa = ret[1] if ret and ret[0] == "result" else None
                if not pa or pa[0] != "pa" or pa[1] not in ("Continue", "Reregister"):
                    viol.append((cell, "process_events returns %s (only Continue/Reregister allowed)" % (pa,)))
                if st.variant == "None" and (events or st2.variant != "None"):
                    viol.append((cell, "processing events on an empty wrapper is not a no-op"))
            st = st2
        return (st, frozenset(reg), P, nid), trace, viol

    def quiescent_check(conf, label):
        st, reg, P, nid = conf
        out = []
        cur = st.fields.get("0") if st.variant in ("Keep", "Register", "Disable", "Disabled", "Remove") else (st.fields.get("new") if st.variant == "Replace" else None)
        for pid in st.fields.values():
            should = (st.variant == "Keep" and P and pid == cur)
            if (pid in reg) != should:
                out.append((label, "at quiescence child %s is %sregistered although the wrapper is %s and the parent is %sregistered" % (pid, "" if pid in reg else "not ", st.variant, "" if P else "not ")))
        for pid in reg:
            if pid not in st.fields.values():
                out.append((label, "a registered child is no longer owned by the wrapper (leaked registration)"))
        return out

    start = [(St("Register", {"0": "p0"}), frozenset(), False, 1), (St("None", {}), frozenset(), False, 1)]
    seen = set()
    dq = deque()
    for c in start:
        k = (c[0].key(), c[1], c[2])
        seen.add(k)
        dq.append((c, 0, []))
    mut_ops = [[("process_events", r)] for r in PA] + [[("remove", None)], [("replace", None)], [("map", None)]]
    mut_ops += [[("process_events", r), ("remove", None)] for r in PA] + [[("process_events", r), ("replace", None)] for r in PA]
    while dq:
        conf, depth, hist = dq.popleft()
        if depth >= max_depth:
            continue
        st, reg, P, nid = conf
        moves = []
        if P:
            for ops in mut_ops:
                needs = True
                moves.append((ops, True))
            moves.append(([], True))  # plain update()
            moves.append(([("unregister", None)], False))
        else:
            moves.append(([("remove", None)], False))
            moves.append(([("replace", None)], False))
            moves.append(([("map", None)], False))
            moves.append(([("register", None)], False))
        # failing children: a failed (re/un)registration must not lose a child
        # (.. nor may a child whose event processing fails once: the error is the application's to handle, the wrapper
        # must still own - and keep forwarding to - its registered child)
        for method in (("reregister", "unregister", "process_events") if P else ("register",)):
            cr0 = "Continue" if method == "process_events" else None
            try:
                ev0, _, _ = tab.step(method, st, cr0, "p%d" % nid)
            except Unsupported:
                continue
            nops = len([e for e in ev0 if e[0] == "child"])
            for k in range(nops):
                try:
                    evs, st_f, ret_f = tab.step(method, st, cr0, "p%d" % nid, fail_at=k)
                except Unsupported as e:
                    extraction_errors["%s x %s (child op %d fails)" % (st.variant, method, k)] = str(e)
                    continue
                failures_explored[0] += 1
                failed = [e for e in evs if e[0] == "child-failed"]
                dropped = {e[1] for e in evs if e[0] == "drop"}
                reg2 = set(reg)
                for e in evs:
                    if e[0] == "child" and e[1] == "register":
                        reg2.add(e[2])
                    if e[0] == "child" and e[1] == "unregister":
                        reg2.discard(e[2])
                owned = set(st_f.fields.values())
                cell = "%s x %s [child op #%d fails]" % (st.variant, method, k)
                lost = (set(st.fields.values()) - owned - {p for p in dropped if p not in reg2}) | {p for p in dropped if p in reg2}
                if failed and failed[0][2] not in owned:
                    key = "%s: the child whose %s failed is no longer owned by the wrapper (the error hands back an empty wrapper; a retry registers nothing)" % (cell, failed[0][1])
                    findings.setdefault(key, {"history": hist + ["%r --%s fails--> %r" % (st, method, st_f)], "what": key.split(": ", 1)[1], "cell": cell})
                for pdr in dropped:
                    if pdr in reg2:
                        key = "%s: child dropped while still registered" % cell
                        findings.setdefault(key, {"history": hist + ["%r --%s fails--> %r" % (st, method, st_f)], "what": "child dropped while still registered", "cell": cell})
        for ops, then_rereg in moves:
            seq = list(ops)
            label = "+".join(m if r is None else "%s(%s)" % (m, r) for m, r in seq) or "update"
            # a process_events that answers Continue and no user change: no re-registration follows
            c2, trace, viol = apply(conf, seq)
            if c2 is None:
                continue
            if then_rereg:
                only_pe = len(seq) == 1 and seq[0][0] == "process_events"
                need = True
                if only_pe:
                    # the loop re-registers only if the wrapper asked for it
                    ev, st_after, ret = tab.step("process_events", conf[0], seq[0][1], "p%d" % conf[3])
                    need = ret[0] == "result" and ret[1] == ("pa", "Reregister")
                if seq and seq[0][0] == "map" and len(seq) == 1:
                    need = False
                if need:
                    c3, tr2, v2 = apply(c2, [("reregister", None)])
                    if c3 is None:
                        continue
                    c2, trace, viol = c3, trace + tr2, viol + v2
                    label += ";reregister"
            if seq and seq[-1][0] == "unregister":
                c2 = (c2[0], c2[1], False, c2[3])
            if seq and seq[-1][0] == "register":
                c2 = (c2[0], c2[1], True, c2[3])
            transitions += 1
            viol += quiescent_check(c2, "%s x %s" % (conf[0].variant, label))
            for cell, what in viol:
                key = "%s: %s" % (cell, what)
                if key not in findings:
                    findings[key] = {"history": hist + ["%r --%s--> %r" % (conf[0], label, c2[0])], "what": what, "cell": cell}
            if len(samples) < 12:
                samples.append({"from": repr(conf[0]), "parent_registered": P, "ops": label, "events": [list(e[1]) for e in trace], "to": repr(c2[0]), "registered_after": sorted(c2[1])})
            # canonicalise payload names so the space stays finite
            ren = {}
            for i, pid in enumerate(sorted(set(c2[0].fields.values()) | set(c2[1]))):
                ren[pid] = "p%d" % i
            st_c = St(c2[0].variant, {n: ren[p] for n, p in c2[0].fields.items()})
            c2 = (st_c, frozenset(ren[p] for p in c2[1]), c2[2], len(ren))
            k = (c2[0].key(), c2[1], c2[2])
            if k not in seen:
                seen.add(k)
                dq.append((c2, depth + 1, hist + ["%r --%s--> %r" % (conf[0], label, c2[0])]))
    table = []
    for kk, (events, st2, ret) in sorted(tab.cache.items(), key=lambda kv: str(kv[0])):
        if len(kk) != 4:
            continue
        method, skey, cr, fresh = kk
        table.append({"cell": "%s x %s%s" % (skey[0], method, "(%s)" % cr if method == "process_events" and skey[0] == "Keep" else ""), "child_ops": ["%s(%s)" % (e[1], e[2]) if e[0] == "child" else "%s(%s)" % (e[0], e[1]) for e in events], "next": repr(st2), "returns": repr(ret[1]) if ret and ret[0] == "result" else ""})
    table = [r for r in table if True]
    return {"failure_cells": failures_explored[0], "table": table, "states": len(seen), "transitions": transitions, "cells": tab.cells, "findings": findings, "extraction_errors": extraction_errors, "samples": samples, "variants": variants}
