"""E3 — extraction of the TransientSource state x call table by symbolic execution of its MIR.

A tiny interpreter over the facts of sources/transient.rs: the only things it understands are
references to `self`, to `self.state` and to the payloads inside the state enum, the state enum
itself (variant + named payloads), PostAction values, constructor fn items and closures that build
a state, and the calls that matter (child EventSource methods, mem::take, replace_state, FnOnce on a
replacer, drops). Everything else makes the run fail closed (Unsupported)."""

STATE_ADT = "sources::transient::TransientSourceState"
PA_ADT = "sources::PostAction"


class Unsupported(Exception):
    pass


class St:
    """a value of the state enum: variant name + {field name: payload id}"""

    def __init__(self, variant, fields):
        self.variant = variant
        self.fields = dict(fields)

    def key(self):
        return (self.variant, tuple(sorted(self.fields.items())))

    def __repr__(self):
        if not self.fields:
            return self.variant
        return "%s(%s)" % (self.variant, ", ".join("%s=%s" % kv for kv in sorted(self.fields.items())))


class Machine:
    def __init__(self, facts, state, child_result="Continue", new_payload="n", fail_at=None):
        self.facts = facts
        self.fail_at = fail_at
        self.child_ops = 0
        self.failed = None
        self.state = state  # St: content of self.state
        self.child_result = child_result
        self.new_payload = new_payload
        self.events = []
        self.steps = 0

    # ---- values -------------------------------------------------------------------------------
    # ('ref', target)  target: 'self' | 'state' | ('payload', id) | ('local', frame id, l)
    # ('st', St) | ('payload', id) | ('int', n) | ('pa', name) | ('ctor', variant) | ('closure', key, caps)
    # ('result', inner) | ('cf', 'Continue', inner) | ('unit',) | ('opaque',)

    def variant_index(self, adt, name):
        for i, v in enumerate(self.facts.adts[adt]["variants"]):
            if v["name"] == name:
                return v.get("discr", i)
        raise Unsupported("variant " + name)

    def variant_fields(self, name):
        for v in self.facts.adts[STATE_ADT]["variants"]:
            if v["name"] == name:
                return [f["name"] for f in v["fields"]]
        raise Unsupported("variant " + name)

    def run(self, body, args):
        frame = {"body": body, "env": dict(args), "id": id(args)}
        return self._exec(frame)

    # place evaluation: returns ('lv', kind, ...) descriptors
    def _load(self, fr, pl):
        v = fr["env"].get(pl["l"])
        if v is None:
            raise Unsupported("%s: read of unset local _%d" % (fr["body"].qual, pl["l"]))
        for p in pl["p"]:
            v = self._project(fr, v, p)
        return v

    def _project(self, fr, v, p):
        if v[0] == "opaque":
            return ("opaque",)
        if p == "*":
            if v[0] == "closure_env":
                return v  # a closure called through &mut self
            if v[0] != "ref":
                raise Unsupported("deref of " + str(v[0]))
            t = v[1]
            if t == "self":
                return ("selfobj",)
            if t == "state":
                return ("st_live",)  # the live self.state
            if isinstance(t, tuple) and t[0] == "payload":
                return ("payload", t[1])
            if isinstance(t, tuple) and t[0] == "val":
                return t[1]
            raise Unsupported("deref target " + str(t))
        if isinstance(p, dict) and "f" in p:
            n = p["n"]
            if v[0] == "selfobj" and n == "state":
                return ("st_live",)
            if v[0] in ("st_live", "st") :
                st = self.state if v[0] == "st_live" else v[1]
                dv = v[2] if len(v) > 2 else None
                if n in st.fields:
                    return ("payload", st.fields[n])
                raise Unsupported("field %s of %r" % (n, st))
            if v[0] == "downcast":
                st = v[1]
                if n in st.fields:
                    return ("payload", st.fields[n])
                raise Unsupported("field %s of %r" % (n, st))
            if v[0] == "closure_env":
                return v[1][n]
            if v[0] == "tuple":
                return v[1][p["f"]]
            if v[0] == "cf":
                return v[2]
            if v[0] == "result":
                return v[1]
            if v[0] == "option":
                if v[1] is None:
                    raise Unsupported("payload of None")
                return v[1]
            if v[0] in ("cf_break", "result_err"):
                return ("opaque",)
            raise Unsupported("field %s of %s" % (n, v[0]))
        if isinstance(p, dict) and "d" in p:
            if v[0] == "st_live":
                if self.state.variant != p["n"]:
                    raise Unsupported("downcast to %s of %r" % (p["n"], self.state))
                return ("downcast", self.state)
            if v[0] == "st":
                if v[1].variant != p["n"]:
                    raise Unsupported("downcast to %s of %r" % (p["n"], v[1]))
                return ("downcast", v[1])
            if v[0] in ("cf", "result", "option", "cf_break", "result_err"):
                return v
            raise Unsupported("downcast of " + v[0])
        raise Unsupported("projection " + str(p))

    def _operand(self, fr, op):
        k = op.get("k")
        if k is not None:
            if "fn" in k:
                path = k["fn"]["path"]
                if path.startswith(STATE_ADT + "::"):
                    return ("ctor", path.split("::")[-1])
                return ("fnitem", path)
            if "v" in k:
                return ("int", k["v"])
            return ("opaque",)
        pl = op.get("c") or op.get("m")
        return self._load(fr, pl)

    def _ref_of(self, fr, pl):
        # &place
        if not pl["p"]:
            v0 = fr["env"].get(pl["l"], ("opaque",))
            if v0[0] == "payload":
                return ("ref", ("payload", v0[1]))  # a child moved into a local: still the same child
            return ("ref", ("val", v0))
        v = self._load(fr, pl)
        if v[0] == "opaque":
            return ("opaque",)
        if v[0] == "selfobj":
            return ("ref", "self")
        if v[0] == "st_live":
            return ("ref", "state")
        if v[0] == "payload":
            return ("ref", ("payload", v[1]))
        return ("ref", ("val", v))

    def _discr(self, v):
        if v[0] == "st_live":
            return self.variant_index(STATE_ADT, self.state.variant)
        if v[0] == "st":
            return self.variant_index(STATE_ADT, v[1].variant)
        if v[0] == "pa":
            return self.variant_index(PA_ADT, v[1])
        if v[0] == "cf":
            return 0
        if v[0] in ("cf_break", "result_err"):
            return 1
        if v[0] == "result":
            return 0
        if v[0] == "option":
            return 1 if v[1] is not None else 0
        raise Unsupported("discriminant of " + v[0])

    def _exec(self, fr):
        b = fr["body"]
        env = fr["env"]
        bb = 0
        while True:
            self.steps += 1
            if self.steps > 5000:
                raise Unsupported("too many steps")
            blk = b.blocks[bb]
            for st in blk["st"]:
                if st["s"] != "assign":
                    continue
                pl, rv = st["pl"], st["rv"]
                val = self._rvalue(fr, rv)
                self._store(fr, pl, val)
            t = blk["term"]
            k = t["t"]
            if k == "return":
                return env.get(0, ("unit",))
            if k == "goto":
                bb = t["to"]
            elif k == "switch":
                v = self._operand(fr, t["on"])
                if v[0] != "int":
                    raise Unsupported("%s bb%d: switch on %s" % (b.qual, bb, v[0]))
                tgt = t["otherwise"]
                for val, x in t["targets"]:
                    if val == v[1]:
                        tgt = x
                bb = tgt
            elif k == "drop":
                v = self._load(fr, t["pl"]) if (t["pl"]["p"] or t["pl"]["l"] in env) else ("opaque",)
                self._drop(v)
                if not t["pl"]["p"]:
                    env.pop(t["pl"]["l"], None)
                bb = t["to"]
            elif k == "call":
                ret = self._call(fr, bb, t)
                self._store(fr, t["dest"], ret)
                if t["to"] is None:
                    raise Unsupported("diverging call")
                bb = t["to"]
            elif k == "assert":
                bb = t["to"]
            else:
                raise Unsupported("terminator " + k)

    def _drop(self, v):
        if v[0] == "payload":
            self.events.append(("drop", v[1]))
        elif v[0] == "st":
            for n, pid in sorted(v[1].fields.items()):
                self.events.append(("drop", pid))
        elif v[0] == "st_live":
            for n, pid in sorted(self.state.fields.items()):
                self.events.append(("drop", pid))

    def _store(self, fr, pl, val):
        if not pl["p"]:
            fr["env"][pl["l"]] = val
            return
        # store through a projection: only `(*ref state) = st` and `(*self).state = st`
        tgt = self._load(fr, pl)
        if tgt[0] == "st_live":
            if val[0] != "st":
                raise Unsupported("store of %s into the state" % val[0])
            self.state = val[1]
            return
        raise Unsupported("store to projection of " + tgt[0])

    def _rvalue(self, fr, rv):
        r = rv["r"]
        if r in ("use", "cast"):
            v = self._operand(fr, rv["o"])
            # moving the live state out by value (`move (*_1)`) is not expected
            return v
        if r in ("ref", "rawptr"):
            return self._ref_of(fr, rv["pl"])
        if r == "discr":
            return ("int", self._discr(self._load(fr, rv["pl"])))
        if r == "agg":
            if rv.get("kind") == "adt" and rv.get("adt") == STATE_ADT:
                flds = {}
                for n, o in zip(rv["field_names"], rv["fields"]):
                    v = self._operand(fr, o)
                    if v[0] != "payload":
                        raise Unsupported("state built from " + v[0])
                    flds[n] = v[1]
                return ("st", St(rv["variant"], flds))
            if rv.get("kind") == "adt" and rv.get("adt") == PA_ADT:
                return ("pa", rv["variant"])
            if rv.get("kind") == "adt" and rv.get("adt") in ("std::result::Result", "std::option::Option"):
                inner = self._operand(fr, rv["fields"][0]) if rv["fields"] else None
                if rv["adt"].endswith("Result"):
                    return ("result", inner) if rv["variant"] == "Ok" else ("opaque",)
                return ("option", inner)
            if rv.get("kind") == "tuple":
                return ("tuple", [self._operand(fr, o) for o in rv["fields"]])
            if rv.get("kind") == "closure":
                cb = self.facts.bodies[rv["def"]]
                names = [c["name"] for c in cb.raw.get("captures", [])]
                return ("closure", rv["def"], dict(zip(names, [self._operand(fr, o) for o in rv["fields"]])))
            return ("opaque",)
        if r == "bin" or r == "un":
            return ("opaque",)
        return ("opaque",)

    def _call(self, fr, bb, t):
        b = fr["body"]
        cs = b.call_at(bb)
        f = cs.f
        if f is None:
            raise Unsupported("indirect call")
        name, path = f["name"], f["path"]
        args = [self._operand(fr, a) for a in t["args"]]
        tr = cs.trait or ""
        if tr.endswith("::EventSource") and name in ("register", "reregister", "unregister", "process_events", "before_sleep", "before_handle_events"):
            recv = args[0]
            if recv[0] == "ref" and isinstance(recv[1], tuple) and recv[1][0] == "payload":
                k = self.child_ops
                self.child_ops += 1
                if self.fail_at is not None and k == self.fail_at:
                    self.failed = (name, recv[1][1])
                    self.events.append(("child-failed", name, recv[1][1]))
                    return ("result_err",)
                self.events.append(("child", name, recv[1][1]))
                if name == "process_events":
                    return ("result", ("pa", self.child_result))
                return ("result", ("unit",))
            if recv == ("ref", "self"):
                # the wrapper calling one of its own EventSource methods (e.g. reregister delegating to unregister)
                own = self.facts.body("<TransientSource as EventSource>::" + name)
                if own is not None:
                    return self.run(own, {i + 1: a for i, a in enumerate(args)})
            raise Unsupported("EventSource::%s on %s" % (name, recv))
        if path == "std::mem::take":
            if args[0] == ("ref", "state"):
                old = self.state
                self.state = St("None", {})
                return ("st", old)
            raise Unsupported("mem::take of " + str(args[0]))
        if path == "std::mem::replace":
            if args[0] == ("ref", "state") and args[1][0] == "st":
                old = self.state
                self.state = args[1][1]
                return ("st", old)
            raise Unsupported("mem::replace of %s with %s" % (args[0], args[1][0]))
        if name == "branch":
            v = args[0]
            if v[0] == "result":
                return ("cf", "Continue", v[1])
            if v[0] == "result_err":
                return ("cf_break",)
            raise Unsupported("Try::branch of " + v[0])
        if name == "from_residual":
            return ("result_err",)
        if name in ("map_err", "into", "from") and args and args[0][0] in ("result_err", "cf_break"):
            return args[0]
        if name in ("deref", "deref_mut", "as_mut", "as_ref", "borrow", "borrow_mut"):
            return args[0]
        # a child kept in a Box (or moved through one) is still that child: ownership wrappers are transparent
        if path in ("std::boxed::Box::<T>::new", "std::boxed::Box::<T>::pin", "std::boxed::Box::<T, A>::into_inner") or (name in ("new", "into_inner") and path.startswith("std::boxed::Box")):
            return args[0]
        cb = cs.callee_body()
        if cb is not None and cb.qual.endswith("replace_state"):
            sub = {1: args[0], 2: args[1]}
            return self.run(cb, sub)
        if name in ("call_once", "call_mut", "call") and tr.startswith("std::ops::Fn"):
            fn = args[0]
            tup = args[1]
            a0 = tup[1][0] if tup[0] == "tuple" else ("opaque",)
            if fn[0] == "ctor":
                if a0[0] != "payload":
                    raise Unsupported("constructor applied to " + a0[0])
                fl = self.variant_fields(fn[1])
                return ("st", St(fn[1], {fl[0]: a0[1]}))
            if fn[0] == "closure":
                cbody = self.facts.bodies[fn[1]]
                return self.run(cbody, {1: ("closure_env", fn[2]), 2: a0})
            if fn[0] == "userfn":
                self.events.append(("user", a0[1][1] if a0[0] == "ref" else None))
                return ("opaque",)
            raise Unsupported("call of " + fn[0])
        if cb is not None:
            # any other local helper (e.g. a function shared by register and reregister) is
            # executed symbolically as well
            return self.run(cb, {i + 1: a for i, a in enumerate(args)})
        return ("opaque",)
