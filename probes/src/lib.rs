// see README.md
