//! Reproductions of the findings in DESIGN.md §5. See README.md. Run one test at a time.
use calloop::generic::Generic;
use calloop::signals::{Signal, Signals};
use calloop::timer::{TimeoutAction, Timer};
use calloop::transient::TransientSource;
use calloop::*;
use std::cell::{Cell, RefCell};
use std::io::Write;
use std::os::unix::net::UnixStream;
use std::rc::Rc;
use std::time::{Duration, Instant};

extern "C" {
    fn fork() -> i32;
    fn raise(sig: i32) -> i32;
    fn _exit(code: i32) -> !;
    fn waitpid(pid: i32, status: *mut i32, opts: i32) -> i32;
    fn signal(sig: i32, h: extern "C" fn(i32)) -> usize;
    fn setitimer(which: i32, new: *const [i64; 4], old: *mut [i64; 4]) -> i32;
    fn siginterrupt(sig: i32, flag: i32) -> i32;
}

// ---------------------------------------------------------------- F-C06-1
#[test]
fn f_c06_1_remove_executor_with_async() {
    let mut el: EventLoop<()> = EventLoop::try_new().unwrap();
    let h = el.handle();
    let (exec, sched) = calloop::futures::executor::<()>().unwrap();
    let tok = h.insert_source(exec, |_, _, _| {}).unwrap();
    let (_tx, rx) = UnixStream::pair().unwrap();
    let mut rx = h.adapt_io(rx).unwrap();
    sched.schedule(async move { rx.readable().await; }).unwrap();
    el.dispatch(Duration::ZERO, &mut ()).unwrap();
    h.remove(tok);
    el.dispatch(Duration::ZERO, &mut ()).unwrap();
}

#[test]
fn f_c06_1b_remove_source_capturing_async() {
    let mut el: EventLoop<()> = EventLoop::try_new().unwrap();
    let h = el.handle();
    let (_tx, rx) = UnixStream::pair().unwrap();
    let rx = h.adapt_io(rx).unwrap();
    let (_ping, src) = ping::make_ping().unwrap();
    let tok = h.insert_source(src, move |_, _, _| { let _ = &rx; }).unwrap();
    h.remove(tok);
    el.dispatch(Duration::ZERO, &mut ()).unwrap();
}

// ---------------------------------------------------------------- F-C09-1
#[test]
fn f_c09_1_pending_leak() {
    let mut el: EventLoop<()> = EventLoop::try_new().unwrap();
    let h = el.handle();
    let (mut tx_a, rx_a) = UnixStream::pair().unwrap();
    let tok_a: Rc<Cell<Option<RegistrationToken>>> = Rc::new(Cell::new(None));
    let (h2, ta) = (h.clone(), tok_a.clone());
    let t = h
        .insert_source(Generic::new(rx_a, Interest::READ, Mode::Level), move |_, _, _| {
            h2.disable(&ta.get().unwrap()).unwrap();
            Err(std::io::Error::new(std::io::ErrorKind::Other, "boom"))
        })
        .unwrap();
    tok_a.set(Some(t));
    tx_a.write_all(b"x").unwrap();
    assert!(el.dispatch(Duration::ZERO, &mut ()).is_err());
    h.remove(t);
    let (ping, src) = ping::make_ping().unwrap();
    let count = Rc::new(Cell::new(0));
    let c2 = count.clone();
    h.insert_source(src, move |_, _, _| c2.set(c2.get() + 1)).unwrap();
    ping.ping();
    el.dispatch(Duration::ZERO, &mut ()).unwrap();
    assert_eq!(count.get(), 1);
    ping.ping();
    el.dispatch(Duration::ZERO, &mut ()).unwrap();
    assert_eq!(count.get(), 2, "B was disabled by A's leaked pending action");
}

// ---------------------------------------------------------------- lifecycle sources
struct Life {
    ping: ping::PingSource,
    tok: Option<Token>,
    synth: bool,
    fail_register: bool,
    fail_unreg: bool,
    fail_sleep: Rc<Cell<bool>>,
    sleeps: Rc<Cell<u32>>,
    handles: Rc<Cell<u32>>,
    procs: Rc<Cell<u32>>,
}
impl Life {
    fn new(ping: ping::PingSource) -> Life {
        Life {
            ping, tok: None, synth: false, fail_register: false, fail_unreg: false,
            fail_sleep: Rc::new(Cell::new(false)), sleeps: Rc::new(Cell::new(0)),
            handles: Rc::new(Cell::new(0)), procs: Rc::new(Cell::new(0)),
        }
    }
}
impl EventSource for Life {
    type Event = ();
    type Metadata = ();
    type Ret = ();
    type Error = ping::PingError;
    fn process_events<F>(&mut self, r: Readiness, t: Token, mut cb: F) -> std::result::Result<PostAction, Self::Error>
    where F: FnMut((), &mut ()) {
        self.procs.set(self.procs.get() + 1);
        if self.synth { cb((), &mut ()); return Ok(PostAction::Continue); }
        self.ping.process_events(r, t, |_, _| cb((), &mut ()))
    }
    fn register(&mut self, p: &mut Poll, f: &mut TokenFactory) -> calloop::Result<()> {
        if self.fail_register { return Err(calloop::Error::InvalidToken); }
        let r = self.ping.register(p, f);
        self.tok = Some(f.token());
        r
    }
    fn reregister(&mut self, p: &mut Poll, f: &mut TokenFactory) -> calloop::Result<()> { self.ping.reregister(p, f) }
    fn unregister(&mut self, p: &mut Poll) -> calloop::Result<()> {
        if self.fail_unreg { return Err(calloop::Error::InvalidToken); }
        self.ping.unregister(p)
    }
    const NEEDS_EXTRA_LIFECYCLE_EVENTS: bool = true;
    fn before_sleep(&mut self) -> calloop::Result<Option<(Readiness, Token)>> {
        if self.fail_sleep.replace(false) { return Err(calloop::Error::InvalidToken); }
        self.sleeps.set(self.sleeps.get() + 1);
        if self.synth { Ok(Some((Readiness::EMPTY, self.tok.unwrap()))) } else { Ok(None) }
    }
    fn before_handle_events(&mut self, _: EventIterator<'_>) { self.handles.set(self.handles.get() + 1); }
}

#[test]
fn f_c14_1_lifecycle_dup() {
    let mut el: EventLoop<()> = EventLoop::try_new().unwrap();
    let h = el.handle();
    let (_ping, src) = ping::make_ping().unwrap();
    let s = Life::new(src);
    let (sleeps, handles) = (s.sleeps.clone(), s.handles.clone());
    let t = h.insert_source(s, |_, _, _| {}).unwrap();
    el.dispatch(Duration::ZERO, &mut ()).unwrap();
    assert_eq!((sleeps.get(), handles.get()), (1, 1));
    h.update(&t).unwrap();
    el.dispatch(Duration::ZERO, &mut ()).unwrap();
    assert_eq!((sleeps.get(), handles.get()), (2, 2), "update() duplicated the lifecycle entry");
}

#[test]
fn f_c14_2_stale_after_failed_insert() {
    let mut el: EventLoop<()> = EventLoop::try_new().unwrap();
    let h = el.handle();
    let (_ping, src) = ping::make_ping().unwrap();
    let mut s = Life::new(src);
    s.fail_register = true;
    assert!(h.insert_source(s, |_, _, _| {}).is_err());
    el.dispatch(Duration::ZERO, &mut ()).unwrap(); // panics: unreachable!()
}

#[test]
fn f_c14_3_unregister_fail() {
    let mut el: EventLoop<()> = EventLoop::try_new().unwrap();
    let h = el.handle();
    let (_p1, s1) = ping::make_ping().unwrap();
    let mut s = Life::new(s1);
    s.fail_unreg = true;
    let t = h.insert_source(s, |_, _, _| {}).unwrap();
    el.dispatch(Duration::ZERO, &mut ()).unwrap();
    h.remove(t);
    el.dispatch(Duration::ZERO, &mut ()).unwrap(); // panics: unreachable!()
}

#[test]
fn f_c14_5_stale_synthetic() {
    let mut el: EventLoop<()> = EventLoop::try_new().unwrap();
    let h = el.handle();
    let (_p1, s1) = ping::make_ping().unwrap();
    let (_p2, s2) = ping::make_ping().unwrap();
    let mut a = Life::new(s1);
    a.synth = true;
    let procs_a = a.procs.clone();
    let b = Life::new(s2);
    b.fail_sleep.set(true);
    h.insert_source(a, |_, _, _| {}).unwrap();
    h.insert_source(b, |_, _, _| {}).unwrap();
    assert!(el.dispatch(Duration::ZERO, &mut ()).is_err());
    assert_eq!(procs_a.get(), 0);
    el.dispatch(Duration::ZERO, &mut ()).unwrap();
    assert_eq!(procs_a.get(), 1, "A got {} process_events for one before_sleep", procs_a.get());
}

extern "C" fn noop(_: i32) {}

/// Passes on the pinned tree: polling 3.11 retries EINTR internally, so calloop's own
/// EINTR arm (which would skip before_handle_events) is dead code.
#[test]
fn f_c14_4_eintr() {
    let mut el: EventLoop<()> = EventLoop::try_new().unwrap();
    let h = el.handle();
    let (_ping, src) = ping::make_ping().unwrap();
    let s = Life::new(src);
    let (sleeps, handles) = (s.sleeps.clone(), s.handles.clone());
    h.insert_source(s, |_, _, _| {}).unwrap();
    unsafe {
        signal(14, noop);
        siginterrupt(14, 1);
        let it: [i64; 4] = [0, 1000, 0, 1000];
        setitimer(0, &it, std::ptr::null_mut());
    }
    for _ in 0..20 { el.dispatch(Duration::from_millis(5), &mut ()).unwrap(); }
    unsafe { let it: [i64; 4] = [0, 0, 0, 0]; setitimer(0, &it, std::ptr::null_mut()); }
    assert_eq!(sleeps.get(), handles.get());
}

// ---------------------------------------------------------------- F-C05-1
#[test]
fn f_c05_1_timer_early() {
    let mut el: EventLoop<()> = EventLoop::try_new().unwrap();
    let h = el.handle();
    let (ping, src) = ping::make_ping().unwrap();
    let fired: Rc<RefCell<Vec<(Instant, Instant)>>> = Rc::new(RefCell::new(vec![]));
    let f2 = fired.clone();
    let disp = Dispatcher::new(Timer::from_duration(Duration::from_millis(20)), move |dl, _, _: &mut ()| {
        f2.borrow_mut().push((Instant::now(), dl));
        TimeoutAction::Drop
    });
    let ttok = h.register_dispatcher(disp.clone()).unwrap();
    let (h2, d2) = (h.clone(), disp.clone());
    let far = Instant::now() + Duration::from_secs(3600);
    // fd events precede timer events in a batch, so this runs first
    h.insert_source(src, move |_, _, _| {
        d2.as_source_mut().set_deadline(far);
        h2.update(&ttok).unwrap();
    })
    .unwrap();
    std::thread::sleep(Duration::from_millis(40));
    ping.ping();
    el.dispatch(Duration::ZERO, &mut ()).unwrap();
    for (now, dl) in fired.borrow().iter() {
        assert!(now >= dl, "timer fired {:?} before its deadline", *dl - *now);
    }
}

// ---------------------------------------------------------------- F-C16-1, F-C15-1, F-C15-2
#[test]
fn f_c16_1_readapt() {
    let el: EventLoop<()> = EventLoop::try_new().unwrap();
    let h = el.handle();
    let (_tx, rx) = UnixStream::pair().unwrap();
    let a = h.adapt_io(rx).unwrap();
    let rx = a.into_inner();
    let b = h.adapt_io(rx);
    assert!(b.is_ok(), "re-adapt failed: {:?}", b.err());
}

#[test]
fn f_c15_1_failed_adapt() {
    let el: EventLoop<()> = EventLoop::try_new().unwrap();
    let h = el.handle();
    let f = std::fs::File::open("/etc/hostname").unwrap(); // epoll rejects regular files
    assert!(h.adapt_io(f).is_err());
    let (_p, s) = ping::make_ping().unwrap();
    let t = h.insert_source(s, |_, _, _| {}).unwrap();
    let dbg = format!("{:?}", t);
    assert!(dbg.contains("{ id: 0"), "slot leaked: {}", dbg);
}

#[test]
fn f_c15_2_error_drops_timer() {
    let mut el: EventLoop<()> = EventLoop::try_new().unwrap();
    let h = el.handle();
    let (mut tx_a, rx_a) = UnixStream::pair().unwrap();
    let once = Cell::new(true);
    h.insert_source(Generic::new(rx_a, Interest::READ, Mode::Level), move |_, f, _| {
        use std::io::Read;
        let mut b = [0u8; 8];
        let _ = (&**f).read(&mut b);
        if once.replace(false) { Err(std::io::Error::new(std::io::ErrorKind::Other, "boom")) } else { Ok(PostAction::Continue) }
    })
    .unwrap();
    let fired = Rc::new(Cell::new(false));
    let f2 = fired.clone();
    h.insert_source(Timer::from_duration(Duration::from_millis(10)), move |_, _, _| { f2.set(true); TimeoutAction::Drop }).unwrap();
    std::thread::sleep(Duration::from_millis(30));
    tx_a.write_all(b"x").unwrap();
    assert!(el.dispatch(Duration::ZERO, &mut ()).is_err());
    for _ in 0..5 { el.dispatch(Duration::from_millis(10), &mut ()).unwrap(); }
    assert!(fired.get(), "timer lost because another source failed in its batch");
}

// ---------------------------------------------------------------- F-C18-1
struct W { inner: TransientSource<Generic<UnixStream>> }
impl EventSource for W {
    type Event = ();
    type Metadata = ();
    type Ret = ();
    type Error = std::io::Error;
    fn process_events<F>(&mut self, r: Readiness, t: Token, mut cb: F) -> std::result::Result<PostAction, Self::Error>
    where F: FnMut((), &mut ()) {
        self.inner.process_events(r, t, |_, f| {
            use std::io::Read;
            let mut b = [0u8; 8];
            let _ = (&**f).read(&mut b);
            cb((), &mut ());
            Ok(PostAction::Disable)
        })
    }
    fn register(&mut self, p: &mut Poll, f: &mut TokenFactory) -> calloop::Result<()> { self.inner.register(p, f) }
    fn reregister(&mut self, p: &mut Poll, f: &mut TokenFactory) -> calloop::Result<()> { self.inner.reregister(p, f) }
    fn unregister(&mut self, p: &mut Poll) -> calloop::Result<()> { self.inner.unregister(p) }
}

#[test]
fn f_c18_1_transient_double_unregister() {
    let mut el: EventLoop<()> = EventLoop::try_new().unwrap();
    let h = el.handle();
    let (mut tx, rx) = UnixStream::pair().unwrap();
    let n = Rc::new(Cell::new(0));
    let n2 = n.clone();
    let tok = h.insert_source(W { inner: Generic::new(rx, Interest::READ, Mode::Level).into() }, move |_, _, _| n2.set(n2.get() + 1)).unwrap();
    tx.write_all(b"x").unwrap();
    el.dispatch(Duration::ZERO, &mut ()).unwrap(); // child returns Disable -> loop reregisters -> child unregistered
    assert_eq!(n.get(), 1);
    let r = h.update(&tok); // second reregister: child unregistered again
    assert!(r.is_ok(), "second reregister failed: {:?}", r.err());
    let r = h.disable(&tok);
    assert!(r.is_ok(), "disable failed: {:?}", r.err());
}

// F-C18-3: a child that disabled itself is unregistered a second time when it is then removed
// or replaced (found by the E3 exploration of the extracted TransientSource automaton)
#[test]
fn f_c18_3_remove_after_disable() {
    let mut el: EventLoop<()> = EventLoop::try_new().unwrap();
    let h = el.handle();
    let (mut tx, rx) = UnixStream::pair().unwrap();
    let d = calloop::Dispatcher::new(W { inner: Generic::new(rx, Interest::READ, Mode::Level).into() }, |_, _, _| ());
    let tok = h.register_dispatcher(d.clone()).unwrap();
    tx.write_all(b"x").unwrap();
    el.dispatch(Duration::ZERO, &mut ()).unwrap(); // child returns Disable -> reregister -> child unregistered
    d.as_source_mut().inner.remove();
    let r = h.update(&tok); // documented protocol: re-register after remove()
    assert!(r.is_ok(), "update() after remove() of a disabled child failed: {:?}", r.err());
}

#[test]
fn f_c18_3_replace_after_disable() {
    let mut el: EventLoop<()> = EventLoop::try_new().unwrap();
    let h = el.handle();
    let (mut tx, rx) = UnixStream::pair().unwrap();
    let (_tx2, rx2) = UnixStream::pair().unwrap();
    let d = calloop::Dispatcher::new(W { inner: Generic::new(rx, Interest::READ, Mode::Level).into() }, |_, _, _| ());
    let tok = h.register_dispatcher(d.clone()).unwrap();
    tx.write_all(b"x").unwrap();
    el.dispatch(Duration::ZERO, &mut ()).unwrap();
    d.as_source_mut().inner.replace(Generic::new(rx2, Interest::READ, Mode::Level));
    let r = h.update(&tok);
    assert!(r.is_ok(), "update() after replace() of a disabled child failed: {:?}", r.err());
}

// ---------------------------------------------------------------- F-C19-1
#[test]
fn f_c19_1_set_signals_window() {
    let pid = unsafe { fork() };
    if pid == 0 {
        let mut s = Signals::new(&[Signal::SIGUSR1]).unwrap();
        unsafe { raise(10) }; // SIGUSR1 now pending (blocked)
        let _ = s.set_signals(&[Signal::SIGUSR1, Signal::SIGUSR2]);
        unsafe { _exit(0) };
    }
    let mut status: i32 = 0;
    unsafe { waitpid(pid, &mut status, 0) };
    assert!((status & 0x7f) == 0, "child killed by signal {} inside set_signals", status & 0x7f);
}

// ---------------------------------------------------------------- F-C06-2
// a source (with additional lifecycle events) removes itself from its own callback and its event
// processing then returns an error: the `?` left the batch loop before the "was it removed?" check, the
// source stayed in the lifecycle set with an empty slot and the next dispatch hit unreachable!()
// (noticed by a round-5 seeding sub-agent while probing error paths; C06.2 `failed=>removed-check`)
struct FailsAfterRemoval {
    ping: calloop::ping::PingSource,
}
impl calloop::EventSource for FailsAfterRemoval {
    type Event = ();
    type Metadata = ();
    type Ret = ();
    type Error = Box<dyn std::error::Error + Sync + Send>;
    const NEEDS_EXTRA_LIFECYCLE_EVENTS: bool = true;
    fn process_events<F>(&mut self, r: calloop::Readiness, t: calloop::Token, mut cb: F) -> std::result::Result<calloop::PostAction, Self::Error>
    where
        F: FnMut((), &mut ()),
    {
        self.ping.process_events(r, t, |_, _| cb((), &mut ())).map_err(|e| Box::new(e) as Self::Error)?;
        Err(Box::<dyn std::error::Error + Sync + Send>::from("boom"))
    }
    fn register(&mut self, p: &mut calloop::Poll, f: &mut calloop::TokenFactory) -> calloop::Result<()> {
        self.ping.register(p, f)
    }
    fn reregister(&mut self, p: &mut calloop::Poll, f: &mut calloop::TokenFactory) -> calloop::Result<()> {
        self.ping.reregister(p, f)
    }
    fn unregister(&mut self, p: &mut calloop::Poll) -> calloop::Result<()> {
        self.ping.unregister(p)
    }
    fn before_sleep(&mut self) -> calloop::Result<Option<(calloop::Readiness, calloop::Token)>> {
        Ok(None)
    }
    fn before_handle_events(&mut self, _: calloop::EventIterator<'_>) {}
}

#[test]
fn f_c06_2_removed_then_failed() {
    let mut el = EventLoop::<Option<calloop::RegistrationToken>>::try_new().unwrap();
    let h = el.handle();
    let (p, ps) = calloop::ping::make_ping().unwrap();
    let h2 = h.clone();
    let tok = h
        .insert_source(FailsAfterRemoval { ping: ps }, move |_, _, d: &mut Option<calloop::RegistrationToken>| {
            if let Some(t) = d.take() {
                h2.remove(t);
            }
        })
        .unwrap();
    let mut data = Some(tok);
    p.ping();
    assert!(el.dispatch(Duration::from_millis(100), &mut data).is_err());
    // the loop must stay usable (on the unfixed tree: panic "entered unreachable code")
    assert!(el.dispatch(Duration::from_millis(10), &mut data).is_ok());
}

// ---------------------------------------------------------------- F-C04-1
// sync_channel(0): a blocking send can hang for ever although the loop keeps dispatching. The race needs the loop
// to consume the ping of the failed try_send before the sender thread has parked in the blocking send: it is a
// matter of scheduling, so the probe repeats the experiment (up to 3000 rounds).
// Noticed by a sub-agent of the optimisation round while stress-testing the ping source; C04.6.
#[test]
fn f_c04_1_rendezvous_send_hangs() {
    use calloop::channel::{sync_channel, Event};
    let mut hangs = 0;
    for round in 0..3000u32 {
        let mut el: EventLoop<usize> = EventLoop::try_new().unwrap();
        let (tx, rx) = sync_channel::<u32>(0);
        el.handle()
            .insert_source(rx, |ev, _, got| {
                if let Event::Msg(_) = ev {
                    *got += 1;
                }
            })
            .unwrap();
        let th = std::thread::spawn(move || {
            tx.send(round).unwrap();
            std::thread::sleep(Duration::from_millis(1));
        });
        let mut got = 0usize;
        let start = Instant::now();
        // the loop keeps dispatching (short timeouts) for up to 2 s
        while got == 0 && start.elapsed() < Duration::from_secs(2) {
            el.dispatch(Duration::from_millis(20), &mut got).unwrap();
        }
        if got == 0 {
            hangs += 1;
            std::mem::forget(th); // the sender is parked for good
            break;
        }
        th.join().unwrap();
    }
    assert_eq!(hangs, 0, "a blocking send on sync_channel(0) never completed although the loop kept dispatching");
}

// ---------------------------------------------------------------- F-C07-1
// update() on a disabled source re-armed it: LoopHandle::update() called the source's reregister() whether or not
// the source was registered, and Timer::reregister (like every source written as `unregister; register`) arms.
// Found while triaging seeding round 8 (two sub-agents built seeds on the sequence disable -> update); C07.4.
#[test]
fn f_c07_1_update_rearms_disabled_timer() {
    use calloop::timer::{TimeoutAction, Timer};
    let mut el: EventLoop<u32> = EventLoop::try_new().unwrap();
    let h = el.handle();
    let tok = h
        .insert_source(Timer::from_duration(Duration::from_millis(30)), |_, _, n: &mut u32| {
            *n += 1;
            TimeoutAction::Drop
        })
        .unwrap();
    h.disable(&tok).unwrap();
    h.update(&tok).unwrap();
    let mut n = 0u32;
    el.dispatch(Duration::from_millis(100), &mut n).unwrap();
    assert_eq!(n, 0, "a disabled timer fired after update()");
    h.enable(&tok).unwrap();
    el.dispatch(Duration::from_millis(100), &mut n).unwrap();
    assert_eq!(n, 1, "the timer fires after enable()");
}
