//! Demonstration for seeded change C11/3.
//!
//! Drop into `tests/c11_demo3.rs`, add
//!
//! ```toml
//! [[test]]
//! name = "c11_demo3"
//! path = "tests/c11_demo3.rs"
//! ```
//!
//! to Cargo.toml and run
//! `cargo test --offline --features "block_on executor signals stream futures-io" --test c11_demo3`.
//!
//! Everything runs on a single thread, there is no timing involved.

use std::future::pending;
use std::io;

use calloop::generic::Generic;
use calloop::timer::{TimeoutAction, Timer};
use calloop::{EventLoop, Interest, LoopSignal, Mode, PostAction};

/// What a run of the loop has seen.
#[derive(Default, Debug, PartialEq, Eq)]
struct Seen {
    timer_fired: u32,
    iterations: u32,
}

/// `run()` with an immediate timer whose callback requests the stop: the only way for this to
/// return Ok is that the timer has been dispatched and the iteration finished.
fn run_until_timer_stops(event_loop: &mut EventLoop<'_, Seen>, signal: &LoopSignal) -> Seen {
    let signal = signal.clone();
    event_loop
        .handle()
        .insert_source(Timer::immediate(), move |_, _, seen: &mut Seen| {
            seen.timer_fired += 1;
            signal.stop();
            TimeoutAction::Drop
        })
        .unwrap();

    let mut seen = Seen::default();
    event_loop
        .run(None, &mut seen, |seen| seen.iterations += 1)
        .expect("run() failed");
    seen
}

/// A block_on that was cancelled with stop(), followed by a run() on the same loop.
#[test]
fn run_after_a_stopped_block_on() {
    let mut event_loop = EventLoop::<Seen>::try_new().unwrap();
    let signal = event_loop.get_signal();

    // block_on, cancelled from a timer callback (same as calloop's own block_on_early_cancel)
    let stopper = signal.clone();
    event_loop
        .handle()
        .insert_source(Timer::immediate(), move |_, _, _| {
            stopper.stop();
            TimeoutAction::Drop
        })
        .unwrap();
    let mut seen = Seen::default();
    let result = event_loop
        .block_on(pending::<()>(), &mut seen, |_| {})
        .unwrap();
    assert_eq!(result, None);

    // Nobody requested a stop since block_on returned: run() has to dispatch until somebody does.
    let seen = run_until_timer_stops(&mut event_loop, &signal);
    assert_eq!(
        seen,
        Seen {
            timer_fired: 1,
            iterations: 1
        },
        "run() returned Ok although nothing requested a stop after it had begun"
    );
}

/// A run() that failed in the iteration in which a stop was requested, followed by a new run().
#[test]
fn run_after_a_failed_run() {
    let mut event_loop = EventLoop::<Seen>::try_new().unwrap();
    let signal = event_loop.get_signal();

    // A source that hits a fatal error: it asks for the loop to be shut down and reports the error.
    let (read_end, write_end) = rustix::pipe::pipe().unwrap();
    rustix::io::write(&write_end, b"x").unwrap();
    let stopper = signal.clone();
    let failing = event_loop
        .handle()
        .insert_source(
            Generic::new(read_end, Interest::READ, Mode::Level),
            move |_, _, _: &mut Seen| {
                stopper.stop();
                Err::<PostAction, _>(io::Error::new(io::ErrorKind::Other, "fatal source error"))
            },
        )
        .unwrap();

    let mut seen = Seen::default();
    let ret = event_loop.run(None, &mut seen, |seen| seen.iterations += 1);
    assert!(ret.is_err(), "the source error has to be reported by run()");
    assert_eq!(seen.iterations, 0);

    // The application gets rid of the broken source and runs the loop again.
    event_loop.handle().remove(failing);

    let seen = run_until_timer_stops(&mut event_loop, &signal);
    assert_eq!(
        seen,
        Seen {
            timer_fired: 1,
            iterations: 1
        },
        "run() returned Ok although nothing requested a stop after it had begun"
    );
}
