// A source whose Drop needs the loop (like an Async adapter or an executor's futures do): removing it
// must not run that Drop while LoopHandle::remove still holds a borrow of the poller.
use calloop::{
    timer::{TimeoutAction, Timer},
    EventLoop, EventSource, LoopHandle, Poll, PostAction, Readiness, Token, TokenFactory,
};

struct NeedsLoopOnDrop {
    handle: LoopHandle<'static, ()>,
    inner: Timer,
}

impl Drop for NeedsLoopOnDrop {
    fn drop(&mut self) {
        // registers a new source: borrows the poller mutably
        let _ = self
            .handle
            .insert_source(Timer::immediate(), |_, _, _| TimeoutAction::Drop);
    }
}

impl EventSource for NeedsLoopOnDrop {
    type Event = ();
    type Metadata = ();
    type Ret = ();
    type Error = std::io::Error;
    fn process_events<F>(&mut self, r: Readiness, t: Token, mut cb: F) -> Result<PostAction, Self::Error>
    where
        F: FnMut((), &mut ()),
    {
        self.inner.process_events(r, t, |_, _| {
            cb((), &mut ());
            TimeoutAction::Drop
        })
    }
    fn register(&mut self, p: &mut Poll, f: &mut TokenFactory) -> calloop::Result<()> {
        self.inner.register(p, f)
    }
    fn reregister(&mut self, p: &mut Poll, f: &mut TokenFactory) -> calloop::Result<()> {
        self.inner.reregister(p, f)
    }
    fn unregister(&mut self, p: &mut Poll) -> calloop::Result<()> {
        self.inner.unregister(p)
    }
}

#[test]
fn remove_drops_the_source_outside_of_any_loop_borrow() {
    let event_loop: EventLoop<'static, ()> = EventLoop::try_new().unwrap();
    let handle = event_loop.handle();
    let src = NeedsLoopOnDrop {
        handle: handle.clone(),
        inner: Timer::from_duration(std::time::Duration::from_secs(3600)),
    };
    let token = handle.insert_source(src, |_, _, _| ()).unwrap();
    // the only reference to the source is the loop's: remove() drops it
    handle.remove(token);
}
