#!/bin/sh
# MANIFEST.setup_cmd — offline. Builds the fact extractor (E1) and warms the per-configuration
# cargo target directories (dependencies are type-checked once); safe to re-run.
set -e
cd "$(dirname "$0")"
export CARGO_NET_OFFLINE=true
python3 engine/rules/extract.py full book default
echo "setup ok"
