#!/usr/bin/env python3
"""records, from a seed_matrix.py result, which checks report each stored seeded change (meta.json: detected_by) and
each hand-written mutant (mutants/matrix.json). Keys are stored without the 'Cxx.n/' clause prefix for seeds."""
import json, os, sys

V = os.path.abspath(os.path.join(os.path.dirname(__file__), ".."))
m = json.load(open(sys.argv[1]))
mut = {}
for sd, v in m.items():
    if "error" in v or sd.startswith("<"):
        continue
    name = os.path.basename(sd.rstrip("/"))
    if "/seeded/" in sd:
        mp = os.path.join(V, "seeded", name, "meta.json")
        if os.path.exists(mp):
            meta = json.load(open(mp))
            meta["detected_by"] = {p: sorted({(k.split("/", 1)[1] if "/" in k else k) for k in ks}) for p, ks in sorted(v.items())}
            json.dump(meta, open(mp, "w"), indent=1)
    elif "/mutants/" in sd:
        mut[name] = {p: sorted(ks) for p, ks in sorted(v.items())}
if mut:
    json.dump(mut, open(os.path.join(V, "mutants", "matrix.json"), "w"), indent=1, sort_keys=True)
print("updated", len([1 for sd in m if "/seeded/" in sd]), "seeds,", len(mut), "mutants")
