#!/usr/bin/env python3
"""Generates /verif/MANIFEST.json from the property modules (kept in the repo so the manifest and
the modules cannot drift apart)."""
import importlib
import json
import os
import sys

V = os.path.abspath(os.path.join(os.path.dirname(__file__), ".."))
sys.path.insert(0, os.path.join(V, "engine", "rules"))
props = [json.loads(l) for l in open(os.path.join(V, "properties.jsonl"))]

TECH = {
    "C18": "static analysis: symbolic extraction of the TransientSource state x call table from MIR (rustc_private driver) + exhaustive exploration of the extracted finite automaton; nothing is executed",
    "C20": "static analysis: abstract interpretation of MIR over a bit-provenance domain (rustc_private driver); no solver, nothing executed",
}
DEFAULT_TECH = "static analysis: repository-specific rules over the type-checked program (MIR CFG, dominators, access-path value flow, RefCell-guard liveness dataflow, resolved call graph) extracted by a rustc_private driver; nothing is executed"
NOTE = "Trusted: rustc nightly MIR construction / drop elaboration / Instance::try_resolve, the fact serialiser (engine/driver), the CFG and dataflow code (engine/rules), documented behaviour of std and of polling/rustix/nix/async-task/slab, Linux epoll/eventfd/signalfd. Only the Linux 64-bit build is analysed (cfg(windows), pipe.rs, iocp.rs, cfg(test), nightly_coverage are not). The check decides the named structural clauses (necessary conditions of the property), not the behaviour itself; the remainder is listed under coverage.not_decided in the evidence."
checks = []
for p in props:
    pid = p["id"]
    mod = importlib.import_module("props." + pid)
    level = getattr(mod, "LEVEL", "other")
    text = mod.EXPLANATION
    if level == "other":
        text = "Clause-level static decision (all paths at once) of structural necessary conditions of the property. " + text
    elif level == "model_checking":
        text = "Exhaustive exploration of a finite automaton that is extracted from the MIR on every run (static; no execution). " + text
    elif level == "proof":
        text = "All obligations are discharged by abstract interpretation for every representable input at once (64-bit target). " + text
    checks.append(
        {
            "property_id": pid,
            "quick_cmd": "./check %s --tier quick" % pid,
            "thorough_cmd": "./check %s --tier thorough" % pid,
            "evidence_file": "/verif/evidence/%s.json" % pid,
            "replay_cmd_template": "cat {path}",
            "engine": "E1+E2" + ("+E3" if pid in ("C18", "C01", "C07", "C15", "C16") else "") + ("+E4" if pid in ("C20", "C09", "C02") else ""),
            "level_claimed": {"category": level, "text": text, "design_ref": "DESIGN.md section 4, %s" % pid},
            "level_note": NOTE + " Not decided: " + "; ".join(getattr(mod, "NOT_DECIDED", [])),
            "technique": TECH.get(pid, DEFAULT_TECH),
        }
    )
m = {
    "version": 1,
    "setup_cmd": "./setup.sh",
    "hooks": {
        "guard": "calloop_verif",
        "enable": "none needed: the checks are static and analyse /repo's unmodified build configurations; --cfg calloop_verif is reserved and unused",
        "baseline_off_cmd": "cd /repo && cargo test --workspace --no-fail-fast --offline",
        "source_commits": [],
        "add_only": True,
    },
    "engines": [
        {"name": "E1", "path": "engine/driver", "serves_properties": [p["id"] for p in props], "kind_free_text": "rustc_private fact extractor: MIR (opt-level 0), resolved callees, ADT layouts, impls, evaluated constants -> JSON, injected with RUSTC_WORKSPACE_WRAPPER under cargo +nightly check"},
        {"name": "E2", "path": "engine/rules", "serves_properties": [p["id"] for p in props], "kind_free_text": "Python rule engine over the MIR facts: loader normalisations (rename undo against the reference item table, Option/Result combinator expansion with closure inlining, virtual inlining of new helpers with per-return epilogues, known-value jump threading), CFG/dominators, access-path resolution and storage identity, guard-liveness dataflow (T1), rule templates T2-T12, per-property rule instantiations with floors and frozen tables"},
        {"name": "E3", "path": "engine/typestate", "serves_properties": ["C01", "C07", "C15", "C16", "C18"], "kind_free_text": "symbolic extraction of the TransientSource automaton from MIR + breadth-first exploration under the documented protocol"},
        {"name": "E4", "path": "engine/bits", "serves_properties": ["C02", "C09", "C20"], "kind_free_text": "bit-provenance abstract interpreter over straight-line MIR (C20); exhaustive evaluation of small pure MIR functions over their finite enum input space (finite_eval.py: PostAction | PostAction for C09.5, Mode x bool -> PollMode for C02.3)"},
        {"name": "E5", "path": "witness", "serves_properties": ["C03", "C04", "C06", "C08", "C10", "C13", "C16", "C20"], "kind_free_text": "compile_fail witnesses with compiling twins (rustdoc, nightly), run by the thorough tier"},
    ],
    "checks": checks,
    "not_applicable": [],
    "notes": "Static analysis only (no test is run, no solver is used). Known findings: /verif/known_findings.json. Seeded breaking changes and which checks catch them: /verif/seeded/ and DESIGN.md section 7.",
}
json.dump(m, open(os.path.join(V, "MANIFEST.json"), "w"), indent=1)
print("MANIFEST.json written with %d checks" % len(checks))
