#!/usr/bin/env python3
"""writes engine/rules/reference_items.json: the item table (functions with container, signature and
callees; ADTs with variants and fields) of the tree the rules were confirmed on, per feature
configuration. Used by engine/rules/renames.py to recognise pure renames of private items."""
import json, os, sys

V = os.path.abspath(os.path.join(os.path.dirname(__file__), ".."))
sys.path.insert(0, os.path.join(V, "engine", "rules"))
import extract, renames

out = {}
for cfg in extract.CONFIGS:
    path, secs, reused = extract.extract(cfg)
    d = json.load(open(path))
    out[renames.config_key(d.get("cfg", []))] = renames.snapshot(d)
json.dump(out, open(renames.REF, "w"), indent=0, sort_keys=True)
print("wrote", renames.REF, {k: (len(v["fns"]), len(v["adts"])) for k, v in out.items()})
