#!/usr/bin/env python3
"""summarises a seed_matrix.py result: misses (seeded change / mutant not reported by its own
property's check), false alarms (benign variant reported), key-level losses against mutants/matrix.json"""
import json, os, sys

m = json.load(open(sys.argv[1]))
old = json.load(open(os.path.join(os.path.dirname(__file__), "..", "mutants", "matrix.json")))
miss, fa, err = [], [], []
for sd, v in m.items():
    if sd == "<unchanged>":
        if v:
            print("UNCHANGED TREE REPORTS", v)
        continue
    name = os.path.basename(sd.rstrip("/"))
    if "error" in v:
        err.append((sd, v["error"]))
    elif "/benign/" in sd or "/refac" in sd:
        if v:
            fa.append((sd, v))
    elif "/seed" in sd:
        meta = os.path.join(sd, "meta.json")
        prop = json.load(open(meta))["property"] if os.path.exists(meta) else name.split("-")[0]
        if prop not in v:
            miss.append((sd, prop, sorted(v)))
    elif "/mutants/" in sd:
        if not v:
            miss.append((sd, "?", []))
        for p, ks in old.get(name, {}).items():
            for k in ks:
                if k not in v.get(p, []):
                    print("KEY-LOST", name, k)
print("variants:", len(m) - 1, "errors:", len(err), "misses:", len(miss), "false alarms:", len(fa))
for x in err + miss:
    print("  ", x)
for sd, v in fa:
    print("  FALSE-ALARM", sd)
    for p, ks in v.items():
        for k in ks:
            print("      ", k[:200])
