#!/usr/bin/env python3
"""Applies each seeded change to /repo (git apply), runs every property's quick rules on the
resulting tree, undoes it (git checkout), and records which checks report which new keys.
usage: seed_matrix.py <out.json> <seed dir>..."""
import importlib
import json
import os
import subprocess
import sys

V = os.path.abspath(os.path.join(os.path.dirname(__file__), ".."))
sys.path.insert(0, os.path.join(V, "engine", "rules"))
import core
import extract
import mir

PROPS = ["C%02d" % i for i in range(1, 21)]
# MATRIX_REPO: a scratch worktree of /repo at the same commit (so that /repo itself stays
# untouched while other checks are running on it)
R = os.environ.get("MATRIX_REPO", "/repo")
TAG = "matrix" if R == "/repo" else "matrix-" + os.path.basename(R.rstrip("/"))
known = {k["key"] for k in core.load_known() if k.get("status") == "open"}


def analyse(tag):
    path, secs, reused = extract.extract("full", repo=R, tag=tag)
    facts = mir.load(path)
    res = {}
    for p in PROPS:
        mod = importlib.import_module("props." + p)
        ck = core.Check(p, facts, "full", "quick")
        try:
            mod.run(ck)
        except core.AnchorMissing:
            pass
        except Exception as e:
            res[p] = ["ENGINE-ERROR %r" % e]
            continue
        res[p] = sorted({r["key"] for r in ck.results if r["verdict"] in (core.VIOLATION, core.ANCHOR) and r["key"] not in known})
    return res


out = {}
if subprocess.run(["git", "-C", R, "diff", "--quiet"]).returncode != 0:
    raise SystemExit(R + " is dirty")
base = analyse(TAG)
out["<unchanged>"] = {p: v for p, v in base.items() if v}
for sd in sys.argv[2:]:
    patch = os.path.join(sd, "patch.rebased.diff")
    if not os.path.exists(patch):
        patch = os.path.join(sd, "patch.diff")
    if subprocess.run(["git", "-C", R, "apply", patch]).returncode != 0:
        out[sd] = {"error": "patch does not apply"}
        continue
    try:
        try:
            r = analyse(TAG)
            out[sd] = {p: [k for k in v if k not in base.get(p, [])] for p, v in r.items()}
            out[sd] = {p: v for p, v in out[sd].items() if v}
        except SystemExit as e:
            out[sd] = {"error": str(e)}
    finally:
        subprocess.run(["git", "-C", R, "checkout", "--", "."], check=True)
        subprocess.run(["git", "-C", R, "clean", "-fdq", "src"], check=True)  # files a patch created
    print(sd, {p: len(v) for p, v in out[sd].items()} if "error" not in out[sd] else out[sd], flush=True)
json.dump(out, open(sys.argv[1], "w"), indent=1)
