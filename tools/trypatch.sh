#!/bin/sh
# usage: trypatch.sh <patch.diff> <prop> [<prop>...]   — apply to /repo, run quick checks, undo
P="$1"; shift
cd /repo || exit 2
if ! git diff --quiet; then echo "repo dirty, refusing"; exit 2; fi
git apply "$P" || { echo "PATCH DOES NOT APPLY: $P"; exit 3; }
for id in "$@"; do
  (cd /verif && ./check "$id" --tag trypatch 2>&1 | grep -E "^VIOLATION|^KNOWN|^  (rule|why)|^C[0-9]+ \[" )
done
git -C /repo checkout -- . ; git -C /repo status --short | head -3
