#!/bin/sh
# usage: verify_mutants.sh <worktree> <dir with Mxx/patch.diff>... — does the existing suite still pass with the mutant?
W="$1"; shift
export CARGO_NET_OFFLINE=true
cd "$W" || exit 2
for d in "$@"; do
  git checkout -q -- .
  git apply "$d/patch.diff" || { echo "RESULT $d apply=FAIL"; continue; }
  out=$(timeout 900 cargo test --offline --features "block_on executor signals stream futures-io" 2>&1)
  res=$(echo "$out" | grep -E "^test result" | head -1)
  fails=$(echo "$out" | grep -cE "^test result: FAILED|^error")
  echo "RESULT $d suite_failures=$fails first='$res'"
done
git checkout -q -- .
