#!/bin/sh
# usage: verify_seed.sh <seed dir> <worktree>  — confirms: suite passes with the patch, demo fails with it, demo passes without
S="$1"; W="$2"
P="$S/patch.diff"; [ -f "$S/patch.rebased.diff" ] && P="$S/patch.rebased.diff"
export CARGO_NET_OFFLINE=true
cd "$W" || exit 2
git checkout -q -- . ; git clean -fdq -e target -e Cargo.lock
git apply "$P" || { echo "RESULT $S apply=FAIL"; exit 0; }
suite=$(cargo test --workspace --no-fail-fast --offline 2>&1 | grep -E "^test result" | head -1)
suite_fail=$(cargo test --workspace --no-fail-fast --offline 2>&1 | grep -cE "^test result: FAILED|error(\[|:)")
cp "$S/demo.rs" tests/seed_demo.rs
printf '\n[[test]]\nname = "seed_demo"\npath = "tests/seed_demo.rs"\n' >> Cargo.toml
# a demonstration that must run on the main thread (signal masks) says so in its header
grep -q "harness = false" "$S/demo.rs" && printf 'harness = false\n' >> Cargo.toml
timeout 900 cargo test --offline --features "block_on executor signals stream futures-io" --test seed_demo >"$S/verify_with.log" 2>&1; with=$?
git apply -R "$P"
timeout 900 cargo test --offline --features "block_on executor signals stream futures-io" --test seed_demo >"$S/verify_without.log" 2>&1; without=$?
git checkout -q -- . ; git clean -fdq -e target -e Cargo.lock
echo "RESULT $S suite='$suite' suite_failures=$suite_fail demo_with_patch_exit=$with demo_without_patch_exit=$without"
