//! E5 — type-level witnesses: facts about calloop's public API that every violating *user program*
//! must break at compile time. Each `compile_fail` example carries the expected error code (checked
//! by rustdoc on nightly) and is paired with a compiling twin that differs only by the offending
//! line, so that a witness cannot pass merely because a path is misspelt.
//!
//! Run: `cargo +nightly test --doc --offline` (the thorough tier does this; see engine/rules/witness.py).

/// C08.4 — the loop handle is `!Send`: the single-threaded `RefCell` discipline is the whole story.
/// ```compile_fail,E0277
/// fn need_send<T: Send>() {}
/// need_send::<calloop::LoopHandle<'static, ()>>();
/// ```
/// twin:
/// ```
/// fn need_send<T: Send>() {}
/// need_send::<calloop::LoopSignal>();
/// ```
pub struct C08LoopHandleNotSend;

/// C08.4 — `EventLoop` is `!Send`.
/// ```compile_fail,E0277
/// fn need_send<T: Send>() {}
/// need_send::<calloop::EventLoop<'static, ()>>();
/// ```
/// twin:
/// ```
/// fn need_any<T>() {}
/// need_any::<calloop::EventLoop<'static, ()>>();
/// ```
pub struct C08EventLoopNotSend;

/// C08.4 — `Dispatcher` is `!Send`.
/// ```compile_fail,E0277
/// fn need_send<T: Send>() {}
/// need_send::<calloop::Dispatcher<'static, calloop::timer::Timer, ()>>();
/// ```
/// twin:
/// ```
/// fn need_any<T>() {}
/// need_any::<calloop::Dispatcher<'static, calloop::timer::Timer, ()>>();
/// ```
pub struct C08DispatcherNotSend;

/// C08.4 / C13.5 — `Idle` is `!Send`.
/// ```compile_fail,E0277
/// fn need_send<T: Send>() {}
/// need_send::<calloop::Idle<'static>>();
/// ```
/// twin:
/// ```
/// fn need_any<T>() {}
/// need_any::<calloop::Idle<'static>>();
/// ```
pub struct C08IdleNotSend;

/// C13.5 — `Idle::cancel` consumes the handle: an idle cannot be cancelled twice / used after.
/// ```compile_fail,E0382
/// let el: calloop::EventLoop<()> = calloop::EventLoop::try_new().unwrap();
/// let idle = el.handle().insert_idle(|_| {});
/// idle.cancel();
/// idle.cancel();
/// ```
/// twin:
/// ```
/// let el: calloop::EventLoop<()> = calloop::EventLoop::try_new().unwrap();
/// let idle = el.handle().insert_idle(|_| {});
/// idle.cancel();
/// ```
pub struct C13CancelConsumes;

/// C06.5 — a `RegistrationToken` cannot be forged: its field is private.
/// ```compile_fail,E0451
/// let el: calloop::EventLoop<()> = calloop::EventLoop::try_new().unwrap();
/// let t = el.handle().insert_source(calloop::timer::Timer::immediate(), |_, _, _| calloop::timer::TimeoutAction::Drop).unwrap();
/// let forged = calloop::RegistrationToken { inner: unimplemented!() };
/// el.handle().remove(forged);
/// # let _ = t;
/// ```
/// twin:
/// ```
/// let el: calloop::EventLoop<()> = calloop::EventLoop::try_new().unwrap();
/// let t = el.handle().insert_source(calloop::timer::Timer::immediate(), |_, _, _| calloop::timer::TimeoutAction::Drop).unwrap();
/// el.handle().remove(t);
/// ```
pub struct C06TokenNotForgeable;

/// C06.5 — nor can an issued token be altered.
/// ```compile_fail,E0616
/// let el: calloop::EventLoop<()> = calloop::EventLoop::try_new().unwrap();
/// let t = el.handle().insert_source(calloop::timer::Timer::immediate(), |_, _, _| calloop::timer::TimeoutAction::Drop).unwrap();
/// let _peek = t.inner;
/// ```
/// twin:
/// ```
/// let el: calloop::EventLoop<()> = calloop::EventLoop::try_new().unwrap();
/// let t = el.handle().insert_source(calloop::timer::Timer::immediate(), |_, _, _| calloop::timer::TimeoutAction::Drop).unwrap();
/// let _copy = t;
/// ```
pub struct C06TokenFieldPrivate;

/// C20.8 — the token internals are not nameable outside the crate.
/// ```compile_fail,E0603
/// type T = calloop::token::TokenInner;
/// ```
/// twin:
/// ```
/// type T = calloop::Token;
/// ```
pub struct C20TokenInnerPrivate;

/// C20.8 — a `Token`'s payload is private as well.
/// ```compile_fail,E0616
/// fn peek(t: calloop::Token) { let _ = t.inner; }
/// ```
/// twin:
/// ```
/// fn peek(t: calloop::Token) { let _ = t; }
/// ```
pub struct C20TokenFieldPrivate;

/// C03.6 — there is one drain point: `PingSource` is not `Clone`.
/// ```compile_fail,E0599
/// let (_ping, source) = calloop::ping::make_ping().unwrap();
/// let _second = source.clone();
/// ```
/// twin (`Ping` is `Clone + Send + Sync`):
/// ```
/// fn need<T: Send + Sync + Clone>(_: &T) {}
/// let (ping, _source) = calloop::ping::make_ping().unwrap();
/// need(&ping);
/// let _second = ping.clone();
/// ```
pub struct C03PingSourceNotClone;

/// C04.5 — one receiver: `Channel<T>` is not `Clone`; `Sender<T>` is `Send` for `T: Send`.
/// ```compile_fail,E0599
/// let (_tx, rx) = calloop::channel::channel::<u32>();
/// let _second = rx.clone();
/// ```
/// twin:
/// ```
/// fn need_send<T: Send>(_: &T) {}
/// let (tx, _rx) = calloop::channel::channel::<u32>();
/// need_send(&tx);
/// let _second = tx.clone();
/// ```
pub struct C04ChannelNotClone;

/// C10.5 — an `Executor` (and the futures it owns) cannot leave its thread.
/// ```compile_fail,E0277
/// fn need_send<T: Send>() {}
/// need_send::<calloop::futures::Executor<u32>>();
/// ```
/// twin:
/// ```
/// fn need_any<T>() {}
/// need_any::<calloop::futures::Executor<u32>>();
/// ```
pub struct C10ExecutorNotSend;

/// C10.5 — nor can a `Scheduler`.
/// ```compile_fail,E0277
/// fn need_send<T: Send>() {}
/// need_send::<calloop::futures::Scheduler<u32>>();
/// ```
/// twin:
/// ```
/// fn need_any<T>() {}
/// need_any::<calloop::futures::Scheduler<u32>>();
/// ```
pub struct C10SchedulerNotSend;

/// C16.6 — a registered fd cannot be moved out from under the poller by safe code: the callback's
/// `&mut NoIoDrop<F>` does not allow moving the file out ...
/// ```compile_fail,E0507
/// fn steal(f: &mut calloop::generic::NoIoDrop<std::fs::File>) -> std::fs::File { let NoIoDropped = *f; unimplemented!() }
/// ```
/// twin:
/// ```
/// fn look(f: &mut calloop::generic::NoIoDrop<std::fs::File>) -> &std::fs::File { &**f }
/// ```
pub struct C16NoIoDropNoMove;

/// C16.6 — ... and mutable access to the inner fd needs `unsafe`.
/// ```compile_fail,E0133
/// fn replace(f: &mut calloop::generic::NoIoDrop<std::fs::File>, g: std::fs::File) { *f.get_mut() = g; }
/// ```
/// twin:
/// ```
/// fn replace(f: &mut calloop::generic::NoIoDrop<std::fs::File>, g: std::fs::File) { unsafe { *f.get_mut() = g; } }
/// ```
pub struct C16NoIoDropGetMutUnsafe;
